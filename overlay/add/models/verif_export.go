//go:build verif

package models

import (
	"reflect"
	"sort"

	"github.com/prometheus/client_golang/prometheus"
	dto "github.com/prometheus/client_model/go"
)

// VerifSessionGauge sums the session_count gauge over its labels.
func VerifSessionGauge() float64 {
	ch := make(chan prometheus.Metric, 64)
	go func() { hagallSessionCount.Collect(ch); close(ch) }()
	var sum float64
	for m := range ch {
		var d dto.Metric
		if m.Write(&d) == nil && d.GetGauge() != nil {
			sum += d.GetGauge().GetValue()
		}
	}
	return sum
}

// Lock-free projections of unexported state for the /verif harness.  They are
// only called while no handler is running (L1) or while the cooperative
// scheduler has every goroutine parked (L1c).

// (read through reflection so that the set of reusable ids may be a map or a slice: the representation is the
// generator's own business)
func (g *SequentialIDGenerator) VerifState() (cur uint32, free []uint32) {
	v := reflect.ValueOf(g).Elem()
	cur = uint32(v.FieldByName("currentID").Uint())
	f := v.FieldByName("reusableIDs")
	switch f.Kind() {
	case reflect.Map:
		for _, k := range f.MapKeys() {
			free = append(free, uint32(k.Uint()))
		}
	case reflect.Slice, reflect.Array:
		for i := 0; i < f.Len(); i++ {
			free = append(free, uint32(f.Index(i).Uint()))
		}
	}
	sort.Slice(free, func(i, j int) bool { return free[i] < free[j] })
	return cur, free
}

func (s *SessionStore) VerifIDs() (uint32, []uint32) { return s.ids.VerifState() }

func (s *SessionStore) VerifSessions() map[string]*Session {
	out := make(map[string]*Session, len(s.sessions))
	for k, v := range s.sessions {
		out[k] = v
	}
	return out
}

func (s *Session) VerifParticipantIDs() (uint32, []uint32) { return s.participantIDs.VerifState() }
func (s *Session) VerifEntityIDs() (uint32, []uint32)      { return s.entityIDs.VerifState() }
func (s *Session) VerifFrameHandlerCount() int             { return len(s.frameHandlers) }
func (s *Session) VerifFrameTicker() any                   { return s.frameTicker }
func (s *Session) VerifFrameMutex() any                    { return &s.frameMutex }
func (s *Session) VerifParticipants() map[uint32]*Participant {
	out := make(map[uint32]*Participant, len(s.participants))
	for k, v := range s.participants {
		out[k] = v
	}
	return out
}
func (s *Session) VerifEntities() map[uint32]*Entity {
	out := make(map[uint32]*Entity, len(s.entities))
	for k, v := range s.entities {
		out[k] = v
	}
	return out
}
func (s *Session) VerifModuleStates() map[string]any {
	out := make(map[string]any, len(s.moduleStates))
	for k, v := range s.moduleStates {
		out[k] = v
	}
	return out
}

func (e *Entity) VerifPose() Pose { return e.pose }

func (s *EntityComponentStore) VerifTypeIDs() (uint32, []uint32) { return s.ids.VerifState() }

func (s *EntityComponentStore) VerifTypes() map[string]uint32 {
	out := make(map[string]uint32, len(s.idIndex))
	for k, v := range s.idIndex {
		out[k] = v
	}
	return out
}

func (s *EntityComponentStore) VerifTypeNames() map[uint32]string {
	out := make(map[uint32]string, len(s.nameIndex))
	for k, v := range s.nameIndex {
		out[k] = v
	}
	return out
}

// VerifComponents returns (type id, entity id, data) triples.
func (s *EntityComponentStore) VerifComponents() [][3]any {
	var out [][3]any
	for tid, m := range s.entityComponents {
		for eid, ec := range m {
			out = append(out, [3]any{tid, eid, ec.Data})
		}
	}
	return out
}

func (s *EntityComponentStore) VerifSubscriptions() map[uint32][]uint32 {
	out := make(map[uint32][]uint32, len(s.subscriptions))
	for tid, m := range s.subscriptions {
		var ps []uint32
		for p := range m {
			ps = append(ps, p)
		}
		sort.Slice(ps, func(i, j int) bool { return ps[i] < ps[j] })
		out[tid] = ps
	}
	return out
}

// VerifSessionGaugeByLabel returns the session_count gauge per label set.
func VerifSessionGaugeByLabel() map[string]float64 {
	ch := make(chan prometheus.Metric, 64)
	go func() { hagallSessionCount.Collect(ch); close(ch) }()
	out := map[string]float64{}
	for m := range ch {
		var d dto.Metric
		if m.Write(&d) == nil && d.GetGauge() != nil {
			k := ""
			for _, l := range d.GetLabel() {
				k += l.GetName() + "=" + l.GetValue() + ","
			}
			out[k] = d.GetGauge().GetValue()
		}
	}
	return out
}
