//go:build verif

package odal

// VerifAssetIDs exposes the asset-instance id source to the /verif harness.
func (s *State) VerifAssetIDs() (uint32, []uint32) { return s.assetInstanceIDs.VerifState() }
