//go:build verif

package dagaz

// Exports for the /verif harness (geometry primitives and vector fields).
func VerifOverlap(a, b Quad) bool                     { return doHorizontalPlanesOverlap(a, b) }
func VerifNormal(c, e Vector3f) Vector3f              { return calculateNormal(c, e) }
func (v Vector3f) VerifXYZ() (float32, float32, float32) { return v.x, v.y, v.z }
