//go:build verif

package websocket

import (
	"context"

	hwebsocket "github.com/aukilabs/hagall-common/websocket"
	"github.com/prometheus/client_golang/prometheus"
	dto "github.com/prometheus/client_model/go"
)

// VerifConn gives the /verif harness access to the unexported per-connection
// message switch (handler.handleMessage) without a socket.
type VerifConn struct{ h handler }

func VerifNewConn(hd Handler, d hwebsocket.Dispatcher) *VerifConn {
	return &VerifConn{h: handler{Handler: hd, dispatcher: d}}
}

// HandleMessage runs the real handler.handleMessage.
func (v *VerifConn) HandleMessage(ctx context.Context, msg hwebsocket.Msg, r hwebsocket.ResponseSender) error {
	return v.h.handleMessage(ctx, msg, r)
}

// Handler returns the wrapped handler.
func (v *VerifConn) Handler() Handler { return v.h.Handler }

// VerifSendChanSize exposes the capacity of the per-connection send channel.
const VerifSendChanSize = sendChanSize

// VerifConnectedClients sums the ws_connected_clients gauge over its labels.
func VerifConnectedClients() float64 {
	ch := make(chan prometheus.Metric, 64)
	go func() { wsConnectedClients.Collect(ch); close(ch) }()
	var sum float64
	for m := range ch {
		var d dto.Metric
		if m.Write(&d) == nil && d.GetGauge() != nil {
			sum += d.GetGauge().GetValue()
		}
	}
	return sum
}

// VerifConnectedClientsByLabel returns the ws_connected_clients gauge per label set ("name=value,..." sorted).
func VerifConnectedClientsByLabel() map[string]float64 {
	ch := make(chan prometheus.Metric, 64)
	go func() { wsConnectedClients.Collect(ch); close(ch) }()
	out := map[string]float64{}
	for m := range ch {
		var d dto.Metric
		if m.Write(&d) == nil && d.GetGauge() != nil {
			k := ""
			for _, l := range d.GetLabel() {
				k += l.GetName() + "=" + l.GetValue() + ","
			}
			out[k] = d.GetGauge().GetValue()
		}
	}
	return out
}
