//go:build verif

package websocket

import (
	"context"

	hwebsocket "github.com/aukilabs/hagall-common/websocket"
)

// VerifConn gives the /verif harness access to the unexported per-connection
// message switch (handler.handleMessage) without a socket.
type VerifConn struct{ h handler }

func VerifNewConn(hd Handler, d hwebsocket.Dispatcher) *VerifConn {
	return &VerifConn{h: handler{Handler: hd, dispatcher: d}}
}

// HandleMessage runs the real handler.handleMessage.
func (v *VerifConn) HandleMessage(ctx context.Context, msg hwebsocket.Msg, r hwebsocket.ResponseSender) error {
	return v.h.handleMessage(ctx, msg, r)
}

// Handler returns the wrapped handler.
func (v *VerifConn) Handler() Handler { return v.h.Handler }

// VerifSendChanSize exposes the capacity of the per-connection send channel.
const VerifSendChanSize = sendChanSize
