// Package verifrt is the check-time runtime shim that /verif's build overlay
// substitutes for "sync" (and for the frame ticker / latency clock) inside the
// hagall packages.  It does not exist in /repo: tools/mkoverlay.py adds it as
// /repo/verifrt through `go build -overlay` together with a one-token rewrite of
// the `"sync"` import of every file in models, websocket and modules/**.
//
// With no interceptor installed every type behaves exactly like its sync
// counterpart.  With an interceptor installed (the harness does that):
//
//   - Before(ev) runs before Lock/RLock is attempted and may block: it is the
//     gate of the cooperative scheduler (harness level L1c);
//   - After(ev) runs after the lock has been acquired, and before it is
//     released for Unlock/RUnlock (so the event is emitted while the lock is
//     still held, i.e. at the linearisation point of the critical section).
package verifrt

import (
	"runtime"
	"strconv"
	"strings"
	gosync "sync"
	"sync/atomic"
	"time"
	"unsafe"
)

// Re-exports so that the alias import `sync "…/verifrt"` keeps compiling.
type (
	Once      = gosync.Once
	WaitGroup = gosync.WaitGroup
	Map       = gosync.Map
	Pool      = gosync.Pool
	Cond      = gosync.Cond
	Locker    = gosync.Locker
)

func NewCond(l Locker) *Cond { return gosync.NewCond(l) }

type Op int

const (
	OpLock Op = iota
	OpUnlock
	OpRLock
	OpRUnlock
)

func (o Op) String() string {
	return [...]string{"Lock", "Unlock", "RLock", "RUnlock"}[o]
}

// Event describes one lock operation.
type Event struct {
	Op   Op
	Mu   uintptr // address of the mutex: its identity
	RW   bool    // RWMutex (true) or Mutex (false)
	G    int64   // goroutine id
	Fn   string  // function performing the operation, e.g. models.(*Session).AddParticipant
	File string  // file:line of the operation
	Line int
}

// Interceptor receives lock events.
type Interceptor interface {
	Before(ev *Event)
	After(ev *Event)
}

type icptBox struct {
	i    Interceptor
	mask uint
}

// MaskAll selects every operation.
const MaskAll = uint(1<<OpLock | 1<<OpUnlock | 1<<OpRLock | 1<<OpRUnlock)

var icpt atomic.Pointer[icptBox]

// SetInterceptor installs (or, with nil, removes) the interceptor.
func SetInterceptor(i Interceptor) { SetInterceptorMask(i, MaskAll) }

// SetInterceptorMask installs an interceptor that only sees the operations
// selected by mask (bit 1<<Op); the others take the plain sync path.
func SetInterceptorMask(i Interceptor, mask uint) {
	if i == nil {
		icpt.Store(nil)
		return
	}
	icpt.Store(&icptBox{i: i, mask: mask})
}

func current(op Op) Interceptor {
	b := icpt.Load()
	if b == nil || b.mask&(1<<uint(op)) == 0 {
		return nil
	}
	return b.i
}

// GoID returns the id of the calling goroutine.
func GoID() int64 {
	var buf [64]byte
	n := runtime.Stack(buf[:], false)
	s := strings.TrimPrefix(string(buf[:n]), "goroutine ")
	if i := strings.IndexByte(s, ' '); i > 0 {
		id, _ := strconv.ParseInt(s[:i], 10, 64)
		return id
	}
	return 0
}

func mkEvent(op Op, mu unsafe.Pointer, rw bool) *Event {
	ev := &Event{Op: op, Mu: uintptr(mu), RW: rw, G: GoID()}
	// skip: Callers, mkEvent, Lock/Unlock wrapper -> first frame is the user.
	var pcs [8]uintptr
	n := runtime.Callers(3, pcs[:])
	frames := runtime.CallersFrames(pcs[:n])
	for {
		f, more := frames.Next()
		if f.Function != "" && !strings.Contains(f.Function, "/verifrt.") {
			ev.Fn = trimFn(f.Function)
			ev.File = f.File
			ev.Line = f.Line
			break
		}
		if !more {
			break
		}
	}
	return ev
}

func trimFn(fn string) string {
	if i := strings.LastIndex(fn, "/"); i >= 0 {
		fn = fn[i+1:]
	}
	return fn
}

// Mutex is sync.Mutex with interception.
type Mutex struct{ mu gosync.Mutex }

func (m *Mutex) Lock() {
	if i := current(OpLock); i != nil {
		ev := mkEvent(OpLock, unsafe.Pointer(m), false)
		i.Before(ev)
		m.mu.Lock()
		i.After(ev)
		return
	}
	m.mu.Lock()
}

func (m *Mutex) TryLock() bool { return m.mu.TryLock() }

func (m *Mutex) Unlock() {
	if i := current(OpUnlock); i != nil {
		ev := mkEvent(OpUnlock, unsafe.Pointer(m), false)
		i.After(ev)
	}
	m.mu.Unlock()
}

// RWMutex is sync.RWMutex with interception.
type RWMutex struct{ mu gosync.RWMutex }

func (m *RWMutex) Lock() {
	if i := current(OpLock); i != nil {
		ev := mkEvent(OpLock, unsafe.Pointer(m), true)
		i.Before(ev)
		m.mu.Lock()
		i.After(ev)
		return
	}
	m.mu.Lock()
}

func (m *RWMutex) Unlock() {
	if i := current(OpUnlock); i != nil {
		ev := mkEvent(OpUnlock, unsafe.Pointer(m), true)
		i.After(ev)
	}
	m.mu.Unlock()
}

func (m *RWMutex) RLock() {
	if i := current(OpRLock); i != nil {
		ev := mkEvent(OpRLock, unsafe.Pointer(m), true)
		i.Before(ev)
		m.mu.RLock()
		i.After(ev)
		return
	}
	m.mu.RLock()
}

func (m *RWMutex) RUnlock() {
	if i := current(OpRUnlock); i != nil {
		ev := mkEvent(OpRUnlock, unsafe.Pointer(m), true)
		i.After(ev)
	}
	m.mu.RUnlock()
}

func (m *RWMutex) TryLock() bool  { return m.mu.TryLock() }
func (m *RWMutex) TryRLock() bool { return m.mu.TryRLock() }
func (m *RWMutex) RLocker() Locker { return m.mu.RLocker() }

// ---------------------------------------------------------------------------
// Virtual frame ticker (models/session.go).

// Ticker mirrors the part of time.Ticker the session uses.  When no ticker
// factory is installed it is backed by a real time.Ticker.
type Ticker struct {
	C    <-chan time.Time
	Feed chan time.Time // harness side of C (nil when backed by a real ticker)
	D    time.Duration
	real *time.Ticker

	stopped atomic.Bool
	ID      int64
}

var (
	virtualTickers atomic.Bool
	tickerSeq      atomic.Int64
	tickerMu       gosync.Mutex
	tickers        []*Ticker
)

// UseVirtualTickers makes every later NewTicker return a harness-fed ticker.
func UseVirtualTickers(on bool) { virtualTickers.Store(on) }

func NewTicker(d time.Duration) *Ticker {
	if !virtualTickers.Load() {
		rt := time.NewTicker(d)
		return &Ticker{C: rt.C, D: d, real: rt}
	}
	ch := make(chan time.Time) // unbuffered: a completed send means "received"
	t := &Ticker{C: ch, Feed: ch, D: d, ID: tickerSeq.Add(1)}
	tickerMu.Lock()
	tickers = append(tickers, t)
	tickerMu.Unlock()
	return t
}

func (t *Ticker) Stop() {
	t.stopped.Store(true)
	if t.real != nil {
		t.real.Stop()
	}
}

func (t *Ticker) Stopped() bool { return t.stopped.Load() }

func (t *Ticker) Reset(d time.Duration) {
	if t.real != nil {
		t.real.Reset(d)
	}
}

// Tickers returns the virtual tickers created so far.
func Tickers() []*Ticker {
	tickerMu.Lock()
	defer tickerMu.Unlock()
	return append([]*Ticker(nil), tickers...)
}

// ---------------------------------------------------------------------------
// Virtual clock (models/signed_latency.go).

var (
	virtualClock atomic.Bool
	clockMu      gosync.Mutex
	clockNow     = time.Unix(1_700_000_000, 0)
	clockStep    = time.Duration(0)
)

// UseVirtualClock switches Now() to the harness-controlled clock.
func UseVirtualClock(on bool) { virtualClock.Store(on) }

// SetClock sets the virtual time and the amount it advances after each Now().
func SetClock(t time.Time, step time.Duration) {
	clockMu.Lock()
	clockNow, clockStep = t, step
	clockMu.Unlock()
}

// Advance moves the virtual clock forward.
func Advance(d time.Duration) {
	clockMu.Lock()
	clockNow = clockNow.Add(d)
	clockMu.Unlock()
}

func Now() time.Time {
	if !virtualClock.Load() {
		return time.Now()
	}
	clockMu.Lock()
	defer clockMu.Unlock()
	t := clockNow
	clockNow = clockNow.Add(clockStep)
	return t
}
