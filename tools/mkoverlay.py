#!/usr/bin/env python3
"""Generate the check-time build overlay from the CURRENT /repo working tree.

usage: mkoverlay.py <repo> <outdir> [--access]

Writes rewritten copies of the hagall sources plus the added verif files into
<outdir> and an <outdir>/overlay.json for `go build -tags verif -overlay`.
Nothing under <repo> is touched.

Rewrites (all textual, one token each, so that a changed or added lock site is
instrumented like any other):
  1. `"sync"` import  ->  `sync "github.com/aukilabs/hagall/verifrt"` in every
     non-test .go file of models, websocket, modules/** that imports sync;
  2. models/session.go: time.NewTicker( -> sync.NewTicker( and *time.Ticker ->
     *sync.Ticker (virtual frame ticker);
  3. models/signed_latency.go: time.Now() -> vrt.Now() (virtual latency clock);
  4. added files: verifrt/*.go, */verif_export.go.
Exit status 2 with a reason when a rewrite cannot be placed.
"""
import json, os, re, sys, shutil

MOD = "github.com/aukilabs/hagall"
SHIM = MOD + "/verifrt"
HERE = os.path.dirname(os.path.dirname(os.path.abspath(__file__)))


def die(msg):
    sys.stderr.write("mkoverlay: " + msg + "\n")
    sys.exit(2)


def rewrite_sync(src):
    """alias the sync import; returns (new_src, changed)"""
    # inside an import block:   \t"sync"
    new, n = re.subn(r'(?m)^(\s*)"sync"\s*$', r'\1sync "%s"' % SHIM, src)
    if n == 0:
        new, n = re.subn(r'(?m)^import\s+"sync"\s*$', 'import sync "%s"' % SHIM, src)
    return new, n > 0


def add_import(src, line):
    m = re.search(r'(?m)^import \(\s*$', src)
    if not m:
        die("no import block to extend")
    return src[:m.end()] + "\n\t" + line + src[m.end():]


def main():
    if len(sys.argv) < 3:
        die("usage: mkoverlay.py <repo> <outdir>")
    repo = os.path.abspath(sys.argv[1])
    out = os.path.abspath(sys.argv[2])
    os.makedirs(out, exist_ok=True)
    replace = {}
    report = {"sync_rewritten": [], "ticker": False, "clock": False, "added": []}

    def emit(rel, text):
        dst = os.path.join(out, "src", rel)
        os.makedirs(os.path.dirname(dst), exist_ok=True)
        with open(dst, "w") as f:
            f.write(text)
        replace[os.path.join(repo, rel)] = dst

    pkgs = ["models", "websocket", "modules"]
    for top in pkgs:
        for dirpath, _, files in os.walk(os.path.join(repo, top)):
            for fn in sorted(files):
                if not fn.endswith(".go") or fn.endswith("_test.go"):
                    continue
                path = os.path.join(dirpath, fn)
                rel = os.path.relpath(path, repo)
                src = open(path).read()
                new, changed = rewrite_sync(src)
                if rel == "models/session.go":
                    if not changed:
                        die("models/session.go no longer imports sync")
                    n1 = new.count("time.NewTicker(")
                    n2 = new.count("*time.Ticker")
                    if n1 == 0 or n2 == 0:
                        die("models/session.go: frame ticker construction not found (time.NewTicker / *time.Ticker)")
                    new = new.replace("time.NewTicker(", "sync.NewTicker(").replace("*time.Ticker", "*sync.Ticker")
                    report["ticker"] = True
                if rel == "models/signed_latency.go":
                    if "time.Now()" not in new:
                        die("models/signed_latency.go: time.Now() not found")
                    new = new.replace("time.Now()", "vrt.Now()")
                    new = add_import(new, 'vrt "%s"' % SHIM)
                    changed = True
                    report["clock"] = True
                if changed or new != src:
                    emit(rel, new)
                    if changed:
                        report["sync_rewritten"].append(rel)

    # added files
    shim_dir = os.path.join(HERE, "overlay", "verifrt")
    for fn in sorted(os.listdir(shim_dir)):
        if fn.endswith(".go"):
            rel = os.path.join("verifrt", fn)
            emit(rel, open(os.path.join(shim_dir, fn)).read())
            report["added"].append(rel)
    add_dir = os.path.join(HERE, "overlay", "add")
    for dirpath, _, files in os.walk(add_dir):
        for fn in sorted(files):
            if fn.endswith(".go"):
                rel = os.path.relpath(os.path.join(dirpath, fn), add_dir)
                if os.path.exists(os.path.join(repo, rel)):
                    die("added file collides with an existing source file: " + rel)
                emit(rel, open(os.path.join(dirpath, fn)).read())
                report["added"].append(rel)

    with open(os.path.join(out, "overlay.json"), "w") as f:
        json.dump({"Replace": replace}, f, indent=1)
    with open(os.path.join(out, "report.json"), "w") as f:
        json.dump(report, f, indent=1)
    print(os.path.join(out, "overlay.json"))


if __name__ == "__main__":
    main()
