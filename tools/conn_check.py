"""C08: no client behaviour can crash the server, wedge a handler or leave a ghost.
ConnLife.tla (TLC: safety + liveness over all placements of client faults) and wire-level scenarios on the
real server (L2 harness): fault class x life point x burst length, with a witness in the same session, a
witness in another session, gauges and goroutines; every handler's event stream is validated by TLC against
ConnLife (ConnTrace, silent steps composed in)."""
import json, os, random
from concurrent.futures import ThreadPoolExecutor

from vlib import NCPU, Inconclusive, write_evidence, known_match, save_replay, read_ndjson, write_ndjson, VERIF

MODS = ["vikja", "odal", "dagaz"]


def time_scale():
    """the idle scenarios run in real time (idle timeout 250 ms, a ping every 45 ms): on a loaded machine the same
    scenario is run on a slower clock (the margins keep their proportions)"""
    try:
        l1 = os.getloadavg()[0]
    except OSError:
        return 1
    return 1 if l1 < 1.5 * NCPU else (2 if l1 < 4 * NCPU else 4)


TS = 1


def J(c, sid, rid=1):
    return dict(op="req", c=c, req=dict(k="Join", rid=rid, sid=sid, ts=rid))


def R(c, **req):
    return dict(op="req", c=c, req=req)


# fault classes: name -> (ops for victim connection 1, fatal at life point?)  life points: fresh | alone | full
def fault_ops(cls, seed):
    V = 1
    table = {
        "garbage": ([dict(op="fault", c=V, **{"class": "garbage"})], "fatal"),
        "truncated": ([dict(op="fault", c=V, **{"class": "truncated"})], "fatal"),
        "notimestamp": ([dict(op="fault", c=V, **{"class": "notimestamp"})], "fatal"),
        "empty": ([dict(op="fault", c=V, **{"class": "empty"})], "fatal"),
        "text": ([dict(op="fault", c=V, **{"class": "text"})], "fatal"),
        "close": ([dict(op="close", c=V)], "fatal"),
        "closeframe": ([dict(op="closeframe", c=V)], "fatal"),
        "receipt_empty": ([R(V, k="Receipt", rid=77, receipt="", hash="", sig="")], "fatal"),
        "burst_receipt": ([dict(op="burst", c=V, n=[1, 9, 40][seed % 3], req=dict(k="Receipt", rid=77, receipt="", hash="", sig=""))], "fatal"),
        "burst_fail": ([dict(op="burst", c=V, n=[2, 9, 12, 40][seed % 4], req=dict(k="EntityAdd", rid=4, persist=False, flag=0, px=1, ts=4))], "fatal_if_fresh"),
        # the victim stays silent for the idle timeout; the witnesses keep talking and must survive
        "idle": ([x for i in range(14) for x in (dict(op="barrier", c=3, ms=2000 * TS), dict(op="barrier_if", c=2, ms=2000 * TS), dict(op="sleep", ms=45 * TS))], "fatal"),
        # not fatal: the connection must stay usable
        "unknown_type": ([R(V, k="Unknown", rid=5, type=77), R(V, k="Unknown", rid=5, type=150), R(V, k="Leave", rid=6)], "benign"),
        "pose_nil": ([R(V, k="Pose", eid=1, px=-1, ts=9), dict(op="sleep", ms=30)], "benign_if_joined"),
        "action_nil": ([R(V, k="Action", rid=8, eid=1, name="x", ats=1, data=1, has=False, ts=9)], "benign"),
        "asset_empty": ([R(V, k="AssetAdd", rid=8, eid=99, asset="", ts=9)], "benign"),
        "custom_huge": ([dict(op="fault", c=V, **{"class": "huge"})], "benign_if_joined"),
        "dagaz_nil": ([R(V, k="Quad", quads=[[None, None]]), R(V, k="Ground", rid=9), R(V, k="Region", rid=10), R(V, k="Debug", rid=11)], "benign"),
        "dagaz_nan": ([R(V, k="Quad", quads=[[["nan", 0, 0], [1, 0, 1]], [[0, 0, "inf"], [1, 0, 1]], [[0, 0, 0], ["-inf", 0, "nan"]]]),
                       R(V, k="Ground", rid=9, ray=[["nan", 5, 0], ["nan", -5, 0]])], "benign"),
        "chatty": ([x for i in range(14) for x in (R(V, k="Ping", rid=300 + i), dict(op="barrier", c=3, ms=2000 * TS), dict(op="barrier_if", c=2, ms=2000 * TS),
                                                     dict(op="sleep", ms=45 * TS))], "benign"),
        # the victim stops reading, the witness of its session floods it with relays, then the victim's connection is reset:
        # everything C06 promises must still happen (ConnSend.tla; the regression scenarios l2_D19_* add the schedule)
        "stalled_member_close": ([dict(op="stall", c=V), dict(op="aburst_if", c=2, n=1500, req=dict(k="Custom", len=10000, dig=0, to=[], ts=9)),
                                  dict(op="sleep", ms=700), dict(op="close", c=V), dict(op="waitburst_if", c=2, ms=60000)], "fatal"),
        # a handler call of the victim lasts longer than the idle timeout while its next messages are already queued: the idle
        # timer expires with the loop away; whichever case the loop takes next, the connection ends at the latest when the
        # client goes away, through the normal path, once (config: hold_ms inside the first Custom handler call)
        "slow_handler_idle": ([R(V, k="Custom", len=5, dig=1, to=[], ts=9), dict(op="burst", c=V, n=5, req=dict(k="Ping", rid=77))] +
                              [x for i in range(14) for x in (dict(op="barrier", c=3, ms=2000 * TS), dict(op="barrier_if", c=2, ms=2000 * TS), dict(op="sleep", ms=45 * TS))] +
                              [dict(op="close", c=V)], "fatal"),
        "bad_join_ids": ([J(V, -1, 31), J(V, 99, 32), R(V, k="EntityDelete", rid=33, eid=999, ts=3),
                          R(V, k="CompAdd", rid=34, tid=0, eid=0, data=1, ts=3), R(V, k="SignedLatency", rid=35, n=0, wallet="")], "benign_if_joined"),
    }
    return table[cls]


CLASSES = ["garbage", "truncated", "notimestamp", "empty", "text", "close", "closeframe", "receipt_empty", "burst_receipt", "burst_fail",
           "idle", "unknown_type", "pose_nil", "action_nil", "asset_empty", "custom_huge", "dagaz_nil", "dagaz_nan", "chatty", "bad_join_ids", "stalled_member_close", "slow_handler_idle"]
LIFE = ["fresh", "alone", "full", "switched"]


def scenario(cls, life, seed):
    """victim = connection 1; witness 2 shares its session (life=full); witness 3 lives in another session"""
    ops = [dict(op="dial", c=1), dict(op="dial", c=2), dict(op="dial", c=3)]
    idle = 250 * TS if cls in ("idle", "chatty", "slow_handler_idle") else 60000
    ops += [J(3, 0, 1), dict(op="barrier", c=3)]          # session 1: the bystander
    if life in ("alone", "full", "switched"):
        ops += [J(1, 0, 2), dict(op="barrier", c=1)]        # session 2: the victim's
    if life in ("full", "switched"):
        ops += [J(2, 2, 3), dict(op="barrier", c=2),
                R(1, k="EntityAdd", rid=10, persist=False, flag=0, px=1, ts=10),
                R(1, k="EntityAdd", rid=11, persist=True, flag=0, px=1, ts=11),
                R(1, k="EntityAdd", rid=12, persist=False, flag=1, px=2, ts=12),
                R(1, k="TypeAdd", rid=13, name="a"), R(1, k="CompAdd", rid=14, tid=1, eid=1, data=1, ts=14),
                R(1, k="CompAdd", rid=15, tid=1, eid=2, data=1, ts=15), R(2, k="Sub", rid=16, tid=1),
                R(1, k="Action", rid=17, eid=1, name="x", ats=1, data=1, ts=17), R(1, k="Action", rid=18, eid=2, name="x", ats=1, data=1, ts=18),
                R(1, k="AssetAdd", rid=19, eid=1, asset="m", ts=19), R(1, k="AssetAdd", rid=20, eid=2, asset="m", ts=20),
                dict(op="barrier", c=1), dict(op="barrier", c=2)]
    if life == "switched":
        # the victim moves on to a session of its own, with an update still parked in its scheduler
        ops += [J(1, 0, 40), dict(op="barrier", c=1), R(1, k="EntityAdd", rid=41, persist=False, flag=0, px=1, ts=41),
                R(1, k="Pose", eid=1, px=5, ts=42), R(1, k="Pose", eid=7, px=5, ts=43), dict(op="barrier", c=1), dict(op="barrier", c=2)]
    fops, kind = fault_ops(cls, seed)
    if life == "switched":
        # an update is parked in the victim's scheduler at the very moment of the fault (frames are slow here)
        fops = [R(1, k="Pose", eid=1, px=6, ts=44)] + fops
    if cls in ("idle", "chatty"):
        # the witnesses must not idle out themselves: they keep pinging through barriers below
        pass
    fops = [o for o in fops if not (o["op"].endswith("_if") and life not in ("full", "switched"))]
    for o in fops:
        if o["op"].endswith("_if"):
            o["op"] = o["op"][:-3]
    ops += fops
    fatal = kind == "fatal" or (kind == "fatal_if_fresh" and life == "fresh") or (kind == "benign_if_joined" and life == "fresh")
    if cls == "custom_huge" and life == "fresh":
        fatal = True
    if cls in ("pose_nil",) and life == "fresh":
        fatal = False   # a parked update of a connection that never joined is never consumed
    slow = 10 if cls.startswith("stalled_member") else 1
    if fatal:
        ops += [dict(op="waitreturn", c=1, ms=4000 * slow)]
    else:
        ops += [dict(op="barrier", c=1, ms=3000)]
    ops += [dict(op="barrier", c=2 if life in ("full", "switched") else 3, ms=3000 * slow), dict(op="barrier", c=3, ms=3000 * slow)]
    if life in ("full", "switched"):
        ops += [dict(op="sleep", ms=(150 if life == "switched" else 30)), dict(op="barrier", c=2, ms=3000 * slow)]
    cfg = dict(mods=MODS, idle_ms=idle, frame_ms=(60 if life == "switched" else 2))
    if cls == "slow_handler_idle":
        cfg.update(hold_conn=1, hold_name="Custom", hold_ms=3 * idle)
    return dict(sid="%s/%s/%d" % (cls, life, seed), cls=cls, life=life, fatal=fatal, config=cfg, ops=ops)


def judge(sc, r):
    """scenario verdict from the harness result: list of problems (empty = as the property demands)"""
    bad = []
    res = {x["i"]: x for x in r["results"]}
    evs = r["events"]
    disc = [e for e in evs if e["conn"] == 1 and e["ev"] == "disc"]
    ret = [e for e in evs if e["conn"] == 1 and e["ev"] == "return"]
    for x in r["results"]:
        if "err" in x and x["op"] not in ("req", "burst", "fault", "aburst", "closeframe"):
            bad.append("op %d %s: %s" % (x["i"], x["op"], x["err"]))
    # the last ops are: [waitreturn|barrier victim], barrier witness, barrier 3, (barrier 2)
    tail = [x for x in r["results"] if x["op"] in ("waitreturn", "barrier")]
    nb = 3 if sc["life"] in ("full", "switched") else 2
    victim_op = tail[-(nb + 1)]
    if sc["fatal"]:
        if not victim_op.get("ok"):
            bad.append("the offending connection's handler did not return")
        if len(disc) != 1:
            bad.append("HandleDisconnect ran %d times for the offender" % len(disc))
    else:
        if not victim_op.get("ok"):
            bad.append("a benign input ended or wedged the connection")
        if disc and disc[0]["seq"] < max(e["seq"] for e in evs if e["conn"] == 1 and e["ev"] in ("recv", "handle")):
            bad.append("HandleDisconnect ran although the input is not fatal")
    for x in tail[-nb:]:
        if not x.get("ok"):
            bad.append("a witness connection stopped making progress")
    if any(e["ev"] == "handle" and "panic" in e.get("err", "") for e in evs):
        bad.append("panic")
    # the witness in the same session is told exactly once about each removed entity and about the departure
    if (sc["life"] == "full" and sc["fatal"]) or sc["life"] == "switched":
        got = (r["clients"].get("2") or [])
        dels = sorted(m["eid"] for m in got if m["t"] == "ENTITY_DELETE_BROADCAST")
        leaves = [m for m in got if m["t"] == "LEAVE_BROADCAST"]
        if dels != [1, 3]:
            bad.append("witness saw entity deletions %s, expected [1, 3]" % dels)
        if len(leaves) != 1:
            bad.append("witness saw %d departure relays" % len(leaves))
    # the bystander session never hears anything
    got3 = [m for m in (r["clients"].get("3") or []) if m["t"].endswith("_BROADCAST")]
    if got3:
        bad.append("a participant of another session received %s" % got3[0]["t"])
    if not r["all_returned"]:
        bad.append("handlers that never returned after every client had gone: %s" % r["not_returned"])
    if r["clients_gauge_delta"] != 0:
        bad.append("ws_connected_clients off by %d" % r["clients_gauge_delta"])
    elif r.get("clients_gauge_imbalance"):
        # the total is back, a label's series is not (connections of two apps: the app key a connection was counted under
        # is the one it must be discounted under, whatever session it was in)
        bad.append("ws_connected_clients: the total is back but its per-app series are off by %d in sum" % r["clients_gauge_imbalance"])
    if r["sessions_left"] != 0:      # (the session gauge itself is C07's subject)
        bad.append("sessions left behind: registry %d, gauge %+d" % (r["sessions_left"], r["sessions_gauge_delta"]))
    if r["goroutines_delta"] > 0:
        bad.append("goroutines leaked: %s" % (r.get("goroutine_stacks") or [])[:3])
    return bad


def conn_traces(results, path):
    n = 0
    with open(path, "w") as f:
        for r in results:
            by = {}
            for e in r["events"]:
                by.setdefault(e["conn"], []).append(e)
            for c in sorted(by):
                for e in by[c]:
                    e2 = dict(e)
                    e2["sid"] = r["sid"]
                    f.write(json.dumps(e2) + "\n")
                n += 1
    return n


TCFG = ("SPECIFICATION TSpec\nCONSTANTS\n  K = 8\n  Q = 256\n  MaxFrames = 100000000\n  Blocking = FALSE\n  Drain = TRUE\n"
        "INVARIANT Ok_C08\nCONSTRAINT Mark\nCHECK_DEADLOCK FALSE\nPOSTCONDITION TraceAccepted\n")


def validate_events(work, results):
    """ConnTrace over the handlers' event streams, in parallel chunks; returns rejected (sid, conn) list"""
    chunks = [results[i::NCPU] for i in range(min(NCPU, len(results)))]
    rejected = []

    def one(i):
        p = work.path("conntrace", "c%d.ndjson" % i)
        conn_traces(chunks[i], p)
        lines = open(p).readlines()
        off, out, rounds = 0, [], 0
        while off < len(lines) and rounds < 20:
            rounds += 1
            part = p + ".part"
            open(part, "w").writelines(lines[off:])
            r = work.tlc("ct%d" % i, "ConnTrace", TCFG, workers=1, timeout=900, env=dict(VERIF_TRACE=part), dump=False)
            if "error" in r and "Postcondition" not in open(r["log"]).read():
                raise Inconclusive("ConnTrace failed: %s" % r["error"])
            log = open(r["log"]).read()
            if "violated" not in r and "Postcondition TraceAccepted" not in log:
                break
            # find the furthest position explained: re-run is avoided by bisecting on handler boundaries
            # (each handler starts with a "start" event): validate handler by handler from here
            j = off
            starts = [k for k in range(off, len(lines)) if '"ev": "start"' in lines[k] or '"ev":"start"' in lines[k]] + [len(lines)]
            found = False
            for a, b in zip(starts, starts[1:]):
                open(part, "w").writelines(lines[a:b])
                rr = work.tlc("ct%d" % i, "ConnTrace", TCFG, workers=1, timeout=300, env=dict(VERIF_TRACE=part), dump=False)
                lg = open(rr["log"]).read()
                if "violated" in rr or "Postcondition TraceAccepted" in lg:
                    e = json.loads(lines[a])
                    out.append(dict(sid=e["sid"], conn=e["conn"], inv=rr.get("violated", "TraceAccepted"),
                                    events=[json.loads(x) for x in lines[a:b]][:60]))
                    off = b
                    found = True
                    break
            if not found:
                break
        return out

    with ThreadPoolExecutor(max_workers=NCPU) as ex:
        for o in ex.map(one, range(len(chunks))):
            rejected += o
    return rejected


def shutdown_stage(work):
    """Beyond the listed properties (NOT part of the C08 verdict): server shutdown seen from one connection, ConnShutdown.tla.
    TLC: what holds, and the two named deviations (D22: the departure path is skipped, D23: Handle waits for a client that
    stays silent) must be refuted; then the behaviours are replayed on the real server (op `shutdown` = the parent
    context of every handler.Handle is cancelled) and compared with the specification's predictions.  A disagreement means
    the shutdown model is out of date; it is recorded in the evidence, it is not a violation of any listed property."""
    out = dict(spec="ConnShutdown.tla", tlc=[], replays=[])
    base = "SPECIFICATION SSpec\nCONSTANTS\n  K = 2\n  Q = 2\n  MaxFrames = 3\n  Blocking = FALSE\n  Drain = TRUE\nCHECK_DEADLOCK FALSE\n"
    for name, body, refuted in (("holds", "INVARIANTS S_AtMostOnce S_NeverStuck S_ReturnedMeansDisconnectedUnlessShut\n"
                                          "PROPERTIES S_NoDepartureAfterShutdown S_ReturnsOnceClientActs\n", False),
                                ("D22_departure_skipped", "INVARIANTS S_ReturnedMeansDisconnected\n", True),
                                ("D23_waits_for_a_silent_client", "PROPERTIES S_ShutdownReturns\n", True)):
        r = work.tlc("connshutdown", "ConnShutdown", base + body, workers=2, timeout=300, dump=False)
        log = open(r["log"]).read()
        bad = ("violated" in r) or ("is violated" in log) or ("was violated" in log) or ("were violated" in log)
        out["tlc"].append(dict(config=name, distinct=r.get("distinct", 0), expected_refuted=refuted, refuted=bad,
                               as_expected=(bad == refuted) and not r.get("timeout") and "error" not in r))
    pre = [{"op": "dial", "c": 1}, {"op": "req", "c": 1, "req": {"k": "Join", "rid": 1, "sid": 0, "ts": 1}}, {"op": "barrier", "c": 1},
           {"op": "dial", "c": 2}, {"op": "req", "c": 2, "req": {"k": "Join", "rid": 2, "sid": 1, "ts": 2}}, {"op": "barrier", "c": 2},
           {"op": "shutdown"}, {"op": "waitreturn", "c": 1, "ms": 600}]
    scs = [dict(sid="shutdown_silent_then_close", config={"mods": []}, ops=pre + [{"op": "close", "c": 1}, {"op": "waitreturn", "c": 1, "ms": 5000}]),
           dict(sid="shutdown_then_a_frame", config={"mods": []},
                ops=pre + [{"op": "req", "c": 1, "req": {"k": "Custom", "len": 5, "dig": 1, "to": [], "ts": 5}}, {"op": "waitreturn", "c": 1, "ms": 5000}])]
    pin, pout = work.path("l2", "shutdown_in.ndjson"), work.path("l2", "shutdown_out.ndjson")
    write_ndjson(pin, scs)
    work.run_harness(["l2", "-in", pin, "-out", pout], timeout=300)
    for sc, r in zip(scs, read_ndjson(pout)):
        waits = [x.get("ok") for x in r["results"] if x.get("op") == "waitreturn"]
        ev1 = [e["ev"] for e in r["events"] if e["conn"] == 1]
        obs = dict(returned_while_client_silent=waits[0] if waits else None, returned_after_client_acted=waits[1] if len(waits) > 1 else None,
                   departure_ran="disc" in ev1)
        pred = dict(returned_while_client_silent=False, returned_after_client_acted=True, departure_ran=False)
        out["replays"].append(dict(scenario=sc["sid"], predicted=pred, observed=obs, agrees=(obs == pred)))
    out["agrees"] = all(t["as_expected"] for t in out["tlc"]) and all(x["agrees"] for x in out["replays"])
    return out


def run(work, tier, replay=None):
    global TS
    TS = time_scale()
    rnd = random.Random(work.seed)
    work.build_harness()
    mc_runs = []
    if not replay:
        grid = [(1, 1), (2, 2), (3, 2)] if tier == "quick" else [(1, 1), (1, 2), (2, 1), (2, 2), (3, 2), (3, 3), (8, 2)]
        frames = 5 if tier == "quick" else 7
        for (k, q) in grid:
            cfg = ("SPECIFICATION CSpecIdle\nCONSTANTS\n  K = %d\n  Q = %d\n  MaxFrames = %d\n  Blocking = FALSE\n  Drain = TRUE\n"
                   "INVARIANTS DisconnectAtMostOnce ReturnedMeansDisconnected NeverStuck\nPROPERTY HandleReturns\n" % (k, q, frames))
            r = work.tlc("connlife-%d-%d" % (k, q), "ConnLife", cfg, workers=4, timeout=1800, dump=False)
            if "error" in r or r.get("timeout"):
                raise Inconclusive("ConnLife model check failed: %s" % r.get("error", "timeout"))
            mc_runs.append(dict(K=k, Q=q, distinct=r.get("distinct", 0), generated=r.get("generated", 0), violated=r.get("violated")))
        # binding of the model to the two repairs: the unrepaired designs must be refuted
        leads = []
        for name, b, d in (("blocking_disconnect(D6)", "TRUE", "TRUE"), ("no_drain(D14)", "FALSE", "FALSE")):
            cfg = ("SPECIFICATION CSpecIdle\nCONSTANTS\n  K = 2\n  Q = 2\n  MaxFrames = 5\n  Blocking = %s\n  Drain = %s\n"
                   "INVARIANTS DisconnectAtMostOnce ReturnedMeansDisconnected NeverStuck\nPROPERTY HandleReturns\n" % (b, d))
            r = work.tlc("connlife-lead", "ConnLife", cfg, workers=2, timeout=600, dump=False)
            leads.append(dict(design=name, refuted=("violated" in r) or ("Deadlock" in open(r["log"]).read())))
        # the send path (ConnSend.tla): a member that stopped reading, a peer that keeps relaying, a reset - or none.
        # The repaired sender (keeps emptying the queue until the handler is done; every write has a deadline) never
        # leaves anyone stuck, whether the stalled client's connection is reset in the end or not; the earlier designs
        # are refuted (their counterexamples are what scenarios/l2_D19_* and l2_D20_* replay on the real server)
        designs = [("until", True, True, True, "code"), ("until", True, False, True, "code, the stall never ends"),
                   ("until", False, True, True, "no write deadline, the stall ends"),
                   ("once", True, True, False, "send_path_drain_once(D19)"), ("cancel", True, True, False, "send_path_drain_cancel(D19)"),
                   ("until", False, False, False, "no_write_deadline(D20)")]
        for (cs, cn) in ([(3, 8)] if tier == "quick" else [(2, 6), (3, 8), (4, 12), (6, 16)]):
            for (drain, dl, rs, good, name) in designs:
                cfg = ('SPECIFICATION Spec\nCONSTANTS\n  S = %d\n  N = %d\n  Drain = "%s"\n  Deadline = %s\n  Resets = %s\nINVARIANT TypeOK\n'
                       'PROPERTIES HandlerReturns PeerGetsOn RemovedOnce\n' % (cs, cn, drain, str(dl).upper(), str(rs).upper()))
                r = work.tlc("connsend", "ConnSend", cfg, workers=2, timeout=600, dump=False)
                if r.get("timeout"):
                    raise Inconclusive("ConnSend model check timed out")
                dead = ("Deadlock" in open(r["log"]).read()) or ("violated" in r)
                if good:
                    if dead or "error" in r:
                        raise Inconclusive("TLC refutes the send path (%s) on ConnSend (S=%d, N=%d): %s" % (name, cs, cn, r.get("violated", r.get("error", "deadlock"))))
                    mc_runs.append(dict(K="ConnSend S=%d %s" % (cs, name), Q=cn, distinct=r.get("distinct", 0), generated=r.get("generated", 0), violated=None))
                else:
                    leads.append(dict(design="%s S=%d N=%d" % (name, cs, cn), refuted=dead))
        # the frame path (FrameFlow.tla): parked updates are flushed through the member's bounded queue under the frame lock.
        # The repaired code (the queue is consumed while HandleDisconnect runs) has no deadlock for connections that end; the
        # code before the repair is refuted (D11, replayed by scenarios/l2_D11_*); a design that hands parked updates over
        # directly has none at all.  With session switches the model still deadlocks (the handler leaves the old session inside
        # handleMessage, where the queue cannot be discarded): the open finding D21, replayed by scenarios/l2_D21_*.
        for (fq, fn) in ([(2, 6)] if tier == "quick" else [(2, 6), (3, 8), (4, 9)]):
            for flush, drain, sw, kind, name in (("queue", True, False, "good", "code, connections that end"), ("direct", False, True, "good", "direct hand-over"),
                                                 ("async", False, True, "good", "per-connection flusher (a repair direction for D21)"),
                                                 ("queue", False, False, "refuted", "no_drain_while_leaving(D11)"),
                                                 ("queue", True, True, "refuted", "switch_of_session_with_a_full_queue(D21, open)")):
                cfg = ('SPECIFICATION Spec\nCONSTANTS\n  Q = %d\n  N = %d\n  Flush = "%s"\n  DiscDrain = %s\n  Switches = %s\n'
                       'INVARIANTS TypeOK NoCallAfterCancel NoPushAfterReturn\nPROPERTIES HandlerReturns\n' % (fq, fn, flush, str(drain).upper(), str(sw).upper()))
                r = work.tlc("frameflow", "FrameFlow", cfg, workers=4, timeout=900, dump=False)
                if r.get("timeout"):
                    raise Inconclusive("FrameFlow model check timed out")
                dead = ("Deadlock" in open(r["log"]).read()) or ("violated" in r)
                if kind == "good":
                    if dead or "error" in r:
                        raise Inconclusive("TLC refutes the frame path (%s) on FrameFlow (Q=%d, N=%d)" % (name, fq, fn))
                    mc_runs.append(dict(K="FrameFlow Q=%d %s" % (fq, name), Q=fn, distinct=r.get("distinct", 0), generated=r.get("generated", 0), violated=None))
                else:
                    leads.append(dict(design="%s Q=%d N=%d" % (name, fq, fn), refuted=dead))
        if not all(l["refuted"] for l in leads):
            raise Inconclusive("a design known to be wrong is not refuted by the specification: %s" % [l["design"] for l in leads if not l["refuted"]])
        work.log("ConnLife: %s; unrepaired designs refuted: %s" % (
            [(m["K"], m["Q"], m["distinct"]) for m in mc_runs], [(l["design"], l["refuted"]) for l in leads]))
    if replay:
        scs = [s for s in read_ndjson(replay) if "ops" in s]
        for s in scs:
            if "fatal" not in s:       # a scenario in the format of scenarios/l2_*.ndjson
                s.setdefault("cls", "regression"); s.setdefault("life", "custom"); s["regression"] = True
    else:
        reps = 1 if tier == "quick" else 6
        scs = [scenario(c, l, rnd.randint(0, 10 ** 6)) for c in CLASSES for l in LIFE for _ in range(reps * (4 if c == "slow_handler_idle" else 1))]
        import glob
        for f in sorted(glob.glob(os.path.join(VERIF, "scenarios", "l2_*.ndjson"))):
            for s in read_ndjson(f):
                s.setdefault("cls", "regression"); s.setdefault("life", "custom"); s["regression"] = True
                scs.append(s)
    # run the scenarios: a few harness processes in parallel (each scenario has its own server)
    # the scenarios that move tens of megabytes (stalled members) run after the timing-sensitive ones (idle timeouts of
    # 250 ms), not beside them
    nproc = 4
    is_heavy = lambda s: str(s.get("cls", "")).startswith("stalled_member") or s.get("heavy")
    rounds = [[s for s in scs if not is_heavy(s)], [s for s in scs if is_heavy(s)]]
    results = {}

    crashed = []

    def run_some(scl, tag):
        tag = "%s_%d" % (tag, len(os.listdir(os.path.dirname(work.path("l2", "x")))))
        pin, pout = work.path("l2", "in%s.ndjson" % tag), work.path("l2", "out%s.ndjson" % tag)
        write_ndjson(pin, scl)
        work.run_harness(["l2", "-in", pin, "-out", pout], timeout=1500)
        return read_ndjson(pout)

    def runpart(i):
        if not parts[i]:
            return []
        try:
            return run_some(parts[i], str(i))
        except Inconclusive as e:
            if "panic:" not in str(e) and "fatal error:" not in str(e):
                raise
        # the process that hosts the server died: find the scenario(s) that kill it, one process each
        out = []
        for j, sc in enumerate(parts[i]):
            try:
                out += run_some([sc], "%d_%d" % (i, j))
            except Inconclusive as e:
                if "panic:" in str(e) or "fatal error:" in str(e):
                    crashed.append((sc, str(e)[:1500]))
                else:
                    raise
        return out

    for rno, rs in enumerate(rounds):
        parts = [rs[i::nproc] for i in range(nproc)]
        with ThreadPoolExecutor(max_workers=nproc) as ex:
            for out in ex.map(runpart, range(nproc)):
                for r in out:
                    results[r["sid"]] = r
    scs = [s for s in scs if s["sid"] not in {c[0]["sid"] for c in crashed}]
    if len(results) != len(scs):
        raise Inconclusive("the wire-level harness returned %d of %d scenarios" % (len(results), len(scs)))
    problems = []
    for sc in scs:
        r = results[sc["sid"]]
        if sc.get("regression"):
            bad = []
            if not r["all_returned"]:
                bad.append("handlers that never returned: %s" % r["not_returned"])
            if r["clients_gauge_delta"] or r["goroutines_delta"] > 0:
                bad.append("gauge %+d, goroutines %+d" % (r["clients_gauge_delta"], r["goroutines_delta"]))
            elif r.get("clients_gauge_imbalance") and r["all_returned"]:
                bad.append("ws_connected_clients: per-app series off by %d in sum" % r["clients_gauge_imbalance"])
            if sc.get("expect_ok"):
                for x in r["results"]:
                    if x.get("ok") is False:
                        bad.append("%s of connection %s did not complete" % (x["op"], sc["ops"][x["i"]].get("c")))
                if r["sessions_left"]:
                    bad.append("sessions left behind: %d" % r["sessions_left"])
            # symptom of D11 (FrameFlow.tla, Flush="queue"): the session's frame worker is blocked pushing a parked update
            # into a member's full scheduler queue while that member waits for the frame lock the worker holds
            stacks = r.get("goroutine_stacks") or []
            if bad and any("[chan send]" in g and "@scheduler.HandleFrame" in g for g in stacks) and any("Mutex.Lock]" in g for g in stacks):
                bad.insert(0, "frame worker blocked on a member's full scheduler queue: " + bad[0])
        else:
            bad = judge(sc, r)
        if bad:
            problems.append((sc, bad))
    # the real-time scenarios (idle timeout) are judged again on their own, one at a time, before they count: a harness
    # that was descheduled for longer than the idle timeout makes a witness idle out, which is the server being right
    timing = ("a witness connection stopped making progress", "a benign input ended or wedged the connection")
    again = [(sc, bad) for sc, bad in problems if sc.get("cls") in ("idle", "chatty", "slow_handler_idle") and not sc.get("regression")
             and any(b.startswith(timing[0]) or b.startswith(timing[1]) for b in bad)
             and not any(b.startswith("the offending connection's handler did not return") or b.startswith("panic") or b.startswith("goroutines leaked")
                         or b.startswith("handlers that never returned") for b in bad)]
    for sc, bad in again:
        for attempt in range(2):
            r2 = run_some([sc], "retry")[0]
            if not judge(sc, r2):
                results[sc["sid"]] = r2
                problems = [(s2, b2) for s2, b2 in problems if s2["sid"] != sc["sid"]]
                work.log("scenario %s: %s - not confirmed when run on its own (machine load)" % (sc["sid"], bad[0]))
                break
    heavy = {s["sid"] for s in scs if s.get("regression") and tier == "quick"}
    rejected = validate_events(work, [r for r in results.values() if r["sid"] not in heavy and len(r["events"]) < 4000])
    work.log("%d scenarios, %d with problems, %d handler event streams rejected by ConnTrace" % (len(scs), len(problems), len(rejected)))

    violations, known, seen = [], [], set()
    for sc, bad in problems:
        sig = dict(cls=sc.get("cls"), life=sc.get("life"), what=bad[0].split(":")[0][:60])
        key = json.dumps(sig, sort_keys=True)
        kf = known_match("C08", sig)
        if kf:
            if kf["id"] not in [k["id"] for k in known]:
                known.append(kf)
            continue
        if key in seen:
            continue
        seen.add(key)
        violations.append((sc["sid"], bad, save_replay("C08", sc["sid"], [sc])))
    for sc, msg in crashed:
        sig = dict(cls=sc.get("cls"), life=sc.get("life"), what="server process crashed")
        key = json.dumps(sig, sort_keys=True)
        if known_match("C08", sig) or key in seen:
            continue
        seen.add(key)
        violations.append((sc["sid"], ["the server process crashed: " + msg.split("\n")[0][-200:]], save_replay("C08", sc["sid"] + "-crash", [sc])))
    for rj in rejected:
        sc = next(s for s in scs if s["sid"] == rj["sid"])
        sig = dict(cls=sc.get("cls"), life=sc.get("life"), what="conntrace")
        key = json.dumps(sig, sort_keys=True)
        if known_match("C08", sig) or key in seen:
            continue
        seen.add(key)
        violations.append((sc["sid"], ["the event stream of connection %d is not a behaviour of ConnLife (%s)" % (rj["conn"], rj["inv"])],
                           save_replay("C08", sc["sid"] + "-trace", [sc, dict(rejected=rj)])))
    nev = sum(len(r["events"]) for r in results.values())
    nh = sum(len({e["conn"] for e in r["events"]}) for r in results.values())
    coverage = dict(states=sum(m["distinct"] for m in mc_runs) or 1, transitions=sum(m["generated"] for m in mc_runs) or 1,
                    traces_validated_against_impl=nh, events=nev, scenarios=len(scs), classes=len(CLASSES), life_points=LIFE,
                    connlife_runs=mc_runs, unrepaired_designs_refuted=(leads if not replay else []),
                    samples=[dict(scenario=scs[0]["sid"], ops=scs[0]["ops"][-6:], events=results[scs[0]["sid"]]["events"][-8:])],
                    problems=[dict(sid=s["sid"], what=b) for s, b in problems][:20])
    if not replay:
        # beyond the listed properties: server shutdown (never part of the verdict)
        try:
            coverage["beyond_properties_server_shutdown"] = shutdown_stage(work)
            work.log("ConnShutdown (beyond the listed properties): specification and server agree: %s" % coverage["beyond_properties_server_shutdown"]["agrees"])
        except Exception as e:      # noqa: a failure of this stage is recorded, nothing more
            coverage["beyond_properties_server_shutdown"] = dict(error=str(e)[:300])
    write_evidence(work, "model_checking", coverage,
                   ["'all byte sequences' is an input space: the specification contributes the frame classes (decodable with/without core handler, junk) and the oracle; bytes inside a class are seeded samples",
                    "real time: idle timeout 250 ms, frames 2 ms; a wedge is reported only when a handler has not returned 3 s after every client is gone and the goroutine profile still shows it",
                    "send path and frame path: ConnSend.tla / FrameFlow.tla are checked exhaustively for small queue capacities (3-6 instead of 512, 2-4 instead of 256); their binding to the code is the replay of their counterexamples as wire-level scenarios (stalled member reset / stalled for good / full scheduler queue), with the victim's main loop held for 0-400 ms at the entry of HandleDisconnect to place the schedule; the repaired designs are accepted, the earlier designs (D19, D20, D11) must stay refuted; the deadlock FrameFlow still has on the session-switch path is the open finding D21 (replayed with the victim's main loop held inside one handler call: hold_ms)",
                    "the server runs in the harness process; inputs known to exhaust memory (finite but huge ground-plane coordinates) are excluded and listed as a finding"],
                   violations=len(violations))
    for kf in known:
        print("KNOWN-FINDING: property=C08 %s" % kf.get("what", kf["id"]))
    if any(m["violated"] for m in mc_runs) and not violations:
        raise Inconclusive("TLC refutes %s on ConnLife" % [m["violated"] for m in mc_runs if m["violated"]][0])
    if violations:
        for sid, bad, path in violations:
            print("VIOLATION property=C08 replay=%s" % path)
            print("  scenario %s: %s" % (sid, "; ".join(bad)[:400]))
        return 1
    print("OK property=C08 tier=%s: %d ConnLife states; %d wire-level scenarios, %d handler event streams (%d events) accepted" % (
        tier, coverage["states"], len(scs), nh, nev))
    return 0
