#!/bin/sh
# dev helper: build harness, run histories, validate trace with a cfg.  usage: tv.sh hist.ndjson cfgname
set -e
export GOFLAGS=-mod=mod GOPROXY=off GOSUMDB=off GOTOOLCHAIN=local
W=${W:-/tmp/tv}; mkdir -p $W
rm -rf $W/ov && python3 /verif/tools/mkoverlay.py /repo $W/ov >/dev/null
(cd /verif/harness && cp /repo/go.sum . && go build -tags verif -overlay $W/ov/overlay.json -o $W/h .)
$W/h l1 -in $1 -out $W/t.ndjson
rm -rf $W/spec && mkdir -p $W/spec && cp /verif/spec/*.tla /verif/spec/cfg/*.cfg $W/spec/
cd $W/spec && VERIF_TRACE=$W/t.ndjson timeout 600 tlc -workers 1 -metadir $W/m -dumpTrace json $W/ce.json -config $2.cfg RelayTrace.tla > $W/tlc.log 2>&1 || true
grep -E "Error|states generated|violated|Finished in" $W/tlc.log | head
if grep -q "is violated" $W/tlc.log; then python3 /verif/tools/tracediff.py $W/ce.json; fi
