"""Checks of the request-grain family (C01-C07, C10-C14, C16 and the retention
clause of C20): exhaustive TLC on RelayMC, TLC-generated + seeded histories
replayed on the real code (L1 harness), traces validated by TLC (RelayTrace)."""
import json, os, random, re, subprocess, sys, time, glob
from concurrent.futures import ThreadPoolExecutor

import relay_cfg
from vlib import (VERIF, NCPU, Inconclusive, read_ndjson, write_ndjson, write_evidence, known_match, save_replay)

ALLMODS = ["vikja", "odal", "dagaz"]

# property -> invariants of RelayTrace, exhaustive families (+ action properties), vacuity requirements
RELAY = {
    "C01": dict(focus=['comps', 'mods', 'core'], invs=["Ok_C01"], mc=[("core", ["P_C01"]), ("comps", ["P_C01"]), ("mods", ["P_C01"])],
                need=dict(joins_existing=20, relays=200, comp_changes=20, action_ok=5, asset_ok=5, departures=20)),
    "C02": dict(focus=['core', 'pose'], invs=["Ok_C02"], mc=[("core", ["P_C02"]), ("mods", ["P_C02"]), ("pose", ["P_C02"])],
                need=dict(relays=200, refused=50, departures=20, pose_ok=10)),
    "C03": dict(invs=["Ok_C03"], mc=[("core", ["P_C03"]), ("ids", ["P_C03"])],
                need=dict(multi_session_steps=100)),
    "C04": dict(wire=True, focus=['comps', 'mods', 'custom'], invs=["Ok_C04"], mc=[("core", ["P_C04"]), ("comps", ["P_C04"]), ("mods", ["P_C04"]), ("custom", ["P_C04"])],
                need=dict(refused=100, not_joined=30, kinds=18)),
    "C05": dict(focus=['core', 'mods'], invs=["Ok_C05"], mc=[("core", ["P_C05"]), ("mods", ["P_C05"]), ("pose", ["P_C05"])],
                need=dict(foreign_attempts=10, departures=20)),
    "C06": dict(wire=True, focus=['core', 'comps', 'mods'], invs=["Ok_C06", "Ok_C06b"], mc=[("core", ["P_C06"]), ("comps", ["P_C06"]), ("mods", ["P_C06"])],
                need=dict(departures=30, departures_with_entities=10, switches=3)),
    "C07": dict(invs=["Ok_C07"], mc=[("ids", ["P_C07"]), ("core", ["P_C07"])],
                need=dict(sessions_created=30, sessions_ended=10)),
    "C10": dict(invs=["Ok_C10"], mc=[("ids", ["P_C10"]), ("comps", ["P_C10"]), ("mods", ["P_C10"])],
                need=dict(sessions_created=30, sessions_ended=10, entity_adds=50)),
    "C11": dict(focus=['pose'], invs=["Ok_C11"], mc=[("pose", ["P_C11"])], need=dict(pose_ok=20, ticks=50, pose_dropped=10)),
    "C12": dict(focus=['comps'], invs=["Ok_C12"], mc=[("comps", ["P_C12"])], need=dict(comp_changes=30, comp_refused=20)),
    "C13": dict(focus=['comps'], invs=["Ok_C13"], mc=[("comps", ["P_C13"])], need=dict(comp_relays=20, subs=20)),
    "C14": dict(wire=True, focus=['custom'], invs=["Ok_C14", "Ok_C14b"], mc=[("custom", ["P_C14"])], need=dict(custom=40, custom_too_large=5, custom_targeted=10)),
    "C16": dict(focus=['mods'], invs=["Ok_C16"], mc=[("mods", ["P_C16"])], need=dict(action_ok=10, action_refused=10, action_equal_ts_replace=3, asset_ok=10)),
}


# ---------------------------------------------------------------------------
def run_mc(work, prop, tier):
    """exhaustive TLC over the property's families; returns (states, transitions, runs) or raises"""
    runs = []
    for fam, props in RELAY[prop]["mc"]:
        variants = [None] + (list(range(len(relay_cfg.thorough_variants(fam)))) if tier == "thorough" else [])
        for v in variants:
            name = fam if v is None else "%s+%d" % (fam, v)
            cfg = relay_cfg.mc_cfg(fam, tier, props, variant=v)
            tmo = 900 if tier == "quick" else 2400
            r = work.tlc("mc-" + name.replace("+", "-"), "RelayMC", cfg, workers=NCPU, timeout=tmo, deque=True, dump=False)
            work.log("MC %s: %s distinct / %s generated in %.0fs%s" % (name, r.get("distinct"), r.get("generated"), r["wall"],
                                                                       " VIOLATED " + r["violated"] if "violated" in r else ""))
            if r.get("timeout"):
                raise Inconclusive("exhaustive model check of family %s timed out" % name)
            if "error" in r:
                raise Inconclusive("TLC error in family %s: %s" % (name, r["error"]))
            runs.append(dict(family=name, props=props, distinct=r.get("distinct", 0), generated=r.get("generated", 0),
                             wall_s=round(r["wall"], 1), violated=r.get("violated"), log=r["log"],
                             constants=relay_cfg.consts(fam, tier, v)))
    return runs


def gen_tlc_histories(work, n, depth, seed, mods, tag, **over):
    """spec -> code: behaviours of the generator instance of RelayMC"""
    d = work.path("gen-" + tag, "x")[:-2]
    cfg = relay_cfg.gen_cfg(depth, Mods=mods, **over)
    r = work.tlc("gen-" + tag, "RelayMC", cfg, workers=1, timeout=600, env=dict(VERIF_GEN=d), dump=False,
                 extra=["-simulate", "num=%d" % n, "-depth", str(depth + 1), "-seed", str(seed)])
    if "error" in r or "violated" in r:
        raise Inconclusive("behaviour generator failed: %s" % (r.get("error") or r.get("violated")))
    hs = []
    for i, f in enumerate(sorted(glob.glob(os.path.join(d, "b*.ndjson")))):
        steps = read_ndjson(f)[0]["steps"]
        hs.append(dict(hid="g%s-%d-%d" % (tag, seed, i), config=dict(mods=mods, flags=[]), steps=steps + drain_steps()))
    if len(hs) < n * 0.9:
        raise Inconclusive("behaviour generator produced %d of %d behaviours" % (len(hs), n))
    return hs


def drain_steps(conns=4, sids=(1, 2, 3)):
    st = []
    for _ in range(2):
        for s in sids:
            st.append(dict(step="Tick", sid=s))
        for c in range(1, conns + 1):
            for _ in range(3):
                st.append(dict(step="Proc", conn=c))
    return st


def gen_random_histories(work, n, depth, seed, mods, tag, conns=4, kinds=None, dense=False):
    out = work.path("rand-" + tag + ("d" if dense else "") + ".ndjson")
    cmd = [sys.executable, os.path.join(VERIF, "tools", "genhist.py"), "--seed", str(seed), "--n", str(n),
           "--depth", str(depth), "--conns", str(conns), "--mods", ",".join(mods), "--out", out]
    if dense:
        cmd += ["--dense"]
    if kinds:
        cmd += ["--kinds", ",".join(kinds)]
    subprocess.run(cmd, check=True)
    return read_ndjson(out)


def scenario_histories(mods):
    hs = []
    # (lat_* and l2_* are scenarios of the latency and the wire-level checks: their requests are outside what the
    #  relay family's generators and the request-grain specification cover)
    for f in sorted(glob.glob(os.path.join(VERIF, "scenarios", "D*.ndjson"))):
        for h in read_ndjson(f):
            if "steps" in h and sorted(h.get("config", {}).get("mods", [])) == sorted(mods) and not h["config"].get("flags"):
                hs.append(h)
    return hs


def run_l1(work, hists, tag):
    hin = work.path("hist-" + tag + ".ndjson")
    tout = work.path("trace-" + tag + ".ndjson")
    write_ndjson(hin, hists)
    work.run_harness(["l1", "-in", hin, "-out", tout])
    return tout


def split_trace(path, k):
    """split a trace file at reset records into <= k chunks of similar size"""
    groups, cur = [], []
    with open(path) as f:
        for line in f:
            if line.startswith('{"flags"') or '"k":"reset"' in line[:200]:
                if cur:
                    groups.append(cur)
                cur = []
            cur.append(line)
    if cur:
        groups.append(cur)
    k = max(1, min(k, len(groups)))
    chunks = [[] for _ in range(k)]
    sizes = [0] * k
    for g in sorted(groups, key=len, reverse=True):
        i = sizes.index(min(sizes))
        chunks[i].append(g)
        sizes[i] += len(g)
    files = []
    for i, ch in enumerate(chunks):
        p = "%s.chunk%d" % (path, i)
        with open(p, "w") as f:
            for g in ch:
                f.writelines(g)
        files.append(p)
    return files, len(groups)


def failing_record(res, chunk_lines):
    """from a TLC counterexample of the trace spec: index of the failing record, its history id, signature"""
    try:
        ce = json.load(open(res["ce"]))
        l = ce["counterexample"]["state"][-1][1]["l"]
    except Exception:
        # (the JSON dump of a very long error trace can fail: the position is also in TLC's printed trace)
        ls = re.findall(r"^/\\ l = (\d+)", open(res["log"], errors="replace").read(), re.M)
        if not ls:
            raise Inconclusive("trace validation reported %s but the position of the failing record could not be read" % res.get("violated"))
        l = int(ls[-1])
    idx = l - 2          # 0-based index of the record consumed last
    rec = json.loads(chunk_lines[idx])
    j = idx
    while j >= 0 and json.loads(chunk_lines[j]).get("k") != "reset":
        j -= 1
    hid = json.loads(chunk_lines[j]).get("hid") if j >= 0 else "?"
    k = idx + 1
    while k < len(chunk_lines) and json.loads(chunk_lines[k]).get("k") != "reset":
        k += 1
    req = rec.get("popped") or rec.get("req") or {}
    sig = dict(inv=res.get("violated"), step=rec.get("step"), kind=req.get("k", "none"), ret=rec.get("ret"))
    return dict(idx=idx, hid=hid, start=j, end=k, rec=rec, sig=sig)


def validate_chunk(work, chunk, invs, mods, flags, name, module="RelayTrace", cfg_text=None):
    """validate one chunk; returns list of failures (each with hid, sig), scanning past each failing history"""
    lines = open(chunk).readlines()
    fails = []
    offset = 0
    rounds = 0
    while offset < len(lines) and rounds < 25:
        rounds += 1
        part = chunk + ".part"
        with open(part, "w") as f:
            f.writelines(lines[offset:])
        r = work.tlc(name, module, cfg_text or relay_cfg.trace_cfg(invs, mods, flags), workers=1, timeout=1800,
                     env=dict(VERIF_TRACE=part))
        if r.get("timeout"):
            raise Inconclusive("trace validation timed out")
        if "error" in r:
            raise Inconclusive("TLC error during trace validation: %s" % r["error"])
        if "violated" not in r:
            break
        fr = failing_record(r, lines[offset:])
        fr["chunk"] = chunk
        fr["start"] += offset      # absolute positions in the chunk file
        nxt = offset + fr["end"]
        fr["end"] = nxt
        fails.append(fr)
        offset = nxt
    return fails


def l2_backpressure(work, tier):
    n = 3000 if tier == "quick" else 9000
    J = lambda c, sid, rid: dict(op="req", c=c, req=dict(k="Join", rid=rid, sid=sid, ts=rid))
    ops = [dict(op="dial", c=1), dict(op="dial", c=2), dict(op="dial", c=3), J(1, 0, 1), dict(op="barrier", c=1), J(2, 1, 2), dict(op="barrier", c=2),
           J(3, 1, 3), dict(op="barrier", c=3), dict(op="stall", c=2),
           dict(op="aburst", c=1, n=n, req=dict(k="Custom", len=10000, dig=0, to=[], ts=9)),
           dict(op="sleep", ms=1200), dict(op="unstall", c=2), dict(op="waitburst", c=1, ms=30000), dict(op="barrier", c=1, ms=20000), dict(op="barrier", c=2, ms=20000),
           dict(op="barrier", c=3, ms=20000)]
    sc = dict(sid="relay_backpressure", config=dict(mods=[], idle_ms=60000), ops=ops)
    pin, pout = work.path("l2bp", "in.ndjson"), work.path("l2bp", "out.ndjson")
    write_ndjson(pin, [sc])
    work.run_harness(["l2", "-in", pin, "-out", pout], timeout=300)
    r = read_ndjson(pout)[0]
    # the verdict needs a completed scenario: the sender's burst has gone out and every client has been answered a
    # ping sent after it (the relays queued before that answer have then been handed to the client); under extreme
    # machine load these waits can run out, which says nothing about the relays
    late = [x for x in r.get("results", []) if x.get("op") in ("waitburst", "barrier") and x.get("ok") is False]
    if late:
        raise Inconclusive("wire-level back-pressure scenario did not complete in time (%d waits ran out; machine load?)" % len(late))
    fails = []
    for c in ("2", "3"):
        digs = [m["dig"] for m in r["clients"].get(c, []) if m["t"] == "CUSTOM_BROADCAST"]
        # bodies are numbered by the sender; the harness maps a received body back to its number through the SHA-256 table
        if digs != list(range(n)):
            miss = sorted(set(range(n)) - set(digs))
            fails.append(dict(hid="l2-relay_backpressure", sig=dict(inv="relay_exactly_once_wire", step="L2", kind="Custom", ret="-"),
                              rec=dict(i=-1, recipient=int(c), received=len(digs), expected=n, first_missing=miss[:5],
                                       duplicates=len(digs) - len(set(digs)), in_order=digs == sorted(digs)), scenario=sc))
            break
    work.log("wire level back-pressure: %d relays to a stalled recipient, %s" % (n, "all delivered once, in order" if not fails else "NOT all delivered"))
    return fails


def frame_workers(work, tier):
    """C07: the frame worker of an ended session stops, whatever the scheduling (harness `workers`)"""
    rounds = 60 if tier == "quick" else 400
    txt = work.run_harness(["workers", "-rounds", str(rounds)], timeout=600)
    rows = [json.loads(l) for l in txt.splitlines() if l.startswith("{")]
    fails = []
    for r in rows:
        if r.get("note"):
            raise Inconclusive("frame worker stage: " + r["note"])
        if r["workers_left"] > 0:
            fails.append(dict(hid="workers-" + r["pattern"], sig=dict(inv="frame_worker_stops", step="workers", kind=r["pattern"], ret="-"),
                              rec=dict(i=-1, **r), scenario=dict(hid="workers-" + r["pattern"], stage="workers", rounds=rounds, result=r)))
    work.log("frame workers: %s" % ", ".join("%s %d sessions, %d left" % (r["pattern"], r["sessions"], r["workers_left"]) for r in rows))
    return fails, rows


def trace_stats(trace_files):
    """counts used for the vacuity gates and the evidence"""
    st = dict(histories=0, steps=0, kinds={}, refused=0, not_joined=0, relays=0, departures=0, departures_with_entities=0,
              switches=0, joins_existing=0, sessions_created=0, sessions_ended=0, entity_adds=0, pose_ok=0, pose_dropped=0,
              ticks=0, comp_changes=0, comp_refused=0, comp_relays=0, subs=0, custom=0, custom_too_large=0, custom_targeted=0,
              action_ok=0, action_refused=0, action_equal_ts_replace=0, asset_ok=0, foreign_attempts=0, multi_session_steps=0, panics=0)
    for tf in trace_files:
        prev = None
        for line in open(tf):
            r = json.loads(line)
            if r.get("k") == "reset":
                st["histories"] += 1
                prev = None
                continue
            st["steps"] += 1
            post = r["post"]
            req = r.get("popped")
            out = {c: ms for c, ms in r["out"]}
            allmsgs = [m for ms in out.values() for m in ms]
            if r["ret"] == "panic":
                st["panics"] += 1
            if r["step"] == "Tick" and r["ret"] == "ok":
                st["ticks"] += 1
            if len(post["sess"]) >= 2:
                st["multi_session_steps"] += 1
            st["relays"] += sum(1 for m in allmsgs if m["t"].endswith("_BROADCAST"))
            st["comp_relays"] += sum(1 for m in allmsgs if m["t"].startswith("COMP_") and m["t"].endswith("_BROADCAST"))
            pconn = {c["c"]: c for c in (prev["conns"] if prev else [])}
            cconn = {c["c"]: c for c in post["conns"]}
            a = r.get("conn", 0)
            p0, p1 = pconn.get(a, dict(sid=0, pid=0, own=[])), cconn.get(a, dict(sid=0, pid=0, own=[]))
            if p0["sid"] != 0 and (p0["sid"] != p1["sid"] or p0["pid"] != p1["pid"]):
                st["departures"] += 1
                if p0["own"]:
                    st["departures_with_entities"] += 1
                if p1["sid"] != 0:
                    st["switches"] += 1
            psess = {s["uuid"] for s in (prev["sess"] if prev else [])}
            csess = {s["uuid"] for s in post["sess"]}
            st["sessions_created"] += len(csess - psess)
            st["sessions_ended"] += len(psess - csess)
            if req:
                k = req.get("k", "?")
                st["kinds"][k] = st["kinds"].get(k, 0) + 1
                mine = out.get(a, [])
                err = any(m["t"] == "ERROR" for m in mine)
                if err or r["ret"] != "ok":
                    st["refused"] += 1
                if p0["sid"] == 0 and k != "Join":
                    st["not_joined"] += 1
                if k == "Join" and any(m["t"] == "JOIN_RESPONSE" for m in mine) and psess & csess and len(csess - psess) == 0:
                    st["joins_existing"] += 1
                if k == "EntityAdd" and any(m["t"] == "ENTITY_ADD_RESPONSE" for m in mine):
                    st["entity_adds"] += 1
                if k == "Pose":
                    if any(m["t"] == "POSE_BROADCAST" for m in allmsgs):
                        st["pose_ok"] += 1
                    else:
                        st["pose_dropped"] += 1
                if k in ("CompAdd", "CompDelete", "CompUpdate", "TypeAdd"):
                    if err:
                        st["comp_refused"] += 1
                    elif r["ret"] == "ok" and p0["sid"] != 0:
                        st["comp_changes"] += 1
                if k == "Sub" and any(m["t"] == "SUB_RESPONSE" for m in mine):
                    st["subs"] += 1
                if k == "Custom" and p0["sid"] != 0:
                    st["custom"] += 1
                    if err:
                        st["custom_too_large"] += 1
                    if req.get("to"):
                        st["custom_targeted"] += 1
                if k == "Action" and p0["sid"] != 0:
                    if any(m["t"] == "ACTION_RESPONSE" for m in mine):
                        st["action_ok"] += 1
                        # an accepted action with exactly the stored timestamp and other data: "equal or newer replaces"
                        for s0 in (prev["sess"] if prev else []):
                            if s0["sid"] == p0["sid"]:
                                for e0, n0, t0, d0 in s0.get("acts", []):
                                    if e0 == req.get("eid") and n0 == req.get("name") and t0 == req.get("ats") and d0 != req.get("data"):
                                        st["action_equal_ts_replace"] += 1
                    elif err:
                        st["action_refused"] += 1
                if k == "AssetAdd" and any(m["t"] == "ASSET_ADD_RESPONSE" for m in mine):
                    st["asset_ok"] += 1
                if k in ("EntityDelete", "AssetAdd") and any(m["t"] == "ERROR" and m.get("code") == 401 for m in mine):
                    st["foreign_attempts"] += 1
            prev = post
    st["kinds_n"] = len(st["kinds"])
    return st


def check_vacuity(prop, st):
    missing = []
    for k, v in RELAY[prop]["need"].items():
        have = st["kinds_n"] if k == "kinds" else st.get(k, 0)
        if have < v:
            missing.append("%s=%d<%d" % (k, have, v))
    return missing


# ---------------------------------------------------------------------------
def modsets_for(tier, seed):
    rnd = random.Random(seed)
    subsets = [[], ["vikja"], ["odal"], ["dagaz"], ["vikja", "odal"], ["vikja", "dagaz"], ["odal", "dagaz"]]
    if tier == "thorough":
        return [ALLMODS] + subsets
    return [ALLMODS, rnd.choice(subsets)]


def sizes_for(tier):
    if tier == "thorough":
        return dict(gen_n=1500, gen_depth=50, rand_n=1500, rand_depth=70, sub_gen=150, sub_rand=150)
    return dict(gen_n=200, gen_depth=40, rand_n=150, rand_depth=60, sub_gen=30, sub_rand=30)


def run_relay_check(work, prop, tier, replay=None):
    spec = RELAY[prop]
    invs = spec["invs"]
    seed = work.seed
    work.build_harness()

    # (1) the specification itself, exhaustively
    mc_runs = [] if replay else run_mc(work, prop, tier)
    spec_violation = [r for r in mc_runs if r["violated"]]

    # (2) histories: TLC-generated (spec -> code), seeded random, regression scenarios
    groups = []   # (mods, histories)
    if replay:
        hs = [h for h in read_ndjson(replay) if "steps" in h]
        for h in hs:
            groups.append((h["config"].get("mods", ALLMODS), [h]))
    else:
        sz = sizes_for(tier)
        for i, mods in enumerate(modsets_for(tier, seed)):
            tag = "m%d" % i
            full = (i == 0)
            ng, nr = (sz["gen_n"], sz["rand_n"]) if full else (sz["sub_gen"], sz["sub_rand"])
            hs = gen_tlc_histories(work, ng // 2, sz["gen_depth"], seed * 1000 + i, mods, tag)
            hs += gen_random_histories(work, nr // 2, sz["rand_depth"], seed * 1000 + i, mods, tag)
            for fi, fam in enumerate(spec.get("focus", ["core"])):
                fo = relay_cfg.FOCUS[fam]
                k = len(spec.get("focus", ["core"]))
                hs += gen_tlc_histories(work, max(10, ng // 2 // k), sz["gen_depth"], seed * 1000 + i + 500 + fi, mods, tag + "f" + fam, **fo)
                hs += gen_random_histories(work, max(10, nr // 2 // k), sz["rand_depth"], seed * 1000 + i + 500 + fi, mods, tag + "f" + fam,
                                           kinds=fo["Kinds"])
            # valid-biased histories of one session: dense in accepted component / pose / action changes with their relays
            hs += gen_random_histories(work, 40 if tier == "quick" else 300, 90, seed * 1000 + i + 900, mods, tag, dense=True)
            hs += scenario_histories(mods)
            groups.append((mods, hs))

    # (3) replay on the real code, (4) validate the traces with TLC
    all_traces, fails, nh = [], [], 0
    hist_by_id = {}
    wire = None
    if spec.get("wire") and not replay:
        # the same kind of histories over real sockets against the server mounted like cmd/main.go (step kind "Wire")
        wn = 60 if tier == "quick" else 600
        fo = relay_cfg.FOCUS[spec.get("focus", ["core"])[0]]
        whs = gen_random_histories(work, wn // 2, 60, seed * 1000 + 77, ALLMODS, "wire") + \
            gen_random_histories(work, wn // 2, 60, seed * 1000 + 78, ALLMODS, "wiref", kinds=fo["Kinds"])
        for h in whs:
            h["hid"] = "w" + h["hid"]
            hist_by_id[h["hid"]] = dict(h, level="L2")
        parts = [whs[i::4] for i in range(4)]

        def wpart(i):
            hin, tout = work.path("wire-in%d.ndjson" % i), work.path("wire-trace%d.ndjson" % i)
            write_ndjson(hin, parts[i])
            work.run_harness(["l2hist", "-in", hin, "-out", tout], timeout=1800)
            return tout

        with ThreadPoolExecutor(max_workers=4) as ex:
            wtraces = list(ex.map(wpart, range(4)))
        wall = work.path("wire-all.ndjson")
        with open(wall, "w") as f:
            for t in wtraces:
                f.write(open(t).read())
        chunks, n = split_trace(wall, NCPU)
        with ThreadPoolExecutor(max_workers=NCPU) as ex:
            futs = [ex.submit(validate_chunk, work, ch, invs, ALLMODS, [], "tvw-c%d" % ci) for ci, ch in enumerate(chunks)]
            wf = []
            for f in futs:
                wf += f.result()
        for fr in wf:
            fr["sig"]["step"] = "Wire:" + str(fr["sig"].get("step"))
        fails += wf
        wsteps = sum(1 for _ in open(wall)) - n
        wire = dict(histories=n, steps=wsteps, failing=len(wf))
        nh += n
        work.log("wire level: %d histories / %d steps over real sockets, %d failing" % (n, wsteps, len(wf)))
    for gi, (mods, hs) in enumerate(groups):
        for h in hs:
            hist_by_id[h["hid"]] = h
        tf = run_l1(work, hs, "g%d" % gi)
        all_traces.append(tf)
        chunks, n = split_trace(tf, NCPU)
        nh += n
        work.log("group %d mods=%s: %d histories -> %d chunks" % (gi, ",".join(mods) or "-", n, len(chunks)))
        with ThreadPoolExecutor(max_workers=NCPU) as ex:
            futs = [ex.submit(validate_chunk, work, ch, invs, mods, [], "tv-g%d-c%d" % (gi, ci)) for ci, ch in enumerate(chunks)]
            for f in futs:
                fails += f.result()
    conc = None
    if prop in ("C01", "C02", "C03", "C07", "C10", "C12") and not replay:
        import conc_check
        try:
            conc = conc_check.run_conc(work, prop, tier)
        except Inconclusive as e:
            if not fails:
                raise
            work.log("schedules stage skipped: %s" % e)
            conc = dict(scenarios=0, summaries=[], outcomes=0, fails=[])
        work.log("schedules: %d scenarios, %d schedules on the real handlers, %d distinct outcomes, %d failing" % (
            conc["scenarios"], sum(x["schedules"] for x in conc["summaries"]), conc["outcomes"], len(conc["fails"])))
        for fr in conc["fails"]:
            fails.append(fr)
            if fr.get("scenario"):
                sc2 = dict(fr["scenario"], hid=fr["hid"], failing_record=fr["rec"], block=fr.get("block"))
                if fr.get("block") and fr["block"].get("choices"):
                    sc2["sched"] = [fr["block"]["choices"]]      # replaying runs exactly this schedule
                hist_by_id[fr["hid"]] = sc2
    if prop == "C02" and not replay:
        # wire level: relays to a recipient whose connection is backed up must still arrive exactly once, in order
        try:
            l2f = l2_backpressure(work, tier)
        except Inconclusive as e:
            # a stage that could not be completed must not hide what the completed stages have found
            if not fails:
                raise
            work.log("wire-level stage skipped: %s" % e)
            l2f = []
        for f in l2f:
            fails.append(f)
            hist_by_id[f["hid"]] = f["scenario"]
    if prop == "C04" and not replay:
        # receipt requests are requests too: each is answered exactly once with the answer the protocol defines
        # (Receipt.tla / ReceiptTrace, the same records C19 is judged on)
        import receipt_check
        rfails, rstats = receipt_check.answer_stage(work, tier)
        work.log("receipt requests: %d submissions (%d accepted, %d bad request, %d too busy), %d not answered as specified" % (
            rstats["submits"], rstats.get("accepted", 0), rstats.get("bad_request", 0), rstats.get("too_busy", 0), len(rfails)))
        if not rfails and (rstats["submits"] < 50 or rstats.get("bad_request", 0) < 5):
            raise Inconclusive("receipt stage of C04 exercised too little: %s" % rstats)
        for f in rfails:
            hid = "receipt-%s" % f["rid"]
            fails.append(dict(hid=hid, sig=dict(inv="receipt_answered_once", step="Req", kind="Receipt:" + str(f["rec"].get("cls")), ret=f["rec"].get("ret")),
                              rec=dict(f["rec"], i=-1), scenario=f["scenario"]))
            hist_by_id[hid] = dict(f["scenario"] or {}, level="receipt", note="replay with: bin/check C19 quick --replay <this file>")
    rconc = None
    if prop in ("C01", "C02", "C07", "C10", "C11") and not replay:
        # lock-grain specification (RelayConc.tla): exhaustive TLC, witnesses of the listed findings forced on the real
        # handlers, generated and random schedules validated by RelayConcTrace
        import relayconc_check
        try:
            rconc = relayconc_check.stage(work, tier, work.seed, variants=(False, True, "odal") if prop in ("C01", "C02") else (False,), witnesses=(prop == "C01"))
        except Inconclusive as e:
            if not fails:
                raise
            work.log("lock-grain stage skipped: %s" % e)
            rconc = None
        for f in (rconc["fails"] if rconc else []):
            if prop not in relayconc_check.OWNER.get(f["inv"], []):
                continue
            hid = "relayconc-%s" % f["cid"]
            fails.append(dict(hid=hid, sig=dict(inv=f["inv"], step="RelayConc", kind=str(f["cid"]).split("-")[0], ret=f.get("ret", "-")), rec=dict(i=-1)))
            hist_by_id[hid] = dict(hid=hid, stage="RelayConc (harness l1m)", invariant=f["inv"], scenario=f.get("scenario"), note=f.get("note"))
        if prop == "C01" and rconc:
            for k in rconc["known"]:
                for sym in k["symptoms"]:
                    hid = "relayconc-%s" % k["cid"]
                    fails.append(dict(hid=hid, sig=dict(inv="L_Conv", step="RelayConc", symptom=relayconc_check.SYMPTOM_NAME[sym]), rec=dict(i=-1)))
                    hist_by_id[hid] = dict(hid=hid, stage="RelayConc (harness l1m)", invariant="L_Conv", symptoms=k["symptoms"], scenario=k.get("scenario"))
    iso = None
    if prop == "C03" and not replay:
        # the differential the property names: every two-group history with and without the other group's traffic
        import iso_check
        iso = iso_check.stage(work, tier, seed)
        work.log("differential: %d two-group histories, %d steps compared with the run without the other group, %d differing" % (
            iso["histories"], iso["compared_steps"], len(iso["fails"])))
        for f in iso["fails"]:
            fails.append(dict(hid=f["hid"], sig=f["sig"], rec=f["rec"]))
            hist_by_id[f["hid"]] = dict(f["history"], differential=f["rec"])
    workers_rows = None
    if prop == "C07" and not replay:
        wf, workers_rows = frame_workers(work, tier)
        for f in wf:
            fails.append(f)
            hist_by_id[f["hid"]] = f["scenario"]
    extra = None
    if prop == "C10" and not replay:
        import idgen_check
        extra = idgen_check.run(work, tier)
        work.log("id source: model %s states, %d scripts on the real generator, %d failing, burst %s" % (
            extra["mc"]["distinct"], extra["scripts"], len(extra["fails"]), extra["burst"]))
        for f in extra["fails"]:
            fails.append(dict(hid="idgen-" + f["script"], sig=dict(inv=f["inv"], step="idgen", kind=f["record"].get("op", "burst"), ret="-"),
                              rec=dict(i=-1), idgen=f))
    stats = trace_stats(all_traces)
    work.log("validated %d histories / %d steps; %d failing histories" % (stats["histories"], stats["steps"], len(fails)))

    # (5) verdict
    violations, known = [], []
    seen_sig = set()
    for fr in fails:
        sig = dict(fr["sig"])
        key = json.dumps(sig, sort_keys=True)
        kf = known_match(prop, sig)
        if kf:
            if key not in seen_sig:
                known.append((kf, fr))
            seen_sig.add(key)
            continue
        if key in seen_sig:
            continue
        seen_sig.add(key)
        h = hist_by_id.get(fr["hid"])
        path = save_replay(prop, fr["hid"], [h] if h else [dict(hid=fr["hid"], detail=fr.get("idgen"))])
        violations.append((fr, path))

    missing = [] if replay else check_vacuity(prop, stats)

    samples = []
    for tf in all_traces[:1]:
        for line in open(tf):
            r = json.loads(line)
            if r.get("k") == "step" and r.get("out"):
                samples.append(dict(history_step=r["i"], step=r["step"], conn=r["conn"], req=r.get("popped") or r.get("req"),
                                    ret=r["ret"], out=r["out"]))
            if len(samples) >= 4:
                break
    coverage = dict(
        states=sum(r["distinct"] for r in mc_runs) or 1,
        transitions=sum(r["generated"] for r in mc_runs) or 1,
        traces_validated_against_impl=stats["histories"],
        trace_steps=stats["steps"],
        samples=samples or [dict(note="no step with output")],
        exhaustive_model_runs=[{k: r[k] for k in ("family", "props", "distinct", "generated", "wall_s", "violated")} for r in mc_runs],
        exhaustive=False,
        trace_invariants=invs,
        exercised=stats,
        failing_histories=[dict(hid=fr["hid"], signature=fr["sig"]) for fr in fails][:20],
        known_findings_reproduced=[k["id"] for k, _ in known],
    )
    if wire:
        coverage["wire_level"] = wire
        coverage["traces_validated_against_impl"] += wire["histories"]
    if workers_rows:
        coverage["frame_workers"] = workers_rows
    if iso:
        coverage["noninterference_differential"] = dict(histories=iso["histories"], steps_compared=iso["compared_steps"], differing=len(iso["fails"]))
        coverage["traces_validated_against_impl"] += 3 * iso["histories"]
    if rconc:
        coverage["lock_grain"] = dict(exhaustive=rconc["model"], witnesses_found_by_tlc=rconc["witnesses"], real_runs=rconc["stats"],
                                      runs_the_specification_does_not_explain=rconc["lost"][:20],
                                      listed_divergences_reproduced=sorted({s_ for k in rconc["known"] for s_ in k["symptoms"]}))
        coverage["states"] += sum((m.get("distinct") or 0) for m in rconc["model"])
        coverage["transitions"] += sum((m.get("generated") or 0) for m in rconc["model"])
        coverage["traces_validated_against_impl"] += sum(v.get("runs", 0) for v in rconc["stats"].values())
    if conc:
        coverage["schedules"] = dict(scenarios=conc["scenarios"], schedules_executed_on_real_code=sum(x["schedules"] for x in conc["summaries"]),
                                     distinct_outcomes_validated=conc["outcomes"], deadlocks=sum(x["deadlocks"] for x in conc["summaries"]),
                                     per_scenario=conc["summaries"])
        coverage["traces_validated_against_impl"] += conc["outcomes"]
    if extra:
        coverage["id_source"] = dict(model_states=extra["mc"]["distinct"], model_transitions=extra["mc"]["generated"],
                                     scripts_replayed_on_real_generator=extra["scripts"], burst=extra["burst"])
        coverage["states"] += extra["mc"]["distinct"]
        coverage["transitions"] += extra["mc"]["generated"]
        coverage["traces_validated_against_impl"] += extra["scripts"]
    assumptions = [
        "the L1 harness (handler level, single goroutine) drives the real RealtimeHandler/models/modules through the overlay-exported handler.handleMessage; wire framing and the three connection goroutines are covered by the connection-grain checks (C08)",
        "state is read through overlay accessors added at check time (models/verif_export.go); the projection is trusted",
        "exhaustive TLC runs are bounded by the constants of tools/relay_cfg.py; beyond them the property is explored by generated and seeded histories only",
    ]
    write_evidence(work, "model_checking", coverage, assumptions, violations=len(violations))

    printed = set()
    for kf, fr in known:
        if kf["id"] in printed:
            continue
        printed.add(kf["id"])
        print("KNOWN-FINDING: property=%s %s: %s" % (prop, kf["id"], kf.get("what", "")))
    if spec_violation and not violations:
        # a counterexample on the specification alone is a lead, not a verdict
        raise Inconclusive("TLC refutes %s on the specification (family %s) but no recorded execution of the code shows it: "
                           "the specification or the property predicate needs attention; see %s" % (
                               spec_violation[0]["violated"], spec_violation[0]["family"], spec_violation[0]["log"]))
    if violations:
        for fr, path in violations:
            print("VIOLATION property=%s replay=%s" % (prop, path))
            sg = fr["sig"]
            print("  history %s, record %d: %s %s -> %s; invariant %s%s" % (fr["hid"], fr["rec"].get("i", -1), sg.get("step", "-"), sg.get("kind", "-"),
                                                                           sg.get("ret", "-"), sg.get("inv", "-"), ("; " + str(sg["what"])) if "what" in sg else ""))
        return 1
    if missing:
        raise Inconclusive("vacuity gate: the explored histories did not exercise the property enough (%s)" % ", ".join(missing))
    print("OK property=%s tier=%s: %d model states, %d histories / %d steps of the real code validated" % (
        prop, tier, coverage["states"], stats["histories"], stats["steps"]))
    return 0
