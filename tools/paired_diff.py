import json,sys
for line in open(sys.argv[1]):
    r=json.loads(line)
    if r.get('k')!='step': continue
    if r['post']!=r['post0'] or r['ret']!=r['ret0']:
        print('rec',r['i'],r['step'],r.get('req'),r['ret'],r['ret0'],'fl',r['fl'])
        a,b=r['post'],r['post0']
        for k in a:
            if a[k]!=b[k]:
                if k in('sess','conns'):
                    for x,y in zip(a[k],b[k]):
                        for kk in x:
                            if x[kk]!=y[kk]: print('  ',k,kk,x[kk],'!=',y[kk])
                else: print('  ',k,a[k],'!=',b[k])
        break
