#!/bin/sh
# run every registered quick check in /verif against /repo, writing the evidence files
cd /verif
for p in C01 C02 C03 C04 C05 C06 C07 C08 C09 C10 C11 C12 C13 C14 C15 C16 C17 C18 C19 C20; do
  bin/check $p ${1:-quick} > /tmp/runall-$p.txt 2>&1
  echo "$p exit=$? $(tail -1 /tmp/runall-$p.txt | cut -c1-160)"
done
