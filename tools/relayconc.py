"""RelayConc (lock-grain specification) <-> real handlers under the cooperative scheduler (harness l1m).

Programs: {conn: [request | "B"]} with the same number of barriers "B" for every connection and at most one
request per connection between two barriers.  Requests are the specification's records:
  J(rid, sid)  EA(rid, persist)  ED(rid, eid)  AC(rid, eid, v)  DI(rid)
"""
import json, os, re, random

CONNS = [1, 2, 3]
UNMODELLED_RE = re.compile(r'^Unmodelled == \{(.*)\}\s*$', re.M)


def J(rid, sid): return dict(k="Join", rid=rid, sid=sid)
def EA(rid, persist=False): return dict(k="EntityAdd", rid=rid, persist=persist)
def ED(rid, eid): return dict(k="EntityDelete", rid=rid, eid=eid)
def AC(rid, eid, v): return dict(k="Action", rid=rid, eid=eid, v=v)
def DI(rid): return dict(k="Disc", rid=rid)
def AS(rid, eid): return dict(k="AssetAdd", rid=rid, eid=eid)
B = "B"


def unmodelled(spec_dir):
    s = open(os.path.join(spec_dir, "RelayConc.tla")).read()
    m = UNMODELLED_RE.search(s)
    return re.findall(r'"([^"]+)"', m.group(1))


def phases_of(prog):
    """[[(conn, req)]] per phase"""
    n = max(sum(1 for x in prog.get(c, []) if x == B) for c in CONNS) + 1
    ph = [[] for _ in range(n)]
    for c in CONNS:
        i = 0
        for x in prog.get(c, []):
            if x == B:
                i += 1
            else:
                ph[i].append((c, x))
    for p in ph:
        assert len({c for c, _ in p}) == len(p), "one request per connection and phase"
    return ph


def harness_req(r):
    k = r["k"]
    if k == "Join":
        return dict(k="Join", rid=r["rid"], sid=r["sid"], ts=r["rid"])
    if k == "EntityAdd":
        return dict(k="EntityAdd", rid=r["rid"], persist=bool(r["persist"]), flag=0, px=1, ts=r["rid"])
    if k == "EntityDelete":
        return dict(k="EntityDelete", rid=r["rid"], eid=r["eid"], ts=r["rid"])
    if k == "Action":
        return dict(k="Action", rid=r["rid"], eid=r["eid"], name="x", ats=r["v"], data=r["v"] % 4, ts=r["rid"])
    if k == "AssetAdd":
        return dict(k="AssetAdd", rid=r["rid"], eid=r["eid"], asset="m", ts=r["rid"])
    if k == "Disc":
        return dict(k="Disc")
    raise ValueError(k)


def mods_of(mod):
    """mod: False / "none" (no module), True / "vikja", "odal" """
    if mod in (False, None, "none"):
        return []
    return ["vikja"] if mod in (True, "vikja") else [mod]


def scenario(cid, prog, vikja, unmod, sched=None, rnd_seed=None):
    ph = phases_of(prog)
    sc = dict(cid=cid, config=dict(mods=mods_of(vikja), flags=[]),
              phases=[[dict(conn=c, req=harness_req(r)) for c, r in p] for p in ph], unmodelled=unmod)
    if sched is not None:
        sc["sched"] = sched
    if rnd_seed is not None:
        sc.update(random=True, seed=rnd_seed)
    return sc


def tla_req(r):
    if r == B:
        return dict(k="Barrier", rid=0)
    return r


def model_msg(m, reqs):
    """harness message -> the specification's record (None: not modelled)"""
    t = m["t"]
    if t == "JOIN_RESPONSE":
        return dict(t=t, rid=m["rid"], sid=m["sid"], pid=m["pid"])
    if t == "SESSION_STATE":
        return dict(t=t, parts=sorted(m["parts"]), ents=[dict(id=e[0], owner=e[1]) for e in m["ents"]])
    if t == "JOIN_BROADCAST" or t == "LEAVE_BROADCAST":
        return dict(t=t, pid=m["pid"])
    if t == "ENTITY_ADD_RESPONSE":
        return dict(t=t, rid=m["rid"], eid=m["eid"])
    if t == "ENTITY_ADD_BROADCAST":
        return dict(t=t, eid=m["ent"][0], owner=m["ent"][1])
    if t == "ENTITY_DELETE_RESPONSE":
        return dict(t=t, rid=m["rid"], eid=reqs[m["rid"]]["eid"])
    if t == "ENTITY_DELETE_BROADCAST":
        return dict(t=t, eid=m["eid"])
    if t == "VIKJA_STATE":
        return dict(t=t, acts=[dict(eid=a[0], v=a[2]) for a in m["acts"]])
    if t == "ACTION_RESPONSE":
        return dict(t=t, rid=m["rid"], eid=reqs[m["rid"]]["eid"], v=reqs[m["rid"]]["v"])
    if t == "ACTION_BROADCAST":
        return dict(t=t, eid=m["act"][0], v=m["act"][2])
    if t == "ODAL_STATE":
        return dict(t=t, acts=[dict(eid=a[0], v=a[1]) for a in m["assets"]])
    if t == "ASSET_ADD_RESPONSE":
        return dict(t=t, rid=m["rid"], eid=reqs[m["rid"]]["eid"], v=m["aid"])
    if t == "ASSET_ADD_BROADCAST":
        return dict(t=t, eid=m["asset"][0], v=m["asset"][1])
    if t == "ERROR":
        return dict(t=t, rid=m["rid"], code=m["code"])
    return dict(t=t)


def trace_of(prog, result):
    """events for RelayConcTrace from a harness l1m result; None when the run is not a complete execution"""
    reqs = {}
    for c in CONNS:
        for r in prog.get(c, []):
            if r != B:
                reqs[r["rid"]] = r
    ev = [dict(ev="reset", cid=result["cid"], prog=[[tla_req(r) for r in prog.get(c, [])] for c in CONNS])]
    cum = {c: [] for c in CONNS}
    nph = len(result["phases"])
    prog_ph = phases_of(prog)
    pre = [[c, 0, 0, []] for c in CONNS]
    for pi, ph in enumerate(result["phases"]):
        if ph["ret"] != "ok":
            return None, ph
        conns = ph["conns"]
        for s in ph["sched"]:
            t, lbl = s.split(":", 1)
            ev.append(dict(ev="step", c=conns[int(t) - 1], lbl=lbl))
        dout = {c: [] for c in CONNS}
        for c, ms in ph["out"]:
            dout[c] = [model_msg(m, reqs) for m in ms]
            cum[c] += dout[c]
        post = ph["post"]
        sess = []
        for s in post["sess"]:
            sess.append(dict(sid=s["sid"], pcur=s["pcur"], ecur=s["ecur"], fh=s["fh"], mem=s["mem"], ticking=(1 if s.get("ticking") else 0),
                             ents=[[e[0], e[1], e[2]] for e in s["ents"]],
                             acts=[[a[0], a[2]] for a in s["acts"]] + [[a[0], a[1]] for a in s.get("assets", [])]))
        conns_v = [[c["c"], c["sid"], c["pid"], c["own"]] for c in post["conns"] if c["c"] in CONNS]
        have = {c[0] for c in conns_v}
        for c in CONNS:
            if c not in have:
                conns_v.append([c, 0, 0, []])
        ev.append(dict(ev="phase", last=(pi == nph - 1), cur=post["cur"], free=post["free"], gauge=post["gauge"], sess=sess,
                       conns=conns_v, outs=[list(cum[c]) for c in CONNS], dead=post.get("dead", []),
                       orphans=[c["c"] for c in post["conns"] if c.get("orphan")],
                       douts=[dout[c] for c in CONNS], pre=pre, reqs=[[c, r] for c, r in prog_ph[pi]]))
        pre = sorted(conns_v)
    return ev, None


# ---------------------------------------------------------------------------------------------------------
# programs

def setup_one_session(n_members=1, entities=(), actions=()):
    """conn 1 creates session 1 (and owns the entities); conns 2.. join it; returns (prog, next rid)"""
    rid = 1
    steps = [(1, J(rid, 0))]
    rid += 1
    for c in range(2, n_members + 1):
        steps.append((c, J(rid, 1)))
        rid += 1
    for (c, persist) in entities:
        steps.append((c, EA(rid, persist)))
        rid += 1
    for (c, eid, v) in actions:
        steps.append((c, AC(rid, eid, v)))
        rid += 1
    out = {c: [] for c in CONNS}
    for c, r in steps:
        for d in CONNS:
            if d == c:
                out[d].append(r)
            out[d].append(B)
    return out, rid


def from_phases(phases):
    prog = {c: [] for c in CONNS}
    for i, ph in enumerate(phases):
        if i:
            for c in CONNS:
                prog[c].append(B)
        for c, r in ph:
            prog[c].append(r)
    return prog


def with_block(setup, block):
    prog = {c: list(setup[c]) for c in CONNS}
    for c, r in block:
        prog[c].append(r)
    return prog


def catalogue(vikja):
    """(name, prog): the concurrent blocks of the schedules clauses, in the specification's vocabulary"""
    out = []
    s, n = setup_one_session(1)
    out.append(("join_vs_last_leave", with_block(s, [(1, DI(n)), (2, J(n + 1, 1))])))
    out.append(("join_vs_last_leave_and_creator", with_block(s, [(1, DI(n)), (2, J(n + 1, 1)), (3, J(n + 2, 0))])))
    s, n = setup_one_session(2)
    out.append(("two_last_leaves_and_creator", with_block(s, [(1, DI(n)), (2, DI(n + 1)), (3, J(n + 2, 0))])))
    out.append(("two_creates", {1: [J(1, 0)], 2: [J(2, 0)], 3: []}))
    out.append(("three_creates", {1: [J(1, 0)], 2: [J(2, 0)], 3: [J(3, 0)]}))
    out.append(("create_vs_join_by_id", {1: [J(1, 0)], 2: [J(2, 1)], 3: []}))
    s, n = setup_one_session(2, entities=[(1, False)])
    out.append(("switch_vs_join", with_block(s, [(1, J(n, 0)), (3, J(n + 1, 1))])))
    s, n = setup_one_session(1, entities=[(1, False), (1, True)])
    out.append(("join_vs_entity_delete", with_block(s, [(1, ED(n, 1)), (2, J(n + 1, 1))])))
    out.append(("join_vs_entity_add", with_block(s, [(1, EA(n, False)), (2, J(n + 1, 1))])))
    out.append(("leave_with_entities_vs_join", with_block(s, [(1, DI(n)), (2, J(n + 1, 1))])))
    s, n = setup_one_session(2, entities=[(1, False)])
    out.append(("two_adders_and_joiner", with_block(s, [(1, EA(n, False)), (2, EA(n + 1, True)), (3, J(n + 2, 1))])))
    out.append(("delete_add_join", with_block(s, [(1, ED(n, 1)), (2, EA(n + 1, False)), (3, J(n + 2, 1))])))
    s, n = setup_one_session(3, entities=[(3, False), (3, True)])
    out.append(("leave_vs_adds", with_block(s, [(3, DI(n)), (1, EA(n + 1, False)), (2, EA(n + 2, True))])))
    if vikja in (True, "vikja"):
        s, n = setup_one_session(2, entities=[(1, False)], actions=[(1, 1, 1)])
        out.append(("delete_vs_action_vs_join", with_block(s, [(1, ED(n, 1)), (2, AC(n + 1, 1, 2)), (3, J(n + 2, 1))])))
        out.append(("two_actions_and_join", with_block(s, [(1, AC(n, 1, 2)), (2, AC(n + 1, 1, 3)), (3, J(n + 2, 1))])))
        out.append(("leave_vs_action_vs_join", with_block(s, [(1, DI(n)), (2, AC(n + 1, 1, 2)), (3, J(n + 2, 1))])))
        out.append(("create_vs_join_then_actions", from_phases([[(1, J(1, 0)), (2, J(2, 1))], [(1, EA(3, False))], [(1, AC(4, 1, 1))],
                                                                [(2, AC(5, 1, 2))], [(3, J(6, 1))]])))
    if vikja == "odal":
        s, n = setup_one_session(2, entities=[(1, False), (2, False)])
        s = with_block(s, [(1, AS(n, 1))])
        for c in CONNS:
            s[c].append(B)
        n += 1
        out.append(("delete_vs_asset_vs_join", with_block(s, [(1, ED(n, 1)), (2, AS(n + 1, 2)), (3, J(n + 2, 1))])))
        out.append(("asset_vs_delete_same_entity", with_block(s, [(1, AS(n, 1)), (3, J(n + 2, 1))]) ))
        out.append(("leave_vs_asset_vs_join", with_block(s, [(1, DI(n)), (2, AS(n + 1, 2)), (3, J(n + 2, 1))])))
        out.append(("foreign_asset_vs_join", with_block(s, [(2, AS(n, 1)), (1, AS(n + 1, 1)), (3, J(n + 2, 1))])))
        out.append(("own_asset_while_deleting", with_block(s, [(1, ED(n, 1)), (3, J(n + 2, 1))])))
    return out


def random_prog(rnd, vikja):
    """a random setup followed by one concurrent block of 2-3 requests"""
    nm = rnd.choice([1, 2, 2, 3])
    ents = [(rnd.randint(1, nm), rnd.random() < 0.3) for _ in range(rnd.choice([0, 1, 2]))]
    acts = [(rnd.randint(1, nm), rnd.randint(1, max(1, len(ents))), 1) for _ in range(rnd.choice([0, 1]) if vikja in (True, "vikja") and ents else 0)]
    s, n = setup_one_session(nm, entities=ents, actions=acts)
    block = []
    for c in rnd.sample(CONNS, rnd.choice([2, 3, 3])):
        joined = c <= nm
        if not joined:
            r = J(n, rnd.choice([0, 1, 1, 1, 2]))
        else:
            kinds = ["EA", "ED", "DI", "J"] + (["AC", "AC"] if vikja in (True, "vikja") else []) + (["AS", "AS"] if vikja == "odal" else [])
            k = rnd.choice(kinds)
            r = dict(EA=lambda: EA(n, rnd.random() < 0.3), ED=lambda: ED(n, rnd.randint(1, max(1, len(ents)))), DI=lambda: DI(n),
                     J=lambda: J(n, rnd.choice([0, 0, 1, 2])), AC=lambda: AC(n, rnd.randint(1, max(1, len(ents))), rnd.randint(1, 3)),
                     AS=lambda: AS(n, rnd.randint(1, max(1, len(ents)))))[k]()
        n += 1
        block.append((c, r))
    return with_block(s, block)


def tla_value(x):
    if isinstance(x, bool):
        return "TRUE" if x else "FALSE"
    if isinstance(x, int):
        return str(x)
    if isinstance(x, str):
        return '"%s"' % x
    if isinstance(x, dict):
        return "[" + ", ".join("%s |-> %s" % (k, tla_value(v)) for k, v in x.items()) + "]"
    if isinstance(x, (list, tuple)):
        return "<<" + ", ".join(tla_value(v) for v in x) + ">>"
    raise ValueError(x)


def tla_prog(prog):
    return "<<" + ", ".join(tla_value([tla_req(r) for r in prog.get(c, [])]) for c in CONNS) + ">>"


def mc_module(progs, name="RelayConcProgs"):
    """a module defining ProgSet for the exhaustive runs"""
    body = ",\n  ".join(tla_prog(p) for p in progs)
    return ("---- MODULE %s ----\nEXTENDS RelayConc\nTheProgs == {\n  %s }\n====\n" % (name, body))
