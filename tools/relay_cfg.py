"""TLC configurations of the request-grain model (RelayMC) per property family."""
from vlib import cfg_set

ALL_KINDS = ["Join", "EntityAdd", "EntityDelete", "Pose", "Custom", "TypeAdd", "GetName", "GetId", "CompAdd",
             "CompDelete", "CompUpdate", "CompList", "Sub", "Unsub", "Ping", "PingResp", "SignedLatency",
             "Action", "AssetAdd", "Leave", "Unknown"]

BASE = dict(
    Conns=[1, 2], Mods=["vikja", "odal", "dagaz"], Flags=[],
    Kinds=["Join", "EntityAdd", "EntityDelete", "Custom"],
    MaxSid=2, MaxU=2, MaxPid=2, MaxEid=2, MaxTid=1, MaxAid=1, MaxQ=2,
    Names=["a"], DataVals=[1], PxVals=[2], ActNames=["x"], AtsVals=[1], AssetNames=["m"], Lens=[1],
    Opens=False, Recvs=False, FlagVals=[0], EntPx=[1], JoinSids=[0, 1, 2, 99], ToLists="ToListsNone", GenDepth=0,
    TickW=2, ProcW=3,
)

# exhaustive families: name -> overrides (quick) ; "thorough" overrides applied on top
FAMILIES = {
    "core": dict(quick=dict(), thorough=dict(Conns=[1, 2, 3], MaxPid=3)),
    "ids": dict(quick=dict(Kinds=["Join", "EntityAdd", "EntityDelete"], Opens=True, MaxU=3, MaxEid=1, JoinSids=[0, 1, 2]),
                thorough=dict(Conns=[1, 2, 3], MaxPid=3, MaxU=3)),
    "pose": dict(quick=dict(Kinds=["Join", "EntityAdd", "EntityDelete", "Pose"], MaxSid=1, MaxU=1, JoinSids=[0, 1],
                            MaxEid=1, PxVals=[2], MaxQ=1),
                 thorough=dict(PxVals=[2, 3], MaxQ=2)),
    "comps": dict(quick=dict(Kinds=["Join", "EntityAdd", "EntityDelete", "TypeAdd", "CompAdd", "CompDelete", "CompList", "Sub", "Unsub"],
                             MaxSid=1, MaxU=1, JoinSids=[0, 1], MaxEid=1, DataVals=[1]),
                  thorough=dict(Kinds=["Join", "EntityAdd", "EntityDelete", "TypeAdd", "GetName", "GetId", "CompAdd", "CompDelete", "CompUpdate",
                                       "CompList", "Sub", "Unsub"], DataVals=[1, 2])),
    "mods": dict(quick=dict(Kinds=["Join", "EntityAdd", "EntityDelete", "Action", "AssetAdd"], MaxSid=1, MaxU=1, JoinSids=[0, 1],
                            MaxEid=1, AtsVals=[1, 2], MaxAid=2),
                 thorough=dict(MaxEid=2, MaxSid=2, MaxU=2, JoinSids=[0, 1, 2])),
    "custom": dict(quick=dict(Conns=[1, 2, 3], MaxPid=3, Kinds=["Join", "Custom"], MaxSid=1, MaxU=1, JoinSids=[0, 1],
                              Lens=[10240, 10241], ToLists="ToListsFull"),
                   thorough=dict(MaxSid=2, MaxU=2, JoinSids=[0, 1, 2], Lens=[0, 10240, 10241])),
}


def consts(fam, tier, **over):
    c = dict(BASE)
    c.update(FAMILIES[fam]["quick"])
    if tier == "thorough":
        c.update(FAMILIES[fam]["thorough"])
    c.update(over)
    return c


def render(c):
    lines = ["CONSTANTS"]
    for k, v in c.items():
        if k == "ToLists":
            lines.append("  ToLists <- %s" % v)
        elif isinstance(v, list):
            lines.append("  %s = %s" % (k, cfg_set(v)))
        elif isinstance(v, bool):
            lines.append("  %s = %s" % (k, "TRUE" if v else "FALSE"))
        else:
            lines.append("  %s = %s" % (k, v))
    return "\n".join(lines) + "\n"


def mc_cfg(fam, tier, props, **over):
    return ("SPECIFICATION MCSpec\n" + render(consts(fam, tier, **over)) +
            "VIEW MCView\nINVARIANT WellFormed\nPROPERTIES " + " ".join(props) + "\nCHECK_DEADLOCK FALSE\n")


GEN = dict(
    Conns=[1, 2, 3, 4], Mods=["vikja", "odal", "dagaz"], Flags=[], Kinds=ALL_KINDS,
    MaxSid=3, MaxU=1000, MaxPid=1000, MaxEid=3, MaxTid=2, MaxAid=1000, MaxQ=3,
    Names=["a", "b"], DataVals=[1, 2], PxVals=[1, 2, 3], ActNames=["x", "y"], AtsVals=[0, 1, 2, 5],
    AssetNames=["m", "n"], Lens=[0, 1, 10239, 10240, 10241, 20000], Opens=True, Recvs=True,
    FlagVals=[0, 1], EntPx=[0, 1], JoinSids=[0, 1, 2, 3, 99], ToLists="ToListsFull", GenDepth=40,
    TickW=2, ProcW=3,
)

# focused generation: the request kinds a property is about (the other half of the histories uses every kind)
FOCUS = {
    "core": dict(Kinds=["Join", "EntityAdd", "EntityDelete", "Pose", "Custom", "Action", "AssetAdd"], TickW=3, ProcW=4),
    "pose": dict(Kinds=["Join", "EntityAdd", "EntityDelete", "Pose"], TickW=4, ProcW=6, JoinSids=[0, 1, 1, 2], MaxEid=3),
    "comps": dict(Kinds=["Join", "EntityAdd", "EntityDelete", "TypeAdd", "GetName", "GetId", "CompAdd", "CompDelete", "CompUpdate",
                         "CompList", "Sub", "Unsub"], TickW=3, ProcW=4, JoinSids=[0, 1, 1, 2]),
    "mods": dict(Kinds=["Join", "EntityAdd", "EntityDelete", "Action", "AssetAdd"], JoinSids=[0, 1, 1, 2]),
    "custom": dict(Kinds=["Join", "Custom", "EntityAdd"], JoinSids=[0, 1, 1, 2]),
}


def gen_cfg(depth, **over):
    c = dict(GEN)
    c["GenDepth"] = depth
    c.update(over)
    return "SPECIFICATION GenSpec\n" + render(c) + "INVARIANT Export\nCHECK_DEADLOCK FALSE\n"


def trace_cfg(invs, mods, flags, conns=16):
    return ("SPECIFICATION TraceSpec\nCONSTANTS\n  Conns = %s\n  Mods = %s\n  Flags = %s\n" % (
        cfg_set(list(range(1, conns + 1))), cfg_set(mods), cfg_set(flags)) +
        "INVARIANTS " + " ".join(invs) + "\nCHECK_DEADLOCK FALSE\nPOSTCONDITION TraceAccepted\n")
