"""TLC configurations of the request-grain model (RelayMC) per property family."""
from vlib import cfg_set

ALL_KINDS = ["Join", "EntityAdd", "EntityDelete", "Pose", "Custom", "TypeAdd", "GetName", "GetId", "CompAdd",
             "CompDelete", "CompUpdate", "CompList", "Sub", "Unsub", "Ping", "PingResp", "SignedLatency",
             "Action", "AssetAdd", "Leave", "Unknown"]

BASE = dict(
    Conns=[1, 2], Mods=["vikja", "odal", "dagaz"], Flags=[],
    Kinds=["Join", "EntityAdd", "EntityDelete", "Custom"],
    MaxSid=2, MaxU=2, MaxPid=2, MaxEid=2, MaxTid=1, MaxAid=1, MaxQ=2,
    Names=["a"], DataVals=[1], PxVals=[2], ActNames=["x"], AtsVals=[1], AssetNames=["m"], Lens=[1],
    Opens=False, Recvs=False, FlagVals=[0], EntPx=[1], JoinSids=[0, 1, 2, 99], ToLists="ToListsNone", GenDepth=0,
    TickW=2, ProcW=3,
)

# exhaustive families: name -> overrides of BASE for the quick tier; the thorough tier runs the quick configuration AND
# every configuration of "thorough" (overrides on top of the quick ones), one TLC run each.  Sizes were measured on this
# machine (16 workers, StateDeque): distinct states / wall time are noted; configurations that did not finish in 10
# minutes are not used.
COMPS_KINDS = ["Join", "EntityAdd", "EntityDelete", "TypeAdd", "CompAdd", "CompDelete", "CompList", "Sub", "Unsub"]
FAMILIES = {
    "core": dict(quick=dict(),                                                                  # 12.5 k / 15 s
                 thorough=[dict(Opens=True, MaxU=3),                                            # 250 k / 2-8 min
                           dict(Conns=[1, 2, 3], MaxPid=3, Kinds=["Join", "EntityAdd", "EntityDelete"], MaxSid=1, MaxU=2,
                                JoinSids=[0, 1], MaxEid=2),                                     # 3 connections: 62 k / 61 s
                           dict(Conns=[1, 2, 3], MaxPid=3, Kinds=["Join", "EntityAdd", "Custom"], MaxSid=2, MaxU=2,
                                MaxEid=1)]),                                                    # 3 connections, 2 sessions: 103 k / 131 s
    "ids": dict(quick=dict(Kinds=["Join", "EntityAdd", "EntityDelete"], Opens=True, MaxU=3, MaxEid=1, JoinSids=[0, 1, 2]),   # 23 k / 44 s
                thorough=[dict(MaxU=4, MaxSid=3, JoinSids=[0, 1, 2, 3]),                        # 115 k / 3 min
                          dict(Conns=[1, 2, 3], MaxPid=3, Kinds=["Join"], MaxEid=1)]),          # 3 connections: 15 k / 45 s
    "pose": dict(quick=dict(Kinds=["Join", "EntityAdd", "EntityDelete", "Pose"], MaxSid=1, MaxU=1, JoinSids=[0, 1],
                            MaxEid=1, PxVals=[2], MaxQ=1),                                      # 154 k / 60 s
                 thorough=[dict(EntPx=[1, 2])]),                                                # 250 k / 102 s
    "comps": dict(quick=dict(Kinds=COMPS_KINDS, MaxSid=1, MaxU=1, JoinSids=[0, 1], MaxEid=1, DataVals=[1]),                 # 2.8 k
                  thorough=[dict(Kinds=COMPS_KINDS + ["GetName", "GetId"])]),                   # 2.9 k / 10 s
    "mods": dict(quick=dict(Kinds=["Join", "EntityAdd", "EntityDelete", "Action", "AssetAdd"], MaxSid=1, MaxU=1, JoinSids=[0, 1],
                            MaxEid=1, AtsVals=[1, 2], MaxAid=2, DataVals=[1, 2]),               # equal timestamps, other data
                 thorough=[dict(MaxEid=2),                                                      # 19 k / 84 s
                           dict(MaxSid=2, MaxU=2, JoinSids=[0, 1, 2])]),                        # 27 k / 50 s
    "custom": dict(quick=dict(Conns=[1, 2, 3], MaxPid=3, Kinds=["Join", "Custom"], MaxSid=1, MaxU=1, JoinSids=[0, 1],
                              Lens=[10240, 10241], ToLists="ToListsFull"),                      # 0.4 k
                   thorough=[dict(Lens=[0, 10240, 10241]),                                      # 0.4 k
                             dict(MaxSid=2, MaxU=2, JoinSids=[0, 1, 2], Lens=[0, 10240, 10241])]),   # 4.8 k / 21 s
}


def thorough_variants(fam):
    return list(FAMILIES[fam]["thorough"])


def consts(fam, tier, variant=None, **over):
    """constants of family `fam`: the quick configuration, plus thorough variant number `variant` when given"""
    c = dict(BASE)
    c.update(FAMILIES[fam]["quick"])
    if variant is not None:
        c.update(FAMILIES[fam]["thorough"][variant])
    c.update(over)
    return c


def render(c):
    lines = ["CONSTANTS"]
    for k, v in c.items():
        if k == "ToLists":
            lines.append("  ToLists <- %s" % v)
        elif isinstance(v, list):
            lines.append("  %s = %s" % (k, cfg_set(v)))
        elif isinstance(v, bool):
            lines.append("  %s = %s" % (k, "TRUE" if v else "FALSE"))
        else:
            lines.append("  %s = %s" % (k, v))
    return "\n".join(lines) + "\n"


def mc_cfg(fam, tier, props, variant=None, **over):
    return ("SPECIFICATION MCSpec\n" + render(consts(fam, tier, variant, **over)) +
            "VIEW MCView\nINVARIANT WellFormed\nPROPERTIES " + " ".join(props) + "\nCHECK_DEADLOCK FALSE\n")


GEN = dict(
    Conns=[1, 2, 3, 4], Mods=["vikja", "odal", "dagaz"], Flags=[], Kinds=ALL_KINDS,
    MaxSid=3, MaxU=1000, MaxPid=1000, MaxEid=3, MaxTid=2, MaxAid=1000, MaxQ=3,
    Names=["a", "b"], DataVals=[1, 2], PxVals=[1, 2, 3], ActNames=["x", "y"], AtsVals=[0, 1, 2, 5],
    AssetNames=["m", "n"], Lens=[0, 1, 10239, 10240, 10241, 20000], Opens=True, Recvs=True,
    FlagVals=[0, 1], EntPx=[0, 1], JoinSids=[0, 1, 2, 3, 99], ToLists="ToListsFull", GenDepth=40,
    TickW=2, ProcW=3,
)

# focused generation: the request kinds a property is about (the other half of the histories uses every kind)
FOCUS = {
    "core": dict(Kinds=["Join", "EntityAdd", "EntityDelete", "Pose", "Custom", "Action", "AssetAdd"], TickW=3, ProcW=4),
    "pose": dict(Kinds=["Join", "EntityAdd", "EntityDelete", "Pose"], TickW=4, ProcW=6, JoinSids=[0, 1, 1, 2], MaxEid=3),
    "comps": dict(Kinds=["Join", "EntityAdd", "EntityDelete", "TypeAdd", "GetName", "GetId", "CompAdd", "CompDelete", "CompUpdate",
                         "CompList", "Sub", "Unsub"], TickW=3, ProcW=4, JoinSids=[0, 1, 1, 2]),
    "mods": dict(Kinds=["Join", "EntityAdd", "EntityDelete", "Action", "AssetAdd"], JoinSids=[0, 1, 1, 2]),
    "custom": dict(Kinds=["Join", "Custom", "EntityAdd"], JoinSids=[0, 1, 1, 2]),
}


def gen_cfg(depth, **over):
    c = dict(GEN)
    c["GenDepth"] = depth
    c.update(over)
    return "SPECIFICATION GenSpec\n" + render(c) + "INVARIANT Export\nCHECK_DEADLOCK FALSE\n"


def trace_cfg(invs, mods, flags, conns=16):
    return ("SPECIFICATION TraceSpec\nCONSTANTS\n  Conns = %s\n  Mods = %s\n  Flags = %s\n" % (
        cfg_set(list(range(1, conns + 1))), cfg_set(mods), cfg_set(flags)) +
        "INVARIANTS " + " ".join(invs) + "\nCHECK_DEADLOCK FALSE\nPOSTCONDITION TraceAccepted\n")
