"""C09: concurrent clients never deadlock the server, shared state is accessed under consistent synchronisation.

(A) real handlers under the cooperative scheduler (L1c): every interleaving (bounded preemptions) of the catalogue
    blocks and seeded random schedules of larger mixed blocks (up to 16 connections) - a state with unfinished
    tasks and none enabled (Go RWMutex semantics, waiting writers block readers) is a deadlock of the real code;
(B) LockSkeleton.tla: the lock programs of every request kind are EXTRACTED from executions of the code under
    test (sync shim) and TLC explores all interleavings of 3-4 handlers running any observed nested segment;
(C) the lock discipline observed (which request kind takes which mutex in which mode) is compared with the
    table derived from the specification (Appendix A); a deviation is a lead, confirmed or not by
(D) randomised real-thread executions of the wire-level harness built with the race detector (the property's
    own quantifier names it): a reported race in hagall code is the verdict for the 'unsynchronised access' clause."""
import json, os, random, re, subprocess, shutil
from concurrent.futures import ThreadPoolExecutor

import relay_check, conc_check
from vlib import run_group, NCPU, VERIF, GOENV, Inconclusive, write_evidence, known_match, save_replay, read_ndjson, write_ndjson

ALL = ["vikja", "odal", "dagaz"]

# Which mutex classes each accepted request kind must take, and how (from DESIGN.md Appendix A).
DISCIPLINE = {
    "Join": {("SessionStore.mutex", "RLock"), ("Session.participantMutex", "Lock"), ("Session.frameMutex", "Lock")},
    "EntityAdd": {("Session.entityMutex", "Lock"), ("Session.participantMutex", "RLock")},
    "EntityDelete": {("Session.entityMutex", "RLock"), ("Session.entityMutex", "Lock"), ("EntityComponentStore.mutex", "Lock")},
    "Pose": {("Session.entityMutex", "RLock"), ("Entity.mutex", "Lock")},
    "TypeAdd": {("EntityComponentStore.mutex", "Lock")},
    "CompAdd": {("EntityComponentStore.mutex", "Lock"), ("Session.entityMutex", "RLock")},
    "CompDelete": {("EntityComponentStore.mutex", "Lock")},
    "CompUpdate": {("EntityComponentStore.mutex", "Lock")},
    "CompList": {("EntityComponentStore.mutex", "RLock")},
    "Sub": {("EntityComponentStore.subscriptionMutex", "Lock"), ("EntityComponentStore.mutex", "RLock")},
    "Unsub": {("EntityComponentStore.subscriptionMutex", "Lock")},
    "Action": {("State.entityActionMutex", "Lock")},
    "AssetAdd": {("State.assetMutex", "Lock")},
    "Disc": {("Session.participantMutex", "Lock"), ("EntityComponentStore.subscriptionMutex", "Lock"), ("Session.frameMutex", "Lock")},
}


def resolve_classes(trace):
    """How the mutex of a lock operation is named.  The harness names it from the source line of the call
    (Type.field).  Where that fails (class ends in ".?") the name is inferred, in this order: from the calling function,
    when every resolved operation of that function and kind names one and the same class; from the address, within the
    same history only (addresses are reused once objects are freed, so an address says nothing across histories)."""
    recs = [json.loads(l) for l in open(trace)]
    byfn = {}
    for r in recs:
        for cls, op, g, addr, fn in r.get("locks", []):
            if not cls.endswith(".?"):
                byfn.setdefault((fn, op.lstrip("R").replace("Unlock", "Lock")), set()).add(cls)
    fnmap = {k: next(iter(v)) for k, v in byfn.items() if len(v) == 1}
    return recs, fnmap


def name_events(events, fnmap, addrmap):
    """[(class, op, goroutine, inferred)] with the rules of resolve_classes; addrmap is the per-history address table"""
    out = []
    for cls, op, g, addr, fn in events:
        inferred = False
        if cls.endswith(".?"):
            inferred = True
            k = (fn, op.lstrip("R").replace("Unlock", "Lock"))
            cls = fnmap.get(k) or addrmap.get(addr) or cls
        else:
            addrmap.setdefault(addr, cls)
        out.append((cls, op, g, inferred))
    return out


def segments_of(named):
    """maximal nested segments per goroutine: from an acquire while holding nothing to the release of everything;
    returns [(segment, inferred)]"""
    segs, cur, held, inf = [], {}, {}, {}
    for c, op, g, inferred in named:
        h = held.setdefault(g, [])
        s = cur.setdefault(g, [])
        inf[g] = inf.get(g, False) or inferred
        if op in ("Lock", "RLock"):
            h.append((c, op))
            s.append((op, c))
        else:
            for i in range(len(h) - 1, -1, -1):
                if h[i][0] == c:
                    del h[i]
                    break
            s.append((op, c))
            if not h:
                segs.append((tuple(s), inf[g]))
                cur[g] = []
                inf[g] = False
    return segs


REENTRANT = {}      # (class, first op, second op) -> times one goroutine acquired a mutex INSTANCE (address) it already held


def note_reentrant(events):
    held = {}
    for cls, op, g, addr, fn in events:
        h = held.setdefault(g, [])
        if op in ("Lock", "RLock"):
            for (a, o) in h:
                if a == addr:
                    k = (cls, o, op)
                    REENTRANT[k] = REENTRANT.get(k, 0) + 1
            h.append((addr, op))
        else:
            for i in range(len(h) - 1, -1, -1):
                if h[i][0] == addr:
                    del h[i]
                    break


def extract_programs(work, tier, seed):
    hs = relay_check.gen_random_histories(work, 120 if tier == "quick" else 600, 60, seed, ALL, "locks")
    hs += relay_check.gen_tlc_histories(work, 80 if tier == "quick" else 400, 40, seed, ALL, "locks")
    for h in hs:
        h["config"] = dict(mods=ALL, flags=[], locks=True)
    tf = relay_check.run_l1(work, hs, "locks")
    recs, fnmap = resolve_classes(tf)
    segs, used, unresolved = {}, {}, 0
    seen, direct = {}, set()
    addrmap = {}
    for r in recs:
        if r.get("k") == "reset":
            addrmap = {}
        if r.get("k") != "step":
            continue
        named = name_events(r.get("locks", []), fnmap, addrmap)
        note_reentrant(r.get("locks", []))
        k = (r.get("popped") or {}).get("k") or r["step"]
        ok = r["ret"] == "ok" and not any(m["t"] == "ERROR" for c, ms in r["out"] for m in ms if c == r.get("conn"))
        for s, inferred in segments_of(named):
            if any(c.endswith(".?") for _, c in s):
                unresolved += 1
                continue
            nested = len({c for _, c in s}) > 1
            if nested or s[0][0] == "Lock":
                segs.setdefault(s, set()).add(k)
                seen[s] = seen.get(s, 0) + 1
                if not inferred:
                    direct.add(s)
        if ok:
            u = used.setdefault(k, set())
            for cls, op, g, inferred in named:
                if op in ("Lock", "RLock"):
                    u.add((cls, op))
    # a segment whose shape rests on an inferred name and that was seen only once is not evidence of a lock program
    for s in list(segs):
        if s not in direct and seen[s] < 2:
            del segs[s]
            unresolved += 1
    return segs, used, unresolved, len(hs)


def write_programs(path, segs):
    classes = sorted({c for s in segs for _, c in s})
    with open(path, "w") as f:
        f.write("---------------------------- MODULE LockPrograms ----------------------------\n")
        f.write("(* generated from the lock operations recorded on the code under test *)\n")
        f.write("Classes == {%s}\n" % ", ".join('"%s"' % c for c in classes))
        f.write("Programs == <<\n")
        f.write(",\n".join("  << " + ", ".join('<<"%s", "%s">>' % (op, c) for op, c in s) + " >>" for s in sorted(segs)))
        f.write("\n>>\n=============================================================================\n")
    return classes


def random_blocks(rnd, tier):
    """larger mixed blocks over a populated session, random schedules"""
    scs = []
    n = 6 if tier == "quick" else 40
    for i in range(n):
        nc = rnd.choice([4, 6, 8, 12, 16])
        setup = [conc_check.J(1, 0, 1)] + [conc_check.J(c, 1, c) for c in range(2, nc + 1)]
        setup += [conc_check.Rq(c, k="EntityAdd", rid=50 + c, persist=rnd.random() < 0.3, flag=0, px=1, ts=50 + c) for c in range(1, min(nc, 5) + 1)]
        setup += [conc_check.Rq(1, k="TypeAdd", rid=70, name="a"), conc_check.Rq(2, k="Sub", rid=71, tid=1),
                  conc_check.Rq(1, k="CompAdd", rid=72, tid=1, eid=1, data=1, ts=72)]
        pool = [dict(k="Disc"), dict(k="Join", rid=80, sid=0, ts=80), dict(k="Join", rid=80, sid=1, ts=80),
                dict(k="EntityAdd", rid=81, persist=False, flag=0, px=2, ts=81), dict(k="EntityDelete", rid=82, eid=1, ts=82),
                dict(k="Custom", len=5, dig=9, to=[], ts=83), dict(k="Custom", len=5, dig=9, to=[1, 2, 3], ts=83),
                dict(k="TypeAdd", rid=84, name="b"), dict(k="CompAdd", rid=85, tid=1, eid=2, data=1, ts=85),
                dict(k="CompDelete", rid=86, tid=1, eid=1, ts=86), dict(k="CompUpdate", tid=1, eid=1, data=2, ts=87),
                dict(k="Sub", rid=88, tid=1), dict(k="Unsub", rid=89, tid=1), dict(k="CompList", rid=90, tid=1),
                dict(k="Action", rid=91, eid=1, name="x", ats=4, data=1, ts=91), dict(k="AssetAdd", rid=92, eid=1, asset="m", ts=92),
                dict(k="Pose", eid=1, px=4, ts=93)]
        block = [dict(conn=c, req=dict(rnd.choice(pool))) for c in range(1, nc + 1)]
        scs.append(dict(cid="random_block_%d" % i, props=["C09"], config=dict(mods=ALL, flags=[]), setup=setup, block=block,
                        after=[], random=60 if tier == "quick" else 300, seed=rnd.randint(1, 10 ** 9)))
    return scs


RACE_TEXT = {}      # report (first two hagall frames) -> text of the race detector's report


def race_stage(work, tier, seed):
    """(D) wire-level stress with the race detector; returns list of distinct race reports (hagall frames)"""
    env = dict(os.environ, **GOENV)
    work.build_harness()
    hdir = work.hsrc
    out = work.path("bin", "harness-race")
    r = subprocess.run(["go", "build", "-race", "-tags", "verif", "-overlay", work.overlay, "-o", out, "."], cwd=hdir, env=env,
                       capture_output=True, text=True)
    if r.returncode != 0:
        raise Inconclusive("race build failed: " + r.stderr[-800:])
    rnd = random.Random(seed)
    scs = []
    for si in range(5 if tier == "quick" else 20):
        N = rnd.choice([4, 8, 12, 16])
        ops = [dict(op="dial", c=c) for c in range(1, N + 1)]
        ops += [dict(op="req", c=1, req=dict(k="Join", rid=1, sid=0, ts=1)), dict(op="barrier", c=1)]
        ops += [dict(op="req", c=c, req=dict(k="Join", rid=1, sid=1, ts=1)) for c in range(2, N + 1)]
        ops += [dict(op="barrier", c=c) for c in range(1, N + 1)]
        ops += [dict(op="req", c=c, req=dict(k="EntityAdd", rid=2, persist=False, flag=0, px=1, ts=2)) for c in range(1, N + 1)]
        ops += [dict(op="req", c=1, req=dict(k="TypeAdd", rid=3, name="a"))] + [dict(op="barrier", c=c) for c in range(1, N + 1)]
        kinds = [dict(k="Custom", len=20, dig=1, to=[], ts=5), dict(k="Pose", eid=1, px=3, ts=5), dict(k="CompList", rid=5, tid=1),
                 dict(k="Sub", rid=5, tid=1), dict(k="Quad", quads=[[[1, 0, 1], [1, 0, 1]]]), dict(k="Region", rid=6, min=[-5, 0, -5], max=[5, 0, 5]),
                 dict(k="Debug", rid=7), dict(k="Ground", rid=8, ray=[[1, 5, 1], [1, -5, 1]]), dict(k="Action", rid=9, eid=1, name="x", ats=3, data=1, ts=9),
                 dict(k="EntityAdd", rid=2, persist=False, flag=0, px=1, ts=2), dict(k="Ping", rid=4), dict(k="AssetAdd", rid=10, eid=1, asset="m", ts=10),
                 dict(k="CompAdd", rid=11, tid=1, eid=1, data=1, ts=11), dict(k="Join", rid=12, sid=0, ts=12), dict(k="Join", rid=12, sid=1, ts=12),
                 dict(k="Unsub", rid=13, tid=1), dict(k="TypeAdd", rid=14, name="b")]
        for c in range(1, N + 1):
            for _ in range(2):
                ops.append(dict(op="aburst", c=c, n=200, req=rnd.choice(kinds)))
        ops += [dict(op="waitburst", c=c) for c in range(1, N + 1)]
        ops += [dict(op="barrier", c=c, ms=15000) for c in range(1, N + 1)]
        ops += [dict(op="close", c=c) for c in range(1, N + 1, 2)]
        scs.append(dict(sid="race%d" % si, config=dict(mods=ALL, idle_ms=60000, frame_ms=2), ops=ops))
    # writers against readers of each piece of state shared by the members of a session
    quads = [[[1, 0, 1], [1, 0, 1]], [[2, 0, 1], [1, 0, 1]], [[1, 0, 2], [1, 0, 1]], [[3, 0, 3], [2, 0, 2]], [[2, 0, 2], [1, 0, 1]]]
    pairs = [
        ("dagaz", [dict(k="Quad", quads=[q]) for q in quads] + [dict(k="Quad", quads=quads[:3])],
         [dict(k="Region", rid=6, min=[-9, -1, -9], max=[9, 1, 9]), dict(k="Ground", rid=8, ray=[[1, 5, 1], [1, -5, 1]]), dict(k="Debug", rid=7),
          dict(k="Join", rid=12, sid=1, ts=12)]),
        ("vikja", [dict(k="Action", rid=9, eid=e, name=nm, ats=t, data=1, ts=9) for e in (1, 2) for nm in ("x", "y") for t in (3, 4)],
         [dict(k="Join", rid=12, sid=1, ts=12), dict(k="EntityDelete", rid=13, eid=2, ts=13), dict(k="Join", rid=12, sid=0, ts=12)]),
        ("odal", [dict(k="AssetAdd", rid=10, eid=e, asset=a, ts=10) for e in (1, 2, 3) for a in ("m", "n")],
         [dict(k="Join", rid=12, sid=1, ts=12), dict(k="EntityDelete", rid=13, eid=3, ts=13)]),
        ("components", [dict(k="CompAdd", rid=11, tid=1, eid=e, data=1, ts=11) for e in (1, 2, 3)] + [dict(k="CompUpdate", tid=1, eid=1, data=2, ts=5),
                        dict(k="CompDelete", rid=14, tid=1, eid=2, ts=14), dict(k="Sub", rid=5, tid=1), dict(k="Unsub", rid=13, tid=1), dict(k="TypeAdd", rid=14, name="b")],
         [dict(k="CompList", rid=5, tid=1), dict(k="Join", rid=12, sid=1, ts=12), dict(k="GetId", rid=15, name="b"), dict(k="GetName", rid=16, tid=2)]),
        ("poses", [dict(k="Pose", eid=e, px=p, ts=5) for e in (1, 2, 3) for p in (3, 4)] + [dict(k="EntityAdd", rid=2, persist=False, flag=0, px=1, ts=2)],
         [dict(k="Join", rid=12, sid=1, ts=12), dict(k="Custom", len=20, dig=1, to=[1, 2, 3], ts=5)]),
    ]
    for name, writers, readers in (pairs if tier == "quick" else pairs * 3):
        N = 8
        ops = [dict(op="dial", c=c) for c in range(1, N + 1)]
        ops += [dict(op="req", c=1, req=dict(k="Join", rid=1, sid=0, ts=1)), dict(op="barrier", c=1)]
        ops += [dict(op="req", c=c, req=dict(k="Join", rid=1, sid=1, ts=1)) for c in range(2, N + 1)]
        ops += [dict(op="barrier", c=c) for c in range(1, N + 1)]
        ops += [dict(op="req", c=c, req=dict(k="EntityAdd", rid=2, persist=False, flag=0, px=1, ts=2)) for c in range(1, 5)]
        ops += [dict(op="req", c=1, req=dict(k="TypeAdd", rid=3, name="a"))] + [dict(op="barrier", c=c) for c in range(1, N + 1)]
        for rnd_i in range(2):
            for c in range(1, N + 1):
                ops.append(dict(op="aburst", c=c, n=250, req=rnd.choice(writers if c <= N // 2 else readers)))
        ops += [dict(op="waitburst", c=c) for c in range(1, N + 1)]
        ops += [dict(op="barrier", c=c, ms=15000) for c in range(1, N + 1)]
        ops += [dict(op="close", c=c) for c in range(1, N + 1, 2)]
        scs.append(dict(sid="race-%s-%d" % (name, len(scs)), config=dict(mods=ALL, idle_ms=60000, frame_ms=2), ops=ops))
    pin, pout = work.path("race", "in.ndjson"), work.path("race", "out.ndjson")
    write_ndjson(pin, scs)
    env2 = dict(os.environ, GORACE="halt_on_error=0 exitcode=0")
    r = subprocess.run([out, "l2", "-in", pin, "-out", pout], capture_output=True, text=True, timeout=900, env=env2)
    reports = []
    RACE_TEXT.clear()
    open(work.path("race", "stderr.txt"), "w").write(r.stderr)
    for blk in r.stderr.split("WARNING: DATA RACE")[1:]:
        frames = [re.sub(r"\(0x.*|\(\)", "", ln.strip()) for ln in blk.splitlines() if "aukilabs/hagall/" in ln and "aukilabs/hagall-common" not in ln
                  and not ln.strip().startswith("/")]
        # an access made by the harness itself (overlay accessors Verif*, verif_export.go, the verifrt shim) racing with
        # the code is an artefact of observing, not a race of hagall: the whole report is dropped
        access_stacks = blk.split("\nGoroutine ")[0]
        if re.search(r"\.Verif[A-Z]\w*\(|verif_export\.go", access_stacks):
            continue
        # .. also when the accessor was inlined: the innermost frame of one of the two accesses that is not the runtime's
        # belongs to the harness (package main)
        harness_access = False
        for st in re.split(r"\n(?=Previous )", access_stacks):
            fns = [ln.strip() for ln in st.splitlines()[1:] if ln.strip() and not ln.strip().startswith("/")]
            fns = [f for f in fns if not f.startswith("runtime.")]
            if fns and fns[0].startswith("main."):
                harness_access = True
        if harness_access:
            continue
        frames = [f for f in frames if "verif" not in f.lower()]
        if frames:
            reports.append(tuple(frames[:2]))
            RACE_TEXT.setdefault(tuple(frames[:2]), blk[:6000])
    if r.returncode != 0 and not reports:
        raise Inconclusive("race-detector run failed: " + r.stderr[-600:])
    return sorted(set(reports)), len(scs)


def run(work, tier, replay=None):
    rnd = random.Random(work.seed)
    work.build_harness()
    violations, leads = [], []
    # (A) cooperative scheduler: catalogue + random blocks
    cat = [s for s in conc_check.catalogue(tier) if "C09" in s["props"]] + random_blocks(rnd, tier)
    conc = conc_check.run_conc(work, "C09", tier, replay_scenarios=cat)
    nsched = sum(x["schedules"] for x in conc["summaries"])
    work.log("(A) %d blocks, %d schedules on the real handlers, %d distinct outcomes, %d deadlocks / failures" % (
        conc["scenarios"], nsched, conc["outcomes"], len(conc["fails"])))
    for fr in conc["fails"]:
        sig = dict(inv=fr["sig"]["inv"], cid=re.sub(r"_\d+$", "", fr["sig"].get("cid", "")), what="deadlock" if fr["rec"].get("ret") == "deadlock" else "block")
        if known_match("C09", sig):
            continue
        violations.append((sig, "block %s: %s %s" % (fr["hid"], fr["rec"].get("ret"), fr["rec"].get("note", "")),
                           save_replay("C09", fr["hid"], [dict(fr.get("scenario") or {}, failing_outcome=fr["rec"])])))
    # (B) lock programs of the code under test -> TLC
    segs, used, unresolved, nh = extract_programs(work, tier, work.seed)
    d = work.spec_dir("lockskel")
    classes = write_programs(os.path.join(d, "LockPrograms.tla"), segs)
    procs = 3 if tier == "quick" else 4
    cfgp = os.path.join(d, "ls.cfg")
    open(cfgp, "w").write("SPECIFICATION SSpec\nCONSTANTS\n  Procs = %d\nINVARIANT Balanced\n" % procs)
    rc_tlc, out = run_group(["tlc", "-workers", str(NCPU), "-metadir", os.path.join(d, "meta"), "-config", "ls.cfg", "LockSkeleton.tla"],
                            d, dict(os.environ), 3000, os.path.join(d, "ls.log"))
    if rc_tlc < 0:
        raise Inconclusive("LockSkeleton timed out or was killed (%d)" % rc_tlc)
    m = re.search(r"(\d+) states generated, (\d+) distinct states found", out)
    st = dict(generated=int(m.group(1)) if m else 0, distinct=int(m.group(2)) if m else 0)
    dead = "Deadlock reached" in out
    bal = "Invariant Balanced is violated" in out
    if not m and not dead:
        raise Inconclusive("LockSkeleton failed: " + out[-600:])
    nested = [s for s in segs if len({c for _, c in s}) > 1]
    edges = sorted({(a, b) for s in nested for (a, b) in nest_edges(s)})
    work.log("(B) %d lock segments (%d nested) over %d classes from %d histories; LockSkeleton Procs=%d: %s distinct states%s" % (
        len(segs), len(nested), len(classes), nh, procs, st["distinct"], " DEADLOCK" if dead else ""))
    if dead or bal:
        tail = out[out.find("Error:"):][:3000]
        leads.append(dict(kind="lock-skeleton deadlock" if dead else "unbalanced lock program", detail=tail))
    # (C) discipline
    missing = []
    for k, need in DISCIPLINE.items():
        have = used.get(k)
        if have is None:
            continue
        for cm in need:
            if cm not in have:
                missing.append((k, cm))
    if missing:
        leads.append(dict(kind="lock discipline", detail=["%s no longer takes %s (%s)" % (k, c, m) for k, (c, m) in missing]))
    if REENTRANT:
        # Go's RWMutex must not be read-locked recursively (a writer arriving in between blocks both): observed on sequential
        # histories this is a lead; the deadlock itself is decided by the reader-vs-writer blocks of stage (A)
        work.log("(B) re-entrant acquisitions of one mutex instance observed: %s" % sorted(REENTRANT.items())[:5])
        leads.append(dict(kind="re-entrant acquisition of one mutex instance (a writer arriving in between blocks both goroutines)",
                          detail=[[list(k), n] for k, n in sorted(REENTRANT.items())][:10]))
    work.log("(C) lock discipline: %d request kinds observed, %d deviations from the table" % (len(used), len(missing)))
    # (D) race detector, real threads
    races, nsc = race_stage(work, tier, work.seed)
    work.log("(D) %d wire-level stress scenarios under the race detector: %d distinct reports in hagall code" % (nsc, len(races)))
    known = []
    for rp in races:
        sig = dict(what="data race", site=rp[0].split("/")[-1])
        kf = known_match("C09", sig)
        if kf:
            if kf not in known:
                known.append(kf)
            continue
        violations.append((sig, "data race: %s  vs  %s" % (rp[0], rp[-1]), save_replay("C09", "race-" + re.sub(r"\W+", "_", rp[0])[-60:], [dict(race=list(rp), report=RACE_TEXT.get(tuple(rp), ""))])))
    # (E) lock-grain specification: RelayConc.tla explored exhaustively with TLC's deadlock check and the
    # NoLockLeft invariant (Go RWMutex semantics incl. writer preference); behaviours of the specification forced on the
    # real handlers and random schedules of the real handlers validated against it (a run that ends in a deadlock
    # of the real handlers is a violation; a specification-only deadlock is a lead)
    import relayconc_check
    rc_ = relayconc_check.stage(work, tier, work.seed, variants=(False, True, "odal"), witnesses=False)
    for f in rc_["fails"]:
        if "C09" not in relayconc_check.OWNER.get(f["inv"], []):
            continue
        sig = dict(inv=f["inv"], cid=str(f["cid"]), what="deadlock" if f["inv"] == "deadlock" else "lock-grain invariant")
        violations.append((sig, "RelayConc run %s: %s %s" % (f["cid"], f["inv"], f.get("note") or ""),
                           save_replay("C09", "relayconc-%s" % f["cid"], [dict(stage="RelayConc (harness l1m)", invariant=f["inv"], scenario=f.get("scenario"), note=f.get("note"))])))
    for m_ in rc_["model"]:
        if m_.get("deadlock"):
            leads.append(dict(kind="RelayConc deadlock (specification)", detail=m_))
    work.log("(E) RelayConc: %s" % "; ".join("vikja=%s %s states" % (m_["vikja"], m_["distinct"]) for m_ in rc_["model"]))
    # leads without a reproduction on real code are inconclusive, never a violation
    unconfirmed = []
    for ld in leads:
        if ld["kind"] == "lock discipline" and races:
            continue   # confirmed by (D): already reported there
        unconfirmed.append(ld)
    coverage = dict(states=st["distinct"] or 1, transitions=st["generated"] or 1, traces_validated_against_impl=conc["outcomes"] + nh,
                    schedules_executed_on_real_code=nsched, blocks=conc["scenarios"], lock_segments=len(segs), nested_segments=[list(map(list, s)) for s in nested][:30],
                    acquired_while_holding=[list(e) for e in edges],
                    reentrant_acquisitions_of_one_mutex_instance=[[list(k), n] for k, n in sorted(REENTRANT.items())], lock_classes=classes, unresolved_lock_sites=unresolved,
                    discipline_deviations=[[k, list(cm)] for k, cm in missing], race_reports=[list(r) for r in races][:20],
                    samples=[dict(segment=[list(x) for x in (nested[0] if nested else list(segs)[0])], from_requests=sorted(segs[nested[0] if nested else list(segs)[0]]))],
                    per_block=conc["summaries"][:40],
                    lock_grain=dict(exhaustive=rc_["model"], real_runs=rc_["stats"], runs_the_specification_does_not_explain=rc_["lost"][:20]))
    coverage["states"] += sum((m_.get("distinct") or 0) for m_ in rc_["model"])
    coverage["transitions"] += sum((m_.get("generated") or 0) for m_ in rc_["model"])
    coverage["traces_validated_against_impl"] += sum(v.get("runs", 0) for v in rc_["stats"].values())
    write_evidence(work, "model_checking", coverage,
                   ["mutexes are identified by class (type.field): instances of one class are merged, conservative for deadlock",
                    "the lock programs are those observed on generated and seeded histories; a handler path never executed contributes no program (vacuity is gated by the request-kind coverage of the histories)",
                    "unsynchronised access is decided by Go's race detector on real-thread executions (named by the property itself); the lock-discipline table only produces leads",
                    "clients keep reading what they are sent (the property's precondition): back-pressure from a stalled reader is outside C09"],
                   violations=len(violations))
    for kf in known:
        print("KNOWN-FINDING: property=C09 %s" % kf.get("what", kf["id"]))
    if violations:
        seen = set()
        for sig, msg, path in violations:
            key = json.dumps(sig, sort_keys=True)
            if key in seen:
                continue
            seen.add(key)
            print("VIOLATION property=C09 replay=%s" % path)
            print("  " + msg[:300])
        return 1
    if unconfirmed:
        raise Inconclusive("lead(s) not reproduced on the real code: %s" % json.dumps(unconfirmed)[:1500])
    print("OK property=C09 tier=%s: %d schedules of %d blocks on the real handlers without deadlock; %d lock segments, LockSkeleton %d states; no race in %d stress scenarios" % (
        tier, nsched, conc["scenarios"], len(segs), st["distinct"], nsc))
    return 0


def nest_edges(seg):
    held, out = [], []
    for op, c in seg:
        if op in ("Lock", "RLock"):
            for h in held:
                if h != c:
                    out.append((h, c))
            held.append(c)
        else:
            if c in held:
                held.remove(c)
    return out
