#!/usr/bin/env python3
"""Re-execute a replay file of the lock-grain stage (an l1m scenario: phases of concurrent requests + the schedule)
on the real handlers built from /repo (or VERIF_REPO) and validate the recorded run with RelayConcTrace.
usage: tools/relayconc_replay.py /verif/replays/Cxx-relayconc-....ndjson"""
import json, os, sys
sys.path.insert(0, os.path.dirname(os.path.abspath(__file__)))
import vlib, relayconc as rc, relayconc_check as rcc


def main():
    obj = json.loads(open(sys.argv[1]).readline())
    sc = obj.get("scenario") or obj
    mods = sc["config"]["mods"]
    variant = "odal" if "odal" in mods else bool(mods)
    # the program is recovered from the phases
    inv = {"Join": lambda r: rc.J(r["rid"], r["sid"]), "EntityAdd": lambda r: rc.EA(r["rid"], r["persist"]),
           "EntityDelete": lambda r: rc.ED(r["rid"], r["eid"]), "Action": lambda r: rc.AC(r["rid"], r["eid"], r["ats"]),
           "AssetAdd": lambda r: rc.AS(r["rid"], r["eid"]), "Disc": lambda r: rc.DI(0)}
    phases = [[(b["conn"], inv[b["req"]["k"]](b["req"])) for b in ph] for ph in sc["phases"]]
    prog = rc.from_phases(phases)
    w = vlib.Work("replay", "quick")
    try:
        real = rcc.run_real(w, "rp", [sc])
        res = real[sc["cid"]]
        for ph in res["phases"]:
            print("phase", ph["phase"], ph["ret"], ph.get("note", ""), " ".join(ph["sched"]))
        v = rcc.validate(w, "rp", variant, [(sc["cid"], prog, res)])
        print(json.dumps(dict(explained=sorted(v["explained"]), lost=v["lost"], diverged=v["diverged"], violation=v["violation"]), indent=1))
        return 1 if v["violation"] else 0
    finally:
        w.cleanup()


if __name__ == "__main__":
    sys.exit(main())
