"""C03, the differential the property names: every history over two groups of connections that never share a session
is run three times on the real handlers - as it is, with only the first group's steps, with only the second group's -
and what the members of a group are sent, what their requests return and the state of their sessions must be the same
with and without the other group (apart from session ids / UUIDs, which are global).

Sessions are named symbolically in these histories (`like`: "the session connection X is in"), because the numeric
ids differ between the runs; every other id (participants, entities, component types, asset instances) is per session
and coincides across the two groups on purpose: the groups keep naming each other's small integers."""
import json, random

import relay_check
from vlib import read_ndjson

GROUPS = ([1, 2], [3, 4, 5])          # connection 5 never joins


def gen_iso(rnd, hid, mods, depth):
    steps = []
    n = [0]
    joined = {}

    def req(c, **r):
        n[0] += 1
        r.update(rid=n[0], ts=n[0])
        steps.append({"step": "Req", "conn": c, "req": r})

    def parked(c, **r):
        n[0] += 1
        r.update(rid=n[0], ts=n[0])
        steps.append({"step": "Recv", "conn": c, "req": r})
        if rnd.random() < 0.7:
            steps.append({"step": "Tick", "like": c})
            for d in group_of(c):
                steps.append({"step": "Proc", "conn": d})

    def group_of(c):
        return GROUPS[0] if c in GROUPS[0] else GROUPS[1]

    ids = lambda: rnd.choice([1, 1, 2, 2, 3, 4])
    while len(steps) < depth:
        g = rnd.choice(GROUPS)
        c = rnd.choice(g)
        mates = [d for d in g if d != c and joined.get(d)]
        if c == 5:
            # never joins: everything it sends is refused (and ends its connection), it is reopened now and then
            k = rnd.choice(["EntityAdd", "Pose", "Custom", "Sub", "Action", "Open"])
            if k == "Open":
                steps.append({"step": "Open", "conn": 5})
            elif k == "Pose":
                parked(5, k="Pose", eid=ids(), px=3)
            else:
                req(5, **{"EntityAdd": dict(k="EntityAdd", persist=False, flag=0, px=1), "Custom": dict(k="Custom", len=5, dig=n[0], to=[1, 2]),
                          "Sub": dict(k="Sub", tid=1), "Action": dict(k="Action", eid=1, name="x", ats=2, data=1, has=True)}[k])
            continue
        if not joined.get(c):
            x = rnd.random()
            if x < 0.15:
                steps.append({"step": "Open", "conn": c})
            elif mates and x < 0.75:
                req(c, k="Join", like=rnd.choice(mates), sid=0)
                joined[c] = True
            else:
                req(c, k="Join", sid=0)
                joined[c] = True
            continue
        op = rnd.choices(["eadd", "edel", "pose", "custom", "tadd", "sub", "unsub", "cadd", "cupd", "cdel", "list", "action", "asset", "disc", "switch",
                          "follow", "tick", "ping"],
                         [4, 2, 3, 3, 2, 3, 1, 4, 4, 1, 1, 2 if "vikja" in mods else 0, 2 if "odal" in mods else 0, 1, 1, 2 if mates else 0, 2, 1])[0]
        if op == "eadd":
            req(c, k="EntityAdd", persist=rnd.random() < 0.3, flag=rnd.choice([0, 1]), px=rnd.choice([1, 2, 3]))
        elif op == "edel":
            req(c, k="EntityDelete", eid=ids())
        elif op == "pose":
            parked(c, k="Pose", eid=ids(), px=rnd.choice([1, 2, 3, 4, 5]))
        elif op == "custom":
            req(c, k="Custom", len=rnd.choice([1, 5, 10240, 10241]), dig=n[0], to=rnd.choice([[], [], [1, 2], [2, 1, 3], [1, 2, 3, 4]]))
        elif op == "tadd":
            req(c, k="TypeAdd", name=rnd.choice(["a", "b"]))
        elif op == "sub":
            req(c, k="Sub", tid=rnd.choice([1, 1, 2]))
        elif op == "unsub":
            req(c, k="Unsub", tid=rnd.choice([1, 2]))
        elif op == "cadd":
            req(c, k="CompAdd", tid=rnd.choice([1, 1, 2]), eid=ids(), data=rnd.choice([1, 2, 3]))
        elif op == "cupd":
            parked(c, k="CompUpdate", tid=rnd.choice([1, 1, 2]), eid=ids(), data=rnd.choice([0, 1, 2, 3]))
        elif op == "cdel":
            req(c, k="CompDelete", tid=rnd.choice([1, 2]), eid=ids())
        elif op == "list":
            req(c, k="CompList", tid=rnd.choice([1, 2]))
        elif op == "action":
            req(c, k="Action", eid=ids(), name=rnd.choice(["x", "y"]), ats=rnd.choice([1, 2, 2, 3]), data=rnd.choice([0, 1, 2]), has=True)
        elif op == "asset":
            req(c, k="AssetAdd", eid=ids(), asset=rnd.choice(["m", "n"]))
        elif op == "disc":
            steps.append({"step": "Disc", "conn": c, "cause": "close"})
            joined[c] = False
        elif op == "switch":
            req(c, k="Join", sid=0)
        elif op == "follow":
            req(c, k="Join", like=rnd.choice(mates), sid=0)
        elif op == "tick":
            steps.append({"step": "Tick", "like": c})
            for d in g:
                steps.append({"step": "Proc", "conn": d})
        elif op == "ping":
            req(c, k="Ping")
    for _ in range(2):
        for g in GROUPS:
            for c in g:
                steps.append({"step": "Tick", "like": c})
            for c in g:
                for _ in range(3):
                    steps.append({"step": "Proc", "conn": c})
    # autoflush: at most one parked update per connection at a time (the flush order of several is Go map order)
    return {"hid": hid, "config": {"mods": mods, "flags": [], "autoflush": True}, "steps": steps}


def owner(step):
    return step["like"] if "like" in step and step["step"] == "Tick" else step.get("conn")


def restrict(h, group, tag):
    return dict(hid=h["hid"] + tag, config=h["config"], steps=[s for s in h["steps"] if owner(s) in group])


def norm_msg(m):
    m = dict(m)
    if m.get("t") == "JOIN_RESPONSE":
        m["sid"] = 0
        m["uuid"] = 0
    return m


SESS_KEYS = ("pcur", "ecur", "tcur", "acur", "mem", "ents", "types", "names", "comps", "subs", "acts", "assets", "fh", "ticking", "mods")


def view(rec, group):
    """what the differential compares for one record: the return, what each member of the group was sent, the group's
    connection rows and the records of the sessions its members are in (ids of sessions stripped)"""
    post = rec["post"]
    conns = {c["c"]: c for c in post["conns"]}
    outs = {c: [norm_msg(m) for m in ms] for c, ms in rec["out"]}
    sess_by_sid = {s["sid"]: s for s in post["sess"]}
    mine = []
    for c in group:
        row = conns.get(c, {})
        mine.append([c, row.get("life"), row.get("pid", 0), row.get("own", []), row.get("q"), row.get("pp"), row.get("pc"), 1 if row.get("sid") else 0,
                     1 if row.get("orphan") else 0])
    sess = []
    for sid in sorted({conns[c]["sid"] for c in group if c in conns and conns[c].get("sid")}):
        s = sess_by_sid.get(sid)
        sess.append(None if s is None else {k: s.get(k) for k in SESS_KEYS})
    sess.sort(key=lambda x: json.dumps(x, sort_keys=True))
    return dict(ret=rec["ret"], out={c: outs.get(c, []) for c in group}, conns=mine, sess=sess)


def stage(work, tier, seed):
    rnd = random.Random(seed * 31 + 7)
    n = 60 if tier == "quick" else 600
    mods = relay_check.ALLMODS
    hs = [gen_iso(rnd, "iso%d-%d" % (seed, i), mods, rnd.choice([60, 90, 120])) for i in range(n)]
    full = relay_check.run_l1(work, hs, "iso-full")
    fails, steps = [], 0
    leaks = 0
    for gi, group in enumerate(GROUPS):
        part = relay_check.run_l1(work, [restrict(h, group, "|g%d" % gi) for h in hs], "iso-g%d" % gi)
        fr = {}
        cur = None
        for r in read_ndjson(full):
            if r.get("k") == "reset":
                cur = r["hid"]
                fr[cur] = []
            elif r.get("k") == "step":
                fr[cur].append(r)
        cur, idx = None, {}
        pr = {}
        for r in read_ndjson(part):
            if r.get("k") == "reset":
                cur = r["hid"].split("|")[0]
                pr[cur] = []
            elif r.get("k") == "step":
                pr[cur].append(r)
        by = {h["hid"]: h for h in hs}
        for hid, recs in fr.items():
            h = by[hid]
            # (the harness adds records of its own, e.g. the departure after a handler error: ownership is read off the record)
            own = lambda rec: rec.get("like") if rec["step"] == "Tick" else rec.get("conn")
            mine = [rec for rec in recs if own(rec) in group]
            others = [rec for rec in recs if own(rec) not in group]
            # (a) nothing the other group does reaches this group
            for rec in others:
                for c, ms in rec["out"]:
                    if c in group and ms:
                        leaks += 1
                        fails.append(dict(hid=hid, sig=dict(inv="noninterference", what="message caused by the other group", step=rec["step"],
                                                             kind=(rec.get("popped") or rec.get("req") or {}).get("k", "none")),
                                          rec=dict(i=rec["i"], to=c, msgs=ms[:3]), history=h))
                        break
            # (b) this group's own steps look the same with and without the other group
            alone = pr.get(hid, [])
            if len(alone) != len(mine):
                raise relay_check.Inconclusive("differential: %s has %d steps of group %d in the full run and %d alone" % (hid, len(mine), gi, len(alone)))
            for a, b in zip(mine, alone):
                steps += 1
                va, vb = view(a, group), view(b, group)
                if va != vb:
                    diff = [k for k in va if va[k] != vb[k]]
                    fails.append(dict(hid=hid, sig=dict(inv="noninterference", what="differs without the other group: " + ",".join(diff), step=a["step"],
                                                         kind=(a.get("popped") or a.get("req") or {}).get("k", "none")),
                                      rec=dict(i=a["i"], with_others={k: va[k] for k in diff}, alone={k: vb[k] for k in diff}), history=h))
                    break
    return dict(fails=fails, histories=len(hs), compared_steps=steps)
