"""Shared machinery of /verif/bin/check: scratch directory, overlay + harness
build, TLC invocation, evidence, known findings, verdict plumbing."""
import json, os, re, shutil, subprocess, sys, tempfile, time, glob, hashlib

VERIF = os.path.dirname(os.path.dirname(os.path.abspath(__file__)))
REPO = os.environ.get("VERIF_REPO", "/repo")
# where evidence/ and replays/ are written: /verif, unless a seeded-change run redirects them (tools/seeded.py)
OUT = os.environ.get("VERIF_OUT")
SPEC = os.path.join(VERIF, "spec")
GOENV = dict(GOFLAGS="-mod=mod", GOPROXY="off", GOSUMDB="off", GOTOOLCHAIN="local")
NCPU = os.cpu_count() or 4


class Inconclusive(Exception):
    """harness / tool failure: exit 2, never a violation"""


def run_group(cmd, cwd, env, timeout, logp):
    """run a command in its own process group with the output in a file; on a timeout the whole group is killed
    (`tlc` is a wrapper script around the JVM).  Returns (exit status or -9, output)"""
    with open(logp, "w") as lf:
        pr = subprocess.Popen(cmd, cwd=cwd, env=env, stdout=lf, stderr=subprocess.STDOUT, start_new_session=True)
        try:
            rc = pr.wait(timeout=timeout)
        except subprocess.TimeoutExpired:
            try:
                os.killpg(pr.pid, 9)
            except ProcessLookupError:
                pass
            pr.wait()
            rc = -999          # timeout (a plain -9 is a kill from outside, e.g. the kernel's out-of-memory killer)
    return rc, open(logp, errors="replace").read()


class Work:
    def __init__(self, prop, tier):
        self.prop, self.tier = prop, tier
        self.seed = int(os.environ.get("VERIF_SEED", "1") or 1)
        self.t0 = time.time()
        base = os.environ.get("VERIF_SCRATCH") or tempfile.gettempdir()
        self.dir = tempfile.mkdtemp(prefix="verif-%s-" % prop, dir=base)
        self.keep = bool(os.environ.get("VERIF_KEEP"))
        self.notes = []
        self.harness = None

    def path(self, *a):
        p = os.path.join(self.dir, *a)
        os.makedirs(os.path.dirname(p), exist_ok=True)
        return p

    def cleanup(self):
        if not self.keep:
            shutil.rmtree(self.dir, ignore_errors=True)

    def log(self, msg):
        sys.stderr.write("[%s %s %5.1fs] %s\n" % (self.prop, self.tier, time.time() - self.t0, msg))
        sys.stderr.flush()

    # ---- build -----------------------------------------------------------
    def build_harness(self):
        if self.harness:
            return self.harness
        ov = self.path("ov", "x")[:-2]
        r = subprocess.run([sys.executable, os.path.join(VERIF, "tools", "mkoverlay.py"), REPO, ov],
                           capture_output=True, text=True)
        if r.returncode != 0:
            raise Inconclusive("overlay generation failed: " + r.stderr.strip())
        env = dict(os.environ, **GOENV)
        # the harness module is built from a scratch copy: its go.mod points at the tree under test
        # (VERIF_REPO, default /repo) and nothing under /verif is written at check time
        hdir = self.path("hsrc", "x")[:-2]
        src = os.path.join(VERIF, "harness")
        for f in os.listdir(src):
            if f.endswith(".go"):
                shutil.copy(os.path.join(src, f), hdir)
        gm = open(os.path.join(src, "go.mod")).read()
        gm, n = re.subn(r"(?m)^(replace github.com/aukilabs/hagall => ).*$", lambda m: m.group(1) + os.path.abspath(REPO), gm)
        if n != 1:
            raise Inconclusive("harness/go.mod: replace directive not found")
        with open(os.path.join(hdir, "go.mod"), "w") as f:
            f.write(gm)
        shutil.copy(os.path.join(REPO, "go.sum"), os.path.join(hdir, "go.sum"))
        out = self.path("bin", "harness")
        cmd = ["go", "build", "-tags", "verif", "-overlay", os.path.join(ov, "overlay.json"), "-o", out, "."]
        if os.environ.get("VERIF_COVER"):
            # development aid (tools/coverage.sh): statement coverage of the hagall packages by what a check executes.
            # `go build -cover` does not see files that exist only in an overlay, so the overlay is applied to a copy.
            rc = self.path("covrepo", "x")[:-2]
            subprocess.run(["rsync", "-a", "--exclude", ".git", REPO.rstrip("/") + "/", rc + "/"], check=True)
            subprocess.run("cp -r %s/src/* %s/" % (ov, rc), shell=True, check=True)
            with open(os.path.join(hdir, "go.mod"), "w") as f:
                f.write(re.sub(r"(?m)^(replace github.com/aukilabs/hagall => ).*$", lambda m: m.group(1) + rc, gm))
            cmd = ["go", "build", "-cover", "-coverpkg=verif/harness,github.com/aukilabs/hagall/...", "-tags", "verif", "-o", out, "."]
        r = subprocess.run(cmd, cwd=hdir, env=env, capture_output=True, text=True)
        if r.returncode != 0:
            raise Inconclusive("harness build failed (the tree under test does not compile with the verif overlay):\n" + r.stderr[-3000:])
        self.overlay = os.path.join(ov, "overlay.json")
        self.hsrc = hdir
        self.harness = out
        self.log("harness built")
        return out

    def run_harness(self, args, timeout=600, env=None):
        h = self.build_harness()
        e = dict(os.environ)
        if env:
            e.update(env)
        if os.environ.get("VERIF_COVER"):
            os.makedirs(os.environ["VERIF_COVER"], exist_ok=True)
            e["GOCOVERDIR"] = os.environ["VERIF_COVER"]
        r = subprocess.run([h] + args, capture_output=True, text=True, timeout=timeout, env=e)
        if r.returncode != 0:
            raise Inconclusive("harness %s failed (exit %d): %s" % (args[0], r.returncode, (r.stderr or r.stdout)[-2000:]))
        return r.stdout

    # ---- TLC -------------------------------------------------------------
    def spec_dir(self, name):
        d = self.path("spec-" + name, "x")[:-2]
        for f in glob.glob(os.path.join(SPEC, "*.tla")):
            shutil.copy(f, d)
        return d

    def tlc(self, name, module, cfg_text, workers=1, timeout=900, env=None, extra=None, deque=False, dump=True):
        """run TLC in a scratch copy of the spec dir; returns a result dict"""
        d = self.spec_dir(name)
        with open(os.path.join(d, name + ".cfg"), "w") as f:
            f.write(cfg_text)
        e = dict(os.environ)
        if env:
            e.update(env)
        if deque:
            e["JAVA_TOOL_OPTIONS"] = (e.get("JAVA_TOOL_OPTIONS", "") + " -Dtlc2.tool.queue.IStateQueue=StateDeque").strip()
        # the JVM's default maximum heap is a quarter of the machine for EVERY TLC; trace validations run 16 at a time
        if "-Xmx" not in e.get("JAVA_TOOL_OPTIONS", ""):
            e["JAVA_TOOL_OPTIONS"] = (e.get("JAVA_TOOL_OPTIONS", "") + (" -Xmx3g" if workers == 1 else " -Xmx16g")).strip()
        cmd = ["tlc", "-workers", str(workers), "-metadir", os.path.join(d, "meta"), "-config", name + ".cfg"]
        ce = os.path.join(d, "ce.json")
        if dump:
            cmd += ["-dumpTrace", "json", ce]
        cmd += (extra or []) + [module + ".tla"]
        t0 = time.time()
        rc, out = run_group(cmd, d, e, timeout, os.path.join(d, "tlc.log"))
        res = dict(name=name, rc=rc, wall=time.time() - t0, dir=d, log=os.path.join(d, "tlc.log"), ce=ce if os.path.exists(ce) else None,
                   timeout=(rc == -999))
        if rc < 0 and rc != -999:
            res["error"] = "TLC was killed by signal %d (out of memory?)" % (-rc)
        m = re.search(r"(\d+) states generated, (\d+) distinct states found, (\d+) states left", out)
        if m:
            res.update(generated=int(m.group(1)), distinct=int(m.group(2)), left=int(m.group(3)))
        m = re.search(r"Error: Invariant (\S+) is violated", out)
        if m:
            res["violated"] = m.group(1)
        m = re.search(r"Error: Action property (\S+) is violated", out)
        if m:
            res["violated"] = m.group(1)
        m = re.search(r"Error: Temporal propert(?:ies were|y \S+ was) violated", out)
        if m:
            res["violated"] = "temporal"
        if "violated" not in res and re.search(r"^Error: (?!Postcondition)", out, re.M) and not res["timeout"]:
            mm = re.search(r"^Error: (.*(?:\n(?!Error).*){0,6})", out, re.M)
            res["error"] = mm.group(1)[:1500] if mm else "unknown TLC error"
        res["finished"] = "Model checking completed" in out or "Finished in" in out
        return res


# ---- evidence / verdicts ---------------------------------------------------
def write_evidence(work, level, coverage, assumptions, violations=0, extra=None):
    ev = dict(property_id=work.prop, tier=work.tier, seed=work.seed, level=level, coverage=coverage,
              assumptions=assumptions, wall_s=round(time.time() - work.t0, 2), violations=violations)
    if extra:
        ev.update(extra)
    base = OUT or VERIF
    os.makedirs(os.path.join(base, "evidence"), exist_ok=True)
    tmp = os.path.join(base, "evidence", work.prop + ".json.tmp")
    with open(tmp, "w") as f:
        json.dump(ev, f, indent=1, sort_keys=True, default=str)
    os.replace(tmp, os.path.join(base, "evidence", work.prop + ".json"))


def load_known():
    p = os.path.join(VERIF, "known_findings.json")
    if not os.path.exists(p):
        return dict(open=[], fixed=[])
    return json.load(open(p))


def known_match(prop, signature):
    """an open finding whose signature matches (all its signature items are contained)"""
    for k in load_known().get("open", []):
        if k.get("property") != prop:
            continue
        sig = k.get("signature", {})
        if all(signature.get(a) == b for a, b in sig.items()):
            return k
    return None


def save_replay(prop, name, obj_lines):
    d = os.path.join(OUT or VERIF, "replays")
    os.makedirs(d, exist_ok=True)
    p = os.path.join(d, "%s-%s.ndjson" % (prop, re.sub(r"[^A-Za-z0-9_.-]", "_", name)))
    with open(p, "w") as f:
        for o in obj_lines:
            f.write(json.dumps(o) + "\n")
    return p


def read_ndjson(path):
    out = []
    with open(path) as f:
        for line in f:
            line = line.strip()
            if line:
                out.append(json.loads(line))
    return out


def write_ndjson(path, objs):
    with open(path, "w") as f:
        for o in objs:
            f.write(json.dumps(o) + "\n")


def cfg_set(xs):
    def one(x):
        if isinstance(x, str):
            return '"%s"' % x
        if isinstance(x, bool):
            return "TRUE" if x else "FALSE"
        return str(x)
    return "{" + ", ".join(one(x) for x in xs) + "}"
