#!/usr/bin/env python3
"""Regenerate /verif/MANIFEST.json from the table below (kept valid at all times)."""
import json, os
V = os.path.dirname(os.path.dirname(os.path.abspath(__file__)))

RELAY_NOTE = ("Trusted: TLC + CommunityModules, the Go toolchain, the harness projection/concretisation code, the overlay generator. "
              "Exhaustive TLC runs are bounded by tools/relay_cfg.py; larger instances are covered by TLC-generated and seeded histories "
              "replayed on the real handlers (level L1: handler.handleMessage without sockets) and validated by TLC step by step.")

CHECKS = {
 "C01": ("model_checking", "RelayMC exhaustive (families core/comps/mods): client replicas rebuilt in TLA+ from the emitted messages equal the server state after every step, for every reachable transition; the same predicate (Ok_C01) is evaluated by TLC on every step of recorded executions of the real code (views rebuilt from the logged messages, compared with the logged authoritative state; join snapshots; inapplicable broadcasts). Lock grain: RelayConc.tla (every Lock/RLock call of the join/leave/entity/vikja paths is a program location) explored exhaustively by TLC; behaviours generated from it are forced step by step on the real handlers (cooperative scheduler, harness l1m) and random schedules of the real handlers are validated by RelayConcTrace (every decision a step of the specification, state and outputs equal at the end of every phase; L_* invariants judge the logged execution). ConvUnlessKnown: convergence at rest fails only in the listed ways (known findings D9, D15-D18), each with a TLC witness schedule that is forced on the real handlers on every run.", "5 C01",
         "TLA+ spec (Relay/RelayProps) + TLC exhaustive + trace validation of real-code L1 traces"),
 "C02": ("model_checking", "Observational predicate Ok_C02: per recipient, the relays of a step equal exactly one relay per accepted change, none to the actor, none outside the session, none for refusals - checked on every transition of RelayMC and on every step of recorded real executions. Lock grain: RelayConc.tla (every Lock/RLock call of the join/leave/entity/vikja paths is a program location) explored exhaustively by TLC; behaviours generated from it are forced step by step on the real handlers (cooperative scheduler, harness l1m) and random schedules of the real handlers are validated by RelayConcTrace (every decision a step of the specification, state and outputs equal at the end of every phase; L_* invariants judge the logged execution). L_RelayOnce: members that stay in the session throughout a phase get every accepted change of the others exactly once.", "5 C02",
         "TLA+ action property + TLC trace validation of real-code traces"),
 "C03": ("model_checking", "Local-respect unwinding condition Ok_C03 (a step changes and reaches only the sessions the actor is in) on every transition of the model (2 sessions, coinciding ids, id reuse) and on every step of multi-session real executions. The state invariant isolation rests on (a member's session is the one registered under its id) is also evaluated after the id-reuse blocks of the schedules stage.", "5 C03",
         "TLA+ unwinding conditions + TLC trace validation"),
 "C04": ("model_checking", "Decision table of realtime.go/modules as Process sub-actions; Ok_C04 compares the logged response with Step(pre, request) and requires refusals to leave the logged state unchanged; exhaustive over families core/comps/mods/custom and validated on generated + seeded histories covering every request kind; receipt requests are judged on the submissions of the receipt scenarios (ReceiptTrace: exactly one answer, the one Receipt.tla defines).", "5 C04",
         "TLA+ decision table + TLC trace validation"),
 "C05": ("model_checking", "Ok_C05 over logged consecutive states: any disappearance, pose change or asset change of an entity is attributed to the step's actor and must be its owner; issued participant ids are fresh (ghost).", "5 C05",
         "TLA+ action property over logged states + TLC trace validation"),
 "C06": ("model_checking", "Ok_C06: on every departure (disconnect, handler error, switch) the logged session equals LeaveOf(pre) of the specification (the leaver's entities = those whose recorded owner it is) in entities, components, actions, assets, subscriptions, members, and the remaining members get exactly the specified relays; NoDangling on every state.", "5 C06",
         "TLA+ LeaveOf + TLC trace validation"),
 "C07": ("model_checking", "Sequential clauses: registry = non-empty sessions, gauge = |registry|, join success => member of the session found under the returned id, reused id => fresh uuid and empty record, no ended session keeps a running frame worker (virtual ticker). Schedules clause: see C07 notes in DESIGN.md. Lock grain: RelayConc.tla (every Lock/RLock call of the join/leave/entity/vikja paths is a program location) explored exhaustively by TLC; behaviours generated from it are forced step by step on the real handlers (cooperative scheduler, harness l1m) and random schedules of the real handlers are validated by RelayConcTrace (every decision a step of the specification, state and outputs equal at the end of every phase; L_* invariants judge the logged execution). Frame workers: sessions created and ended under four scheduling patterns leave no goroutine inside StartDispatchFrames.", "5 C07",
         "TLA+ invariants + TLC trace validation"),
 "C10": ("model_checking", "Ghost sets of ids ever issued per session incarnation; Ok_C10 on every transition of the model (family ids with id reuse) and every step of real executions; id-source sequences exhaustively (IdGen.tla). Lock grain: RelayConc.tla (every Lock/RLock call of the join/leave/entity/vikja paths is a program location) explored exhaustively by TLC; behaviours generated from it are forced step by step on the real handlers (cooperative scheduler, harness l1m) and random schedules of the real handlers are validated by RelayConcTrace (every decision a step of the specification, state and outputs equal at the end of every phase; L_* invariants judge the logged execution).", "5 C10",
         "TLA+ ghosts + TLC exhaustive + trace validation"),
 "C11": ("model_checking", "Recv/Tick/Proc as separate actions; the real hagall-common scheduler and the real frame worker are driven with a virtual ticker; Ok_C11 checks parking/flush/pop against the spec, relay order per observer and entity, no relay outside a processed update, dropped updates without effect. Lock grain: RelayConc.tla (every Lock/RLock call of the join/leave/entity/vikja paths is a program location) explored exhaustively by TLC; behaviours generated from it are forced step by step on the real handlers (cooperative scheduler, harness l1m) and random schedules of the real handlers are validated by RelayConcTrace (every decision a step of the specification, state and outputs equal at the end of every phase; L_* invariants judge the logged execution). L_FrameHandlers: at rest every member has exactly its own frame handler registered.", "5 C11",
         "TLA+ scheduler model + virtual frame ticker + TLC trace validation"),
 "C12": ("model_checking", "Components are a map in the spec; Ok_C12 compares the logged component/type state and the responses with Step(pre, request); update of a missing component relays nothing. Type names and ids stay inverse maps after concurrent registrations (schedules stage, blocks types/components).", "5 C12",
         "TLA+ map model + TLC trace validation"),
 "C13": ("model_checking", "Recipient function of component relays (subscriptions) in the spec; Ok_C13 compares component relays per recipient and the logged subscription state with the spec.", "5 C13",
         "TLA+ recipient function + TLC trace validation"),
 "C14": ("model_checking", "Custom* sub-actions: recipient set, limit 10240, stamping; Ok_C14 per recipient; bodies are seeded bytes identified by SHA-256.", "5 C14",
         "TLA+ recipient logic + TLC trace validation; sampled bodies"),
 "C08": ("model_checking", "ConnLife.tla: handler.Handle with its three goroutines, the disconnect channel, the scheduler queue, context and wait group; TLC checks DisconnectAtMostOnce, ReturnedMeansDisconnected, NeverStuck and the liveness property HandleReturns for all placements of client frames/closes (and refutes the two unrepaired designs). ConnSend.tla: the send path (bounded sendChan, sender with write deadline and drain, Conn.Close under the write lock, a peer relaying under the participant read lock) for a member that stopped reading, reset in the end or never - the code's design accepted, three earlier designs (findings D19, D20, repaired) refuted on every run. FrameFlow.tla: frame worker, scheduler queue and parked updates (the code's design has a deadlock: open finding D11, replayed on the real server; a direct hand-over design is accepted). Wire level (L2): fault class x life point scenarios on the real server over sockets with same-session and other-session witnesses, gauges and goroutine profile; every handler's observed event stream is validated by TLC against ConnLife (ConnTrace, silent steps).", "5 C08",
         "TLA+ connection-grain model + TLC safety/liveness + wire-level trace validation"),
 "C09": ("model_checking", "(A) real handlers under a cooperative scheduler (every Lock/RLock of the hagall packages is a gate, Go RWMutex semantics incl. waiting writers): all interleavings with bounded preemptions of the catalogue blocks and seeded random schedules of blocks of up to 16 connections - no state with unfinished tasks and none enabled; (B) LockSkeleton.tla: lock programs EXTRACTED from executions of the code under test, TLC explores all interleavings of 3-4 handlers for deadlock; (C) lock-discipline table from the specification as a lead generator; (D) wire-level real-thread stress under the Go race detector (named by the property's own quantifier) decides the unsynchronised-access clause. (E) RelayConc.tla with TLC's deadlock check and NoLockLeft; forced and random schedules on the real handlers must not end in a state with unfinished tasks and none enabled.", "5 C09",
         "TLA+ lock skeleton from extracted lock programs + cooperative-scheduler exploration of the real code + race detector"),
 "C15": ("model_checking", "Auth.tla: decision table (secret none/s1/s2 x token class per carrier x bearer prefix x endpoint) with TLC; every row concretised with real JWTs against the real VerifyAuthToken handshake and VerifyAuthTokenHandler middleware mounted like cmd/main.go with a harness-owned inner handler; AuthTrace compares admitted/entered with Admit(row).", "5 C15",
         "TLA+ decision table + concretised rows on the real handshake/middleware"),
 "C19": ("model_checking", "Receipt.tla (bounded queue, non-blocking submit with three answers, verify, forward at most once; safety + liveness with TLC); receipt scenarios on the real HandleReceipt + receipt.ReceiptHandler with an injected small queue and a harness-owned credit-service endpoint (up/slow/down); ReceiptTrace checks answers, iff-forwarding (validity computed independently by the harness), at-most-once, unchanged.", "5 C19",
         "TLA+ queue model + trace validation of real receipt scenarios"),
 "C20": ("model_checking", "Grid.tla: transcription of mergeQuads' four edge loops on integer rectangles, completeness checked by TLC for all rectangle pairs on a lattice; GridTrace: the real RegularGrid after every insertion/join/departure projected exactly to absolute integer cells - Complete, BoundsContain, CountMatches, RegionAll, CentreRay, retention, legality of each step and (single merge) equality with MergeUpdate; Geom: real primitives on an integer lattice vs exact definitions.", "5 C20",
         "TLA+ transcription of the index update + exact integer projection of the real grid + trace validation"),
 "C17": ("model_checking", "FlagsMC: class table of the ten flags over all 2048 subsets (incl. unknown name). Paired runs of the real code: the same history under flag set F and under no flag, merged step by step; Ok_C17 requires equal logged state/result and out_F = FilterSeq(F, out_0) per recipient.", "5 C17",
         "TLA+ class table + paired-run trace validation"),
 "C18": ("model_checking", "Latency.tla exhaustively (all answer orders with unknown/answered/replayed ids and restarts); all short and seeded long scripts on the real code under a virtual clock; LatencyTrace checks protocol steps, refusals, the decoded report, signer recovery flag and integer statistics.", "5 C18",
         "TLA+ protocol model + virtual clock + trace validation"),
 "C16": ("model_checking", "Action/AssetAdd sub-actions; Ok_C16 compares logged vikja/odal state, responses, relays and join snapshots with the spec; timestamps never go back.", "5 C16",
         "TLA+ module model + TLC trace validation"),
}

REASON_TODO = "check under construction in this session (see DESIGN.md section 5); not claimed yet"

def main():
    checks = []
    for pid, (cat, text, ref, tech) in sorted(CHECKS.items()):
        checks.append(dict(property_id=pid, quick_cmd="bin/check %s quick" % pid, thorough_cmd="bin/check %s thorough" % pid,
                           evidence_file="/verif/evidence/%s.json" % pid, replay_cmd_template="bin/check %s quick --replay {path}" % pid,
                           engine="tlc", level_claimed=dict(category=cat, text=text, design_ref="DESIGN.md section " + ref),
                           level_note=RELAY_NOTE, technique=tech))
    na = [dict(property_id="C%02d" % i, reason=REASON_TODO) for i in range(1, 21) if "C%02d" % i not in CHECKS]
    m = dict(version=1,
             setup_cmd="bin/setup",
             hooks=dict(guard="verif",
                        enable="no source commits: tools/mkoverlay.py regenerates a build overlay from the current /repo tree on every check (sync shim, virtual frame ticker and latency clock, */verif_export.go) and the harness is built with `go build -tags verif -overlay <generated>`",
                        baseline_off_cmd="cd /repo && go test -vet=off -count=1 -timeout 25m ./...",
                        source_commits=[], add_only=True),
             engines=[dict(name="tlc", path="/verif/spec", serves_properties=sorted(CHECKS), kind_free_text="TLA+ specification suite checked with TLC 1.8 (exhaustive, simulation, trace validation)"),
                      dict(name="harness", path="/verif/harness", serves_properties=sorted(CHECKS), kind_free_text="Go conformance harness driving the real hagall packages")],
             checks=checks, not_applicable=na,
             notes="fix: commits in /repo repair genuine defects found by these checks; they are listed in known_findings.json (fixed).")
    json.dump(m, open(os.path.join(V, "MANIFEST.json"), "w"), indent=1)

main()
