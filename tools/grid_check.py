"""C20: Grid.tla (transcription of mergeQuads' edge updates, exhaustive over all rectangle pairs; TLC) +
GridTrace: states of the REAL ground-plane index after every insertion / join / departure, projected exactly to
integer cells; Geom: the real primitives on an integer lattice against exact definitions."""
import json, random
from concurrent.futures import ThreadPoolExecutor

from vlib import NCPU, Inconclusive, write_evidence, known_match, save_replay, write_ndjson, read_ndjson


def scenarios(tier, rnd):
    scs = []
    n = 150 if tier == "quick" else 2000
    for i in range(n):
        ops = [dict(op="join", conn=1, sid=0)]
        members = {1}
        away = set()
        # clustered centres so that merges are frequent; growth in every direction
        spread = rnd.choice([16, 40, 120, 400])
        cx0, cz0 = rnd.randint(-200, 200), rnd.randint(-200, 200)
        for j in range(rnd.randint(5, 25)):
            x = rnd.random()
            if x < 0.12:
                c = rnd.randint(2, 4)
                if c in members and len(members) > 1 and rnd.random() < 0.6:
                    ops.append(dict(op="leave", conn=c)); members.discard(c); ops.append(dict(op="open", conn=c))
                elif c in away:
                    ops.append(dict(op="leave", conn=c)); away.discard(c); ops.append(dict(op="open", conn=c))
                elif c not in members:
                    ops.append(dict(op="join", conn=c, sid=1)); members.add(c)
                continue
            if x < 0.22 and len(members) > 1:
                # a member goes to a session of its own on the same connection (its samples there must not land in
                # session 1), or one that is away comes back (its samples must land in session 1 again)
                c = rnd.choice(sorted(members - {1}) or [2])
                if c in members and c != 1:
                    ops.append(dict(op="join", conn=c, sid=0)); members.discard(c); away.add(c)
                    for _ in range(rnd.randint(1, 3)):
                        ops.append(dict(op="quad", conn=c, q=[cx0 + rnd.randint(-spread, spread), cz0 + rnd.randint(-spread, spread), 8, 8, 0]))
                    continue
            if x < 0.26 and away:
                c = rnd.choice(sorted(away))
                ops.append(dict(op="join", conn=c, sid=1)); away.discard(c); members.add(c)
                ops.append(dict(op="quad", conn=c, q=[cx0 + rnd.randint(-spread, spread), cz0 + rnd.randint(-spread, spread), 8, 8, 0]))
                continue
            if x < 0.30 and len(members) > 1 and 1 in members:
                ops.append(dict(op="leave", conn=1)); members.discard(1); ops.append(dict(op="open", conn=1))
                continue
            conn = rnd.choice(sorted(members)) if rnd.random() < 0.93 else rnd.choice([1, 2, 3, 4, 5])
            cx = max(-500, min(500, cx0 + rnd.randint(-spread, spread)))
            cz = max(-500, min(500, cz0 + rnd.randint(-spread, spread)))
            ex, ez = rnd.choice([1, 4, 8, 12, 20, 40, 100]), rnd.choice([1, 4, 8, 12, 20, 40, 100])
            y = rnd.choice([0, 0, 0, 2, 8, 16])
            ops.append(dict(op="quad", conn=conn, q=[cx, cz, ex, ez, y]))
        scs.append(dict(gid="g%d" % i, ops=ops))
    # directed growth: a small plane, then a larger sample at an offset centre, for each direction pair
    k = 0
    for dx in (-1, 0, 1):
        for dz in (-1, 0, 1):
            for big in (60, 108, 200):
                k += 1
                scs.append(dict(gid="grow%d" % k, ops=[dict(op="join", conn=1, sid=0), dict(op="quad", conn=1, q=[40, 40, 8, 8, 0]),
                                                       dict(op="join", conn=2, sid=1),
                                                       dict(op="quad", conn=2, q=[40 + 6 * dx, 40 + 6 * dz, big, big, 0]),
                                                       dict(op="quad", conn=1, q=[40 + 7 * dx, 40 + 7 * dz, big // 2, big, 1]),
                                                       dict(op="leave", conn=1), dict(op="quad", conn=2, q=[40, 40, 4, 4, 0])]))
    return scs


def run(work, tier, replay=None):
    rnd = random.Random(work.seed)
    work.build_harness()
    mc = dict(distinct=0, generated=0)
    if not replay:
        N = 4 if tier == "quick" else 5
        cfg = "SPECIFICATION GSpec\nCONSTANTS\n  N = %d\nINVARIANTS MergeComplete MergeBounded\nCHECK_DEADLOCK FALSE\n" % N
        mc = work.tlc("grid-mc", "Grid", cfg, workers=NCPU, timeout=3000, dump=False)
        if "error" in mc or mc.get("timeout"):
            raise Inconclusive("Grid model check failed: %s" % mc.get("error", "timeout"))
        work.log("Grid.tla: %s rectangle pairs%s" % (mc.get("distinct"), " VIOLATED " + mc["violated"] if "violated" in mc else ""))
    scs = [s for s in read_ndjson(replay) if "ops" in s] if replay else scenarios(tier, rnd)
    k = min(NCPU, max(1, len(scs) // 8))
    parts = [scs[i::k] for i in range(k)]
    fails, st = [], dict(scenarios=len(scs), inserts=0, merges=0, appends=0, max_planes=0, retained_over_joins=0)

    def one(i):
        pin, pout = work.path("grid", "in%d.ndjson" % i), work.path("grid", "out%d.ndjson" % i)
        write_ndjson(pin, parts[i])
        work.run_harness(["grid", "-in", pin, "-out", pout], timeout=2400)
        lines = open(pout).readlines()
        cfg = "SPECIFICATION TSpec\nCONSTANTS\n  N = 1\nINVARIANT Ok_C20\nCHECK_DEADLOCK FALSE\nPOSTCONDITION TraceAccepted\n"
        off, out = 0, []
        while off < len(lines) and len(out) < 20:
            part = pout + ".part"
            open(part, "w").writelines(lines[off:])
            r = work.tlc("grid-tv%d" % i, "GridTrace", cfg, workers=1, timeout=1800, env=dict(VERIF_TRACE=part))
            if "error" in r or r.get("timeout"):
                raise Inconclusive("GridTrace failed: %s" % r.get("error", "timeout"))
            if "violated" not in r:
                break
            ce = json.load(open(r["ce"]))
            last = ce["counterexample"]["state"][-1][1]
            idx = off + last["l"] - 2
            rec = json.loads(lines[idx])
            j = idx
            while j >= 0 and json.loads(lines[j])["op"] != "reset":
                j -= 1
            nxt = idx + 1
            while nxt < len(lines) and json.loads(lines[nxt])["op"] != "reset":
                nxt += 1
            out.append(dict(gid=json.loads(lines[j])["gid"], i=rec.get("i"), op=rec["op"], which="state" if not last["chk"]["state"] else "step"))
            off = nxt
        return out, lines

    with ThreadPoolExecutor(max_workers=k) as ex:
        for out, lines in ex.map(one, range(k)):
            fails += out
            pm = pc = 0
            for ln in lines:
                r = json.loads(ln)
                if r["op"] == "reset":
                    pm = pc = 0
                    continue
                g = r.get("grid", {})
                if g.get("present"):
                    if r["op"] == "quad":
                        st["inserts"] += 1
                        st["merges"] += max(0, g["merges"] - pm)
                        st["appends"] += max(0, g["count"] - pc)
                    if r["op"] == "join" and g["count"] > 0:
                        st["retained_over_joins"] += 1
                    pm, pc = g["merges"], g["count"]
                    st["max_planes"] = max(st["max_planes"], g["count"])
    # primitives
    gp = work.path("grid", "geom.ndjson")
    txt = work.run_harness(["geom", "-out", gp, "-r", "2" if tier == "quick" else "3"], timeout=1200)
    gl = open(gp).readlines()
    gk = min(NCPU, 8)
    gfails = []

    def geo(i):
        part = gp + ".%d" % i
        open(part, "w").writelines(gl[i::gk])
        r = work.tlc("geom-tv%d" % i, "Geom", "SPECIFICATION TSpec\nINVARIANT Ok_Geom\nCHECK_DEADLOCK FALSE\nPOSTCONDITION TraceAccepted\n",
                     workers=1, timeout=1800, env=dict(VERIF_TRACE=part))
        if "error" in r or r.get("timeout"):
            raise Inconclusive("Geom validation failed: %s" % r.get("error", "timeout"))
        if "violated" in r:
            ce = json.load(open(r["ce"]))
            l = ce["counterexample"]["state"][-1][1]["l"]
            return json.loads(open(part).readlines()[l - 2])
        return None

    with ThreadPoolExecutor(max_workers=gk) as ex:
        for g in ex.map(geo, range(gk)):
            if g:
                gfails.append(g)
    work.log("%d grid scenarios (%d insertions: %d appends, %d merges), %d failing; %d primitive evaluations, %d failing" % (
        len(scs), st["inserts"], st["appends"], st["merges"], len(fails), len(gl), len(gfails)))
    by = {s["gid"]: s for s in scs}
    violations, known, seen = [], [], set()
    for f in fails:
        sig = dict(which=f["which"], op=f["op"])
        key = json.dumps(sig, sort_keys=True)
        kf = known_match("C20", sig)
        if kf:
            known.append(kf)
            continue
        if key in seen:
            continue
        seen.add(key)
        violations.append((sig, "scenario %s step %s" % (f["gid"], f["i"]), save_replay("C20", f["gid"], [by.get(f["gid"], dict(gid=f["gid"]))])))
    for g in gfails:
        sig = dict(which="primitive", op=g["f"])
        key = json.dumps(sig, sort_keys=True)
        if known_match("C20", sig) or key in seen:
            continue
        seen.add(key)
        violations.append((sig, "primitive %s: %s" % (g["f"], json.dumps(g)[:200]), save_replay("C20", "geom-" + g["f"], [g])))
    coverage = dict(states=mc.get("distinct", 0) or 1, transitions=mc.get("generated", 0) or 1, traces_validated_against_impl=len(scs),
                    exercised=st, primitive_evaluations=len(gl), samples=[scs[-1]], failing=fails[:10])
    write_evidence(work, "model_checking", coverage,
                   ["coordinates are multiples of 1/8 m within +-64 m and the footprint cells are computed in float64 from the stored float32 values (exact); 'overlaps' is read as positive-area overlap, duplicates of a plane in one cell are allowed",
                    "the primitives are compared with exact integer definitions on a small lattice only; floating-point tolerance for arbitrary finite vectors is a numeric-accuracy claim outside this technique",
                    "only vertical rays through plane centres are demanded by the property; the slanted-ray traversal is not checked"],
                   violations=len(violations))
    for kf in known:
        print("KNOWN-FINDING: property=C20 %s" % kf.get("what", kf["id"]))
    if mc.get("violated") and not violations:
        raise Inconclusive("TLC refutes %s on Grid.tla" % mc["violated"])
    if violations:
        for sig, msg, path in violations:
            print("VIOLATION property=C20 replay=%s" % path)
            print("  %s: %s" % (json.dumps(sig), msg))
        return 1
    if not replay and (st["merges"] < 100 or st["appends"] < 100 or st["retained_over_joins"] < 20):
        raise Inconclusive("vacuity gate: %s" % st)
    print("OK property=C20 tier=%s: %s rectangle pairs (model); %d scenarios, %d insertions (%d merges) on the real index; %d primitive evaluations" % (
        tier, mc.get("distinct"), len(scs), st["inserts"], st["merges"], len(gl)))
    return 0
