"""Lock-grain stage (RelayConc.tla) of the schedules clauses: C01, C07, C09, C10, C11.

 (A) TLC explores RelayConc exhaustively for a catalogue of programs (a sequential setup, then 2-3 requests issued
     concurrently), with and without the vikja module: the session life-cycle, id, frame-handler and lock invariants,
     deadlock freedom, and "convergence fails only in the listed ways" (ConvUnlessKnown).
 (W) for every listed way (D9, D13, D15, D16) TLC produces a shortest witness; its schedule is forced on the real
     handlers (harness l1m); the recorded execution is validated and must show the same symptom: that is what makes
     the listed finding a fact about the code and prints KNOWN-FINDING.
 (B) specification -> code: random behaviours of RelayConcGen are forced, step by step, on the real handlers;
 (C) code -> specification: random schedules at the full Lock/RLock grain on the real handlers;
     both are validated by RelayConcTrace: every decision must be a step of the specification, the state and the
     outputs at the end of each phase must be the specification's, and the L_* invariants judge the logged execution.
A run that the specification cannot explain is reported as `lost` (conformance), not as a violation; the L_*
invariants still judge it.
"""
import glob, json, os, random, re

import relayconc as rc
from vlib import NCPU, Inconclusive, read_ndjson, write_ndjson

MODEL_INVS = ["NoOrphan", "SidUnique", "SidSource", "Lifecycle", "FrameHandlers", "NoLockLeft", "OwnSane", "ConvUnlessKnown"]
TRACE_INVS = ["L_Lifecycle", "L_FrameHandlers", "L_SidSource", "L_Conv", "L_RelayOnce", "M_Inv"]
# which invariant speaks for which property (a violated invariant is reported under every property that owns it)
OWNER = dict(L_RelayOnce=["C02"], L_Lifecycle=["C07", "C10"], L_FrameHandlers=["C11", "C07"], L_SidSource=["C10", "C07"], L_Conv=["C01"],
             M_Inv=["C07", "C10", "C09"], deadlock=["C09"])
SYMPTOMS = ["D9", "D13", "D15", "D16", "D17", "D18"]
SYMPTOM_NAME = dict(D9="relay_before_snapshot", D13="module_state_split", D15="stale_module_snapshot", D16="relay_for_deleted_entity", D17="older_action_after_newer", D18="action_outlives_entity")


def cfg(spec, vikja, progset, invs, extra=""):
    """vikja: False / True (the vikja module) / "odal" """
    return ("SPECIFICATION %s\nCONSTANTS\n Conns = {1,2,3}\n Vikja = %s\n Odal = %s\n Serial = FALSE\n ProgSet %s\n%s%s" % (
        spec, "TRUE" if vikja is True else "FALSE", "TRUE" if vikja == "odal" else "FALSE", progset,
        ("INVARIANTS " + " ".join(invs) + "\n") if invs else "", extra))


def write_progs(d, progs, gen=False):
    name = "RelayConcGenProgs" if gen else "RelayConcProgs"
    s = rc.mc_module(progs, name)
    if gen:
        s = s.replace("EXTENDS RelayConc", "EXTENDS RelayConcGen")
    with open(os.path.join(d, name + ".tla"), "w") as f:
        f.write(s)
    return name


def tlc_with_progs(work, tag, progs, cfg_text, gen=False, **kw):
    """work.tlc copies spec/*.tla into a scratch dir; the program module is added there first"""
    name = "RelayConcGenProgs" if gen else "RelayConcProgs"
    # work.tlc fills its scratch directory from spec/: the generated program module is added through a hook
    orig = work.spec_dir

    def patched(n):
        dd = orig(n)
        write_progs(dd, progs, gen)
        return dd
    work.spec_dir = patched
    try:
        return work.tlc(tag, name, cfg_text, **kw)
    finally:
        work.spec_dir = orig


def schedule_of_ce(ce_path):
    d = json.load(open(ce_path))["counterexample"]
    st0 = d["state"][0][1]
    prog = {c: [(rc.B if r["k"] == "Barrier" else r) for r in st0["prog"][c - 1]] for c in rc.CONNS}
    sched = [[]]
    for a in d["action"]:
        act = a[1]
        if act["name"] == "Step":
            sched[-1].append(act["context"]["c"])
        elif act["name"] == "Barrier":
            sched.append([])
    return prog, sched


def run_real(work, tag, scenarios):
    """harness l1m in a few processes; returns results by cid"""
    parts = [scenarios[i::NCPU] for i in range(NCPU)]
    from concurrent.futures import ThreadPoolExecutor
    work.build_harness()

    def part(i):
        if not parts[i]:
            return []
        pin, pout = work.path("l1m-" + tag, "in%d.ndjson" % i), work.path("l1m-" + tag, "out%d.ndjson" % i)
        write_ndjson(pin, parts[i])
        work.run_harness(["l1m", "-in", pin, "-out", pout], timeout=1800)
        return read_ndjson(pout)
    res = {}
    with ThreadPoolExecutor(max_workers=NCPU) as ex:
        for rs in ex.map(part, range(NCPU)):
            for r in rs:
                res[r["cid"]] = r
    return res


def events_of(prog, result):
    ev, bad = rc.trace_of(prog, result)
    if ev is None:
        return None, bad
    cid = result["cid"]
    split = 0
    known_uuid = set()
    for e in ev:
        e["cid"] = cid
    # D13 evidence from the labels: SetModuleState executed more often than sessions were created
    i = 0
    for ph in result["phases"]:
        setm = sum(1 for s in ph["sched"] if "SetModuleState" in s)
        new = [s["uuid"] for s in ph["post"]["sess"] if s["uuid"] not in known_uuid]
        known_uuid.update(new)
        split += max(0, setm - len(new))
        ph["_split"] = split
    pi = 0
    for e in ev:
        if e["ev"] == "phase":
            e["setters"] = 2 if result["phases"][pi]["_split"] > 0 else 0
            pi += 1
    return ev, None


def validate(work, tag, vikja, items):
    """items: [(cid, prog, result)] -> dict(explained, lost, diverged{cid: symptoms}, violation)"""
    evs, incomplete = [], []
    bounds = []          # (first event index (1-based), last, cid)
    for cid, prog, res in items:
        ev, bad = events_of(prog, res)
        if ev is None:
            incomplete.append((cid, bad))
            continue
        bounds.append((len(evs) + 1, len(evs) + len(ev), cid))
        evs += ev
    out = dict(explained=set(), lost={}, diverged={}, violation=None, incomplete=incomplete, events=len(evs), runs=len(bounds))
    if not evs:
        return out
    tf = work.path("tv-" + tag, "trace.ndjson")
    write_ndjson(tf, evs)
    r = work.tlc("rct-" + tag, "RelayConcTrace", cfg("TraceSpec", vikja, "= {}", TRACE_INVS, "POSTCONDITION TraceAccepted\nCHECK_DEADLOCK FALSE\n"),
                 workers=1, timeout=1800, env=dict(VERIF_TRACE=tf), dump=True)
    log = open(r["log"]).read()
    if r.get("timeout"):
        raise Inconclusive("RelayConcTrace timed out (%s)" % tag)
    for m in re.finditer(r'<<"EXPLAINED", "([^"]+)">>', log):
        out["explained"].add(m.group(1))
    for m in re.finditer(r'<<"LOST", "([^"]+)", (\d+), "(\w+)">>', log):
        out["lost"].setdefault(m.group(1), (int(m.group(2)), m.group(3)))
    for m in re.finditer(r'<<"DIVERGED", "([^"]+)", (TRUE|FALSE), (TRUE|FALSE), (TRUE|FALSE), (TRUE|FALSE), (TRUE|FALSE), (TRUE|FALSE)>>', log):
        out["diverged"][m.group(1)] = [s for s, v in zip(SYMPTOMS, m.groups()[1:]) if v == "TRUE"]
    for cid in list(out["lost"]):
        if cid in out["explained"]:
            del out["lost"][cid]
    if "violated" in r:
        # which run: the value of l in the last state of the error trace
        ls = re.findall(r"^/\\ l = (\d+)", log, re.M)
        pos = int(ls[-1]) - 1 if ls else -1
        cid = next((c for a, b, c in bounds if a <= pos <= b), None)
        out["violation"] = dict(inv=r["violated"], cid=cid, event=pos, lost=cid in out["lost"])
    elif "error" in r:
        raise Inconclusive("TLC error in RelayConcTrace (%s): %s" % (tag, r["error"]))
    return out


def stage(work, tier, seed, variants=(False, True), witnesses=True):
    rnd = random.Random(seed * 7919 + 13)
    unmod = rc.unmodelled(os.path.join(os.path.dirname(os.path.dirname(os.path.abspath(__file__))), "spec"))
    res = dict(model=[], witnesses={}, fails=[], known=[], lost=[], stats={})
    n_gen = 60 if tier == "quick" else 600
    n_rand = 10 if tier == "quick" else 60          # random schedules per catalogue program
    n_rprog = 40 if tier == "quick" else 400        # random programs

    for vikja in variants:
        vt = "o" if vikja == "odal" else ("v" if vikja else "n")
        cat = rc.catalogue(vikja)
        progs = [p for _, p in cat]
        if tier != "quick":
            progs += [rc.random_prog(rnd, vikja) for _ in range(40)]
        # (A) exhaustive
        r = tlc_with_progs(work, "rcmc-" + vt, progs, cfg("Spec", vikja, "<- TheProgs", MODEL_INVS), workers=NCPU,
                           timeout=1500 if tier == "quick" else 2400)
        if r.get("timeout"):
            raise Inconclusive("exhaustive RelayConc run timed out (vikja=%s)" % vikja)
        if r.get("distinct") is None:
            raise Inconclusive("exhaustive RelayConc run did not complete (vikja=%s): %s" % (vikja, r.get("error", "no statistics in TLC's output")))
        res["model"].append(dict(vikja=vikja, programs=len(progs), distinct=r.get("distinct"), generated=r.get("generated"), wall_s=round(r["wall"], 1),
                                 violated=r.get("violated"), deadlock="Deadlock reached" in open(r["log"]).read()))
        work.log("RelayConc exhaustive vikja=%s: %d programs, %s distinct states, %.0fs%s" % (
            vikja, len(progs), r.get("distinct"), r["wall"], (" VIOLATED " + r["violated"]) if "violated" in r else ""))
        design_ce = []
        if "violated" in r or res["model"][-1]["deadlock"]:
            if not r.get("ce"):
                raise Inconclusive("RelayConc: %s violated but no counterexample was dumped" % r.get("violated"))
            design_ce.append((r.get("violated") or "deadlock", r["ce"]))
        elif "error" in r:
            raise Inconclusive("TLC error in RelayConc: %s" % r["error"])
        # (W) witnesses of the listed ways convergence fails
        wit = []
        for sym in (SYMPTOMS if witnesses else []):
            if sym in ("D13", "D15", "D17", "D18") and not vikja:
                continue
            if sym in ("D13", "D17") and vikja == "odal":
                continue            # (only the owner of an entity can give it an asset: no two writers of one key)
            rr = tlc_with_progs(work, "rcw-%s-%s" % (sym, vt), progs,
                                cfg("Spec", vikja, "<- TheProgs", []) + "INVARIANT W_%s\n" % sym, workers=NCPU, timeout=900)
            if "violated" in rr and rr.get("ce"):
                wit.append((sym, rr["ce"]))
            res["witnesses"]["%s-%s" % (sym, vt)] = bool("violated" in rr)
        # force the witnesses (and any design-level counterexample) on the real handlers
        items, scs, meta = [], [], {}
        for kind, ce in [("witness-" + s, c) for s, c in wit] + [("design-" + k, c) for k, c in design_ce]:
            prog, sched = schedule_of_ce(ce)
            cid = "%s-%s" % (kind, vt)
            scs.append(rc.scenario(cid, prog, vikja, unmod, sched=sched))
            meta[cid] = (prog, sched, kind)
        # (B) generated behaviours
        gd = work.path("rcgen-" + vt, "x")[:-2]
        rg = tlc_with_progs(work, "rcgen-" + vt, progs, cfg("GenSpec", vikja, "<- TheProgs", ["Export"], "CHECK_DEADLOCK FALSE\n"), gen=True,
                            workers=1, timeout=900, env=dict(VERIF_GEN=gd), dump=False,
                            extra=["-simulate", "num=%d" % n_gen, "-depth", "400", "-seed", str(seed + (2 if vikja == "odal" else 1 if vikja else 0))])
        if "error" in rg or "violated" in rg:
            raise Inconclusive("RelayConc behaviour generator failed: %s" % (rg.get("error") or rg.get("violated")))
        gfiles = sorted(glob.glob(os.path.join(gd, "s*.ndjson")))
        if len(gfiles) < n_gen * 0.9:
            raise Inconclusive("RelayConc behaviour generator produced %d of %d behaviours" % (len(gfiles), n_gen))
        for f in gfiles:
            b = read_ndjson(f)[0]
            prog = {c: [(rc.B if q["k"] == "Barrier" else q) for q in b["prog"][c - 1]] for c in rc.CONNS}
            sched = [[]]
            for c in b["sched"]:
                if c == 0:
                    sched.append([])
                else:
                    sched[-1].append(c)
            cid = "gen-%s-%s" % (vt, os.path.basename(f)[:-7])
            scs.append(rc.scenario(cid, prog, vikja, unmod, sched=sched))
            meta[cid] = (prog, sched, "gen")
        # (C) random schedules at the full grain
        k = 0
        for name, prog in cat:
            for i in range(n_rand):
                k += 1
                cid = "rand-%s-%s-%d" % (vt, name, i)
                scs.append(rc.scenario(cid, prog, vikja, unmod, rnd_seed=rnd.randint(1, 10 ** 9)))
                meta[cid] = (prog, None, "rand")
        for i in range(n_rprog):
            prog = rc.random_prog(rnd, vikja)
            cid = "randp-%s-%d" % (vt, i)
            scs.append(rc.scenario(cid, prog, vikja, unmod, rnd_seed=rnd.randint(1, 10 ** 9)))
            meta[cid] = (prog, None, "randp")
        real = run_real(work, vt, scs)
        if len(real) != len(scs):
            raise Inconclusive("harness l1m returned %d of %d scenarios" % (len(real), len(scs)))
        # forced schedules must have been followed
        notfollowed = [cid for cid, r_ in real.items() if meta[cid][1] is not None and any(p.get("off") or p.get("left") for p in r_["phases"])]
        items = [(cid, meta[cid][0], real[cid]) for cid in sorted(real)]
        # deadlocks / stuck tasks on the real handlers
        for cid, prog, r_ in items:
            for ph in r_["phases"]:
                if ph["ret"] != "ok":
                    res["fails"].append(dict(inv="deadlock", cid=cid, scenario=[s for s in scs if s["cid"] == cid][0], note=ph.get("note"), ret=ph["ret"]))
        v = validate(work, vt, vikja, items)
        by = {s["cid"]: s for s in scs}
        while v["violation"]:
            viol = v["violation"]
            res["fails"].append(dict(inv=viol["inv"], cid=viol["cid"], scenario=by.get(viol["cid"]), event=viol["event"], lost=viol["lost"]))
            # validate the rest without the failing run
            items = [it for it in items if it[0] != viol["cid"]]
            if viol["cid"] is None or len(res["fails"]) > 5:
                break
            v2 = validate(work, vt + "-r%d" % len(res["fails"]), vikja, items)
            v2["explained"] |= v["explained"]
            v = v2
        res["lost"] += [dict(cid=c, at=a, kind=meta[c][2]) for c, a in v["lost"].items()]
        res["lost"] += [dict(cid=c, at="schedule not followed", kind=meta[c][2]) for c in notfollowed if c not in v["lost"]]
        for cid, syms in v["diverged"].items():
            res["known"].append(dict(cid=cid, symptoms=syms, kind=meta[cid][2], scenario=by.get(cid)))
        st = res["stats"].setdefault(vt, {})
        st.update(runs=v["runs"], events=v["events"], explained=len(v["explained"]), lost=len(v["lost"]), diverged=len(v["diverged"]),
                  forced_schedules=sum(1 for c in meta if meta[c][1] is not None), forced_not_followed=len(notfollowed),
                  incomplete=len(v["incomplete"]))
        # a design-level counterexample that the real handlers do not reproduce is not a verdict
        for kind, _ in design_ce:
            cid = "design-%s-%s" % (kind, vt)
            if not any(f["cid"] == cid for f in res["fails"]):
                raise Inconclusive("TLC refutes %s on RelayConc but the real handlers, forced through the same schedule, do not show it "
                                   "(the specification is stricter than the code here)" % kind)
        work.log("RelayConc vikja=%s: %d real runs / %d events validated, %d explained, %d lost, %d diverged in a listed way, %d failing%s" % (
            vikja, v["runs"], v["events"], len(v["explained"]), len(v["lost"]), len(v["diverged"]), len(res["fails"]),
            "".join("; incomplete %s: %s %s" % (c, b.get("ret"), b.get("note")) for c, b in v["incomplete"][:3])))
    return res
