"""Schedules clauses (C01, C02, C07, C09, C10): small blocks of concurrent requests are executed on the REAL
handlers under the cooperative scheduler (L1c: every Lock/RLock of the hagall packages is a gate), for every
interleaving with at most P preemptions; each distinct outcome (what every connection was sent, the state at
quiescence, a sequential epilogue with a probe join) is validated by TLC with the block predicates of
RelayProps."""
import json, os
from concurrent.futures import ThreadPoolExecutor

import relay_cfg, relay_check
from vlib import NCPU, Inconclusive, read_ndjson, write_ndjson, known_match, save_replay

ALL = ["vikja", "odal", "dagaz"]


def Rq(c, **req):
    return dict(step="Req", conn=c, req=req)


def B(c, **req):
    return dict(conn=c, req=req)


J = lambda c, sid, n: Rq(c, k="Join", rid=n, sid=sid, ts=n)
BJ = lambda c, sid, n: B(c, k="Join", rid=n, sid=sid, ts=n)
PROBE = [J(6, 1, 90), Rq(6, k="Ping", rid=91)]


def catalogue(tier):
    P = 2 if tier == "quick" else 3
    mx = 1500 if tier == "quick" else 20000
    ent = lambda c, n, persist=False: Rq(c, k="EntityAdd", rid=n, persist=persist, flag=0, px=1, ts=n)
    sc = []
    # --- joins and departures racing on one session / one id (C07, C10)
    sc.append(dict(cid="join_vs_last_leave", props=["C07", "C09", "C10", "C01"], setup=[J(1, 0, 1)],
                   block=[B(1, k="Disc"), BJ(2, 1, 2)], after=PROBE))
    sc.append(dict(cid="two_last_leaves_and_creator", props=["C07", "C09", "C10", "C03"], setup=[J(1, 0, 1), J(2, 1, 2)],
                   block=[B(1, k="Disc"), B(2, k="Disc"), BJ(3, 0, 3)], after=PROBE + [J(5, 0, 93)]))
    sc.append(dict(cid="join_vs_last_leave_and_creator", props=["C07", "C09", "C10", "C03"], setup=[J(1, 0, 1)],
                   block=[B(1, k="Disc"), BJ(2, 1, 2), BJ(3, 0, 3)], after=PROBE + [J(5, 0, 93)]))
    sc.append(dict(cid="two_creates", props=["C07", "C09", "C10"], setup=[],
                   block=[BJ(1, 0, 1), BJ(2, 0, 2)], after=PROBE + [J(5, 2, 92)]))
    sc.append(dict(cid="create_vs_join_by_id", props=["C07", "C09", "C10", "C01"], setup=[],
                   block=[BJ(1, 0, 1), BJ(2, 1, 2)],
                   after=[ent(1, 10), Rq(1, k="Action", rid=11, eid=1, name="x", ats=1, data=1, ts=11),
                          Rq(2, k="Action", rid=12, eid=1, name="y", ats=1, data=1, ts=12),
                          Rq(1, k="AssetAdd", rid=13, eid=1, asset="m", ts=13)] + PROBE))
    sc.append(dict(cid="switch_vs_join", props=["C07", "C09", "C10", "C01", "C02"], setup=[J(1, 0, 1), J(2, 0, 2), ent(1, 3)],
                   block=[BJ(1, 2, 4), BJ(3, 1, 5)], after=PROBE))
    sc.append(dict(cid="last_leave_vs_create_reuse", props=["C07", "C09", "C10", "C03"], setup=[J(1, 0, 1)],
                   block=[B(1, k="Disc"), BJ(2, 0, 2), BJ(3, 0, 3)], after=PROBE))
    # --- snapshot vs change (C01), relays exactly once (C02)
    sc.append(dict(cid="join_vs_entity_delete", props=["C01", "C02", "C09"], setup=[J(1, 0, 1), ent(1, 2), ent(1, 3, True)],
                   block=[B(1, k="EntityDelete", rid=4, eid=1, ts=4), BJ(2, 1, 5)], after=PROBE))
    sc.append(dict(cid="join_vs_entity_add", props=["C01", "C02", "C09", "C10"], setup=[J(1, 0, 1), ent(1, 2)],
                   block=[B(1, k="EntityAdd", rid=4, persist=False, flag=0, px=2, ts=4), BJ(2, 1, 5)], after=PROBE))
    sc.append(dict(cid="two_broadcasters_and_joiner", props=["C01", "C02", "C09", "C10"], setup=[J(1, 0, 1), J(2, 1, 2), ent(1, 3)],
                   block=[B(1, k="EntityAdd", rid=4, persist=False, flag=0, px=2, ts=4), B(2, k="Custom", len=5, dig=7, to=[], ts=5), BJ(3, 1, 6)],
                   after=PROBE))
    sc.append(dict(cid="leave_vs_broadcasts", props=["C01", "C02", "C09"], setup=[J(1, 0, 1), J(2, 1, 2), J(3, 1, 3), ent(3, 4), ent(3, 5, True)],
                   block=[B(3, k="Disc"), B(1, k="EntityAdd", rid=6, persist=False, flag=0, px=2, ts=6), B(2, k="Custom", len=5, dig=8, to=[], ts=7)],
                   after=PROBE))
    sc.append(dict(cid="two_entity_adds_and_delete", props=["C02", "C09", "C10", "C01"], setup=[J(1, 0, 1), J(2, 1, 2), J(3, 1, 3), ent(1, 4)],
                   block=[B(1, k="EntityDelete", rid=5, eid=1, ts=5), B(2, k="EntityAdd", rid=6, persist=False, flag=0, px=2, ts=6),
                          B(3, k="EntityAdd", rid=7, persist=True, flag=1, px=3, ts=7)], after=PROBE))
    sc.append(dict(cid="types_and_components", props=["C09", "C10", "C12"], setup=[J(1, 0, 1), J(2, 1, 2), ent(1, 3)],
                   block=[B(1, k="TypeAdd", rid=4, name="a"), B(2, k="TypeAdd", rid=5, name="a"), B(1, k="TypeAdd", rid=6, name="b")][:2] +
                         [B(3, k="Join", rid=7, sid=1, ts=7)], after=[Rq(1, k="GetId", rid=8, name="a"), Rq(2, k="Sub", rid=9, tid=1),
                                                                    Rq(1, k="CompAdd", rid=10, tid=1, eid=1, data=1, ts=10)] + PROBE))
    sc.append(dict(cid="subscribe_vs_component_add", props=["C09", "C12"], setup=[J(1, 0, 1), J(2, 1, 2), ent(1, 3), Rq(1, k="TypeAdd", rid=4, name="a")],
                   block=[B(2, k="Sub", rid=5, tid=1), B(1, k="CompAdd", rid=6, tid=1, eid=1, data=1, ts=6), B(3, k="Join", rid=7, sid=1, ts=7)],
                   after=PROBE))
    sc.append(dict(cid="assets_and_actions", props=["C09", "C10"], setup=[J(1, 0, 1), J(2, 1, 2), ent(1, 3), ent(2, 4)],
                   block=[B(1, k="AssetAdd", rid=5, eid=1, asset="m", ts=5), B(2, k="AssetAdd", rid=6, eid=2, asset="n", ts=6),
                          B(1, k="Action", rid=7, eid=1, name="x", ats=1, data=1, ts=7)][:2] + [B(3, k="Join", rid=8, sid=1, ts=8)], after=PROBE))
    # --- a reader of an entity (the snapshot a joiner is handed, the relay of an entity add) against a writer of the same entity
    # (a pose update): every lock on the way is a gate, incl. the entity's own mutex (seeded m12-C09: the read lock taken
    # twice by the snapshot - with Go's writer preference the pose update between the two acquisitions blocks both)
    sc.append(dict(cid="pose_vs_join_snapshot", props=["C09"], setup=[J(1, 0, 1), ent(1, 2), ent(1, 3, True), J(2, 1, 4)],
                   block=[B(1, k="Pose", eid=1, px=4, ts=5), BJ(3, 1, 6)], after=PROBE))
    sc.append(dict(cid="poses_vs_join_and_entity_add", props=["C09"], setup=[J(1, 0, 1), ent(1, 2), J(2, 1, 3), ent(2, 4)],
                   block=[B(1, k="Pose", eid=1, px=4, ts=5), B(2, k="Pose", eid=2, px=5, ts=6), BJ(3, 1, 7)], after=PROBE))
    for s in sc:
        s.update(config=dict(mods=ALL, flags=[]), p=P, max=mx)
    return sc


def symptom(blk):
    """what went wrong in a concurrent block, as far as it can be read off the record (used to recognise listed findings)"""
    if blk is None:
        return "none"
    if blk.get("ret") == "deadlock":
        return "deadlock"
    for c, ms in blk.get("out", []):
        seen_relay = False
        for m in ms:
            if m["t"].endswith("_BROADCAST"):
                seen_relay = True
            if m["t"] == "SESSION_STATE" and seen_relay:
                return "relay_before_snapshot"      # D9: the snapshot was assembled before, and sent after, a relay
    setters = {}
    for lab in blk.get("sched") or []:
        t, what = lab.split(":", 1)
        if "SetModuleState" in what:
            setters.setdefault(t, 0)
            setters[t] += 1
    if len(setters) >= 2:
        return "module_state_split"                 # D13: two overlapping joins each created the module states
    if any(c.get("orphan") for c in blk.get("post", {}).get("conns", [])):
        return "orphan"
    return "other"


INVS = {"C07": ["Ok_C07"], "C10": ["Ok_C10"], "C01": ["Ok_C01c", "Ok_C01q"], "C02": ["Ok_C02c"], "C09": ["Ok_C09c"],
        # C03 / C12 are stated over histories; the state invariants they rest on (a member's session is the one found
        # under its id; type names and ids are inverse maps) are also evaluated after concurrent blocks
        "C03": ["Ok_C03c"], "C12": ["Ok_C12c"]}
# (random blocks use up to 16 connections)


def run_conc(work, prop, tier, replay_scenarios=None):
    """returns dict(fails=[...], stats=...)"""
    scs = replay_scenarios or [s for s in catalogue(tier) if prop in s["props"]]
    parts = [scs[i::4] for i in range(4)]
    outs, summaries = [], []

    def part(i):
        if not parts[i]:
            return None
        pin, pout = work.path("l1c", "in%d.ndjson" % i), work.path("l1c", "out%d.ndjson" % i)
        write_ndjson(pin, parts[i])
        txt = work.run_harness(["l1c", "-in", pin, "-out", pout], timeout=3000)
        return pout, [json.loads(l) for l in txt.splitlines() if l.startswith("{")]

    with ThreadPoolExecutor(max_workers=4) as ex:
        for r in ex.map(part, range(4)):
            if r:
                outs.append(r[0])
                summaries += r[1]
    allp = work.path("l1c", "all.ndjson")
    with open(allp, "w") as f:
        for p in outs:
            f.write(open(p).read())
    chunks, n = relay_check.split_trace(allp, NCPU)
    fails = []
    with ThreadPoolExecutor(max_workers=NCPU) as ex:
        futs = [ex.submit(relay_check.validate_chunk, work, ch, INVS[prop], ALL, [], "tvc-%d" % i) for i, ch in enumerate(chunks)]
        for fu in futs:
            fails += fu.result()
    by = {s["cid"]: s for s in scs}
    for fr in fails:
        cid = fr["hid"].split("#")[0]
        fr["sig"]["cid"] = cid
        fr["scenario"] = by.get(cid)
        # symptoms of the whole failing history (its Block record): they identify the listed findings
        lines = open(fr["chunk"]).readlines()
        blk = None
        for ln in lines[max(0, fr["start"]):fr["end"]]:
            r = json.loads(ln)
            if r.get("step") == "Block":
                blk = r
        fr["sig"]["symptom"] = symptom(blk)
        if blk is not None:
            fr["block"] = dict(sched=blk.get("sched"), choices=blk.get("choices"), out=blk.get("out"), rets=blk.get("rets"))
    return dict(fails=fails, summaries=summaries, outcomes=n, scenarios=len(scs), trace=allp)
