#!/bin/sh
# development aid: statement coverage of the hagall packages by the executions of the given checks' quick tier
# usage: tools/coverage.sh C15 C18 C19 C20 ...   -> prints functions below 100 % and the uncovered blocks per file
set -e
export GOFLAGS=-mod=mod GOPROXY=off GOSUMDB=off GOTOOLCHAIN=local
D=$(mktemp -d)
trap 'rm -rf "$D"' EXIT
cd "$(dirname "$0")/.."
for p in "$@"; do
  VERIF_COVER=$D/cd VERIF_OUT=$D/out bin/check $p quick > $D/$p.log 2>&1 || true
  tail -1 $D/$p.log | cut -c1-150
done
cd /repo
go tool covdata textfmt -i=$D/cd -o $D/cover.txt
grep -v "verif/harness\|verif_export\|verifrt\|websocket/testing.go" $D/cover.txt > $D/c2.txt
go tool cover -func=$D/c2.txt | grep -v "100.0%" | awk '{print $NF, $1, $2}' | sort -n
python3 - "$D/c2.txt" <<'PY'
import re,collections,sys
unc=collections.defaultdict(set)
for l in open(sys.argv[1]):
    m=re.match(r"(.*):(\d+)\.\d+,(\d+)\.\d+ (\d+) (\d+)",l)
    if m and int(m.group(5))==0:
        unc[m.group(1).split("hagall/")[-1]].add((int(m.group(2)),int(m.group(3))))
for f,v in sorted(unc.items()):
    print(f, sorted(v))
PY
