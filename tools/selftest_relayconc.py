#!/usr/bin/env python3
"""Binding demonstration for RelayConcTrace: a recorded run of the real handlers is accepted as it is, and
each of these corruptions of the record is noticed:
  drop-relay    one relay removed from what a member was sent        -> L_RelayOnce (and L_Conv) violated
  swap-label    one decision relabelled with another Lock/RLock call -> the run is LOST (conformance)
  drop-step     one decision removed                                 -> LOST
  wrong-state   one participant removed from the logged state        -> LOST, and L_Lifecycle violated
usage: selftest_relayconc.py            (records fresh runs with the harness built from VERIF_REPO or /repo)"""
import copy, json, os, re, sys
sys.path.insert(0, os.path.dirname(os.path.abspath(__file__)))
import vlib, relayconc as rc, relayconc_check as rcc


def main():
    w = vlib.Work("selftest", "quick")
    try:
        unmod = rc.unmodelled(vlib.SPEC)
        cat = dict(rc.catalogue(False))
        prog = cat["two_adders_and_joiner"]
        sc = rc.scenario("base", prog, False, unmod, rnd_seed=5)
        real = rcc.run_real(w, "st", [sc])
        ev, _ = rcc.events_of(prog, real["base"])

        def verdict(tag, evs):
            tf = w.path("st-" + tag, "trace.ndjson")
            vlib.write_ndjson(tf, evs)
            r = w.tlc("st-" + tag, "RelayConcTrace", rcc.cfg("TraceSpec", False, "= {}", rcc.TRACE_INVS, "POSTCONDITION TraceAccepted\nCHECK_DEADLOCK FALSE\n"),
                      workers=1, timeout=300, env=dict(VERIF_TRACE=tf))
            log = open(r["log"]).read()
            return dict(explained='"EXPLAINED"' in log, lost='"LOST"' in log and '"EXPLAINED"' not in log, violated=r.get("violated"))
        res = {"as recorded": verdict("ok", ev)}
        # drop-relay
        e2 = copy.deepcopy(ev)
        done = False
        for e in e2:
            if e["ev"] == "phase" and not done:
                for ci, ms in enumerate(e["douts"]):
                    for i, m in enumerate(ms):
                        if m["t"] == "ENTITY_ADD_BROADCAST" and not done:
                            del ms[i]
                            # the cumulative stream too
                            for j, mm in enumerate(e["outs"][ci]):
                                if mm == m:
                                    del e["outs"][ci][j]
                                    break
                            done = True
                            break
        res["drop-relay"] = verdict("drop", e2)
        e3 = copy.deepcopy(ev)
        k = [i for i, e in enumerate(e3) if e["ev"] == "step" and "AddParticipant" in e["lbl"]][0]
        e3[k]["lbl"] = "(*Session).RemoveParticipant:Lock"
        res["swap-label"] = verdict("swap", e3)
        e4 = [e for i, e in enumerate(copy.deepcopy(ev)) if i != k]
        res["drop-step"] = verdict("dstep", e4)
        e5 = copy.deepcopy(ev)
        last = [e for e in e5 if e["ev"] == "phase"][-1]
        last["sess"][0]["mem"] = last["sess"][0]["mem"][:-1]
        res["wrong-state"] = verdict("state", e5)
        ok = (res["as recorded"]["explained"] and not res["as recorded"]["violated"] and res["drop-relay"]["violated"] in ("L_RelayOnce", "L_Conv")
              and res["swap-label"]["lost"] and res["drop-step"]["lost"] and (res["wrong-state"]["lost"] or res["wrong-state"]["violated"]))
        print(json.dumps(res, indent=1))
        print("selftest", "OK" if ok else "FAILED")
        return 0 if ok else 1
    finally:
        w.cleanup()


if __name__ == "__main__":
    sys.exit(main())
