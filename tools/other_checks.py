import flags_check, latency_check

CHECKS = {
    "C17": flags_check.run,
    "C18": latency_check.run,
}
