import flags_check, latency_check, conn_check, locks_check

CHECKS = {
    "C08": conn_check.run,
    "C09": locks_check.run,
    "C17": flags_check.run,
    "C18": latency_check.run,
}
