CHECKS = {}
