import flags_check, latency_check, conn_check, locks_check, auth_check, receipt_check, grid_check

CHECKS = {
    "C08": conn_check.run,
    "C09": locks_check.run,
    "C15": auth_check.run,
    "C17": flags_check.run,
    "C18": latency_check.run,
    "C19": receipt_check.run,
    "C20": grid_check.run,
}
