import flags_check

CHECKS = {
    "C17": flags_check.run,
}
