"""C19: Receipt.tla (bounded queue, non-blocking submit, verify, forward once; TLC incl. liveness) and receipt
scenarios on the real code: HandleReceipt with a small injected queue, the real receipt.ReceiptHandler worker and a
harness-owned credit-service endpoint (up / slow / down); ReceiptTrace validates answers and what was forwarded.
Validity of a triple is computed by the harness independently of receipt/ (Keccak-256 + Ecrecover of go-ethereum)."""
import json, random
from concurrent.futures import ThreadPoolExecutor

from vlib import NCPU, Inconclusive, write_evidence, known_match, save_replay, write_ndjson, read_ndjson

CLS = ["valid", "hash_flip", "hash_prefixed", "hash_short", "hash_long", "sig_flip", "sig_short", "sig_long", "sig_badv", "sig_v27", "sig_zero",
       "text_changed", "empty_receipt", "empty_hash", "empty_sig"]


def scenarios(tier, rnd):
    scs = []
    n = 60 if tier == "quick" else 600
    for i in range(n):
        q = rnd.choice([1, 2, 3, 4])
        mode = rnd.choice(["up", "up", "slow", "down", "lost"]) if i % 10 else "up"
        ops = []
        started = False
        for j in range(rnd.randint(4, 16)):
            x = rnd.random()
            if x < 0.12 and not started:
                ops.append(dict(op="worker"))
                ops.append(dict(op="drain"))       # what was queued before is consumed before the next submission
                started = True
            elif x < 0.25 and started:
                ops.append(dict(op="drain"))
            else:
                cls = rnd.choice(CLS) if rnd.random() < 0.6 else "valid"
                ops.append(dict(op="submit", conn=rnd.randint(1, 4), cls=cls))
                if started:
                    ops.append(dict(op="drain"))     # the worker is running: wait for it so that the queue length is known
        if not started:
            ops.append(dict(op="worker"))
        ops.append(dict(op="drain"))
        scs.append(dict(rid="rc%d" % i, q=q, mode=mode, ops=ops))
    scs.append(dict(rid="lost-reply", q=3, mode="lost", ops=[dict(op="worker"), dict(op="submit", conn=1, cls="valid"), dict(op="drain"),
                                                             dict(op="submit", conn=2, cls="valid"), dict(op="submit", conn=1, cls="hash_flip"), dict(op="drain")]))
    # every class once, alone, with the service up
    for c in CLS:
        scs.append(dict(rid="one-" + c, q=2, mode="up", ops=[dict(op="worker"), dict(op="submit", conn=1, cls=c), dict(op="drain")]))
    return scs


def run_scenarios(work, scs):
    """the scenarios on the real handlers (harness `receipt`), every record validated by ReceiptTrace; returns (fails, stats)"""
    k = min(8, len(scs))
    parts = [scs[i::k] for i in range(k)]
    fails, stats = [], dict(submits=0, accepted=0, too_busy=0, bad_request=0, forwarded=0, invalid_accepted=0)

    def one(i):
        pin, pout = work.path("rc", "in%d.ndjson" % i), work.path("rc", "out%d.ndjson" % i)
        write_ndjson(pin, parts[i])
        work.run_harness(["receipt", "-in", pin, "-out", pout], timeout=2400)
        lines = open(pout).readlines()
        cfg = "SPECIFICATION TSpec\nINVARIANT Ok_C19\nCHECK_DEADLOCK FALSE\nPOSTCONDITION TraceAccepted\n"
        off, out = 0, []
        while off < len(lines) and len(out) < 20:
            part = pout + ".part"
            open(part, "w").writelines(lines[off:])
            r = work.tlc("rc-tv%d" % i, "ReceiptTrace", cfg, workers=1, timeout=1800, env=dict(VERIF_TRACE=part))
            if "error" in r or r.get("timeout"):
                raise Inconclusive("ReceiptTrace failed: %s" % r.get("error", "timeout"))
            if "violated" not in r:
                break
            ce = json.load(open(r["ce"]))
            l = ce["counterexample"]["state"][-1][1]["l"]
            idx = off + l - 2
            rec = json.loads(lines[idx])
            j = idx
            while j >= 0 and json.loads(lines[j])["op"] != "reset":
                j -= 1
            rid = json.loads(lines[j])["rid"]
            nxt = idx + 1
            while nxt < len(lines) and json.loads(lines[nxt])["op"] != "reset":
                nxt += 1
            # the submissions of this scenario, to name the class involved
            sub = [json.loads(x) for x in lines[j:nxt] if json.loads(x)["op"] == "submit"]
            out.append(dict(rid=rid, rec=rec, submits=sub))
            off = nxt
        return out, lines

    with ThreadPoolExecutor(max_workers=k) as ex:
        for out, lines in ex.map(one, range(k)):
            fails += out
            for ln in lines:
                r = json.loads(ln)
                if r["op"] == "submit":
                    stats["submits"] += 1
                    stats[r["resp"]] = stats.get(r["resp"], 0) + 1
                    if r["resp"] == "accepted" and not r["valid"]:
                        stats["invalid_accepted"] += 1
                if r["op"] == "drain":
                    stats["forwarded"] += len(r["forwarded"])
    return fails, stats


def run(work, tier, replay=None):
    rnd = random.Random(work.seed)
    work.build_harness()
    mc_tot = dict(distinct=0, generated=0, violated=None)
    if not replay:
        for q, npl in ((1, 3), (2, 3)) if tier == "quick" else ((1, 3), (2, 4), (3, 4)):
            pl = list(range(1, npl + 1))
            cfg = ("SPECIFICATION RSpec\nCONSTANTS\n  Q = %d\n  Payloads = {%s}\n  ValidP = {%s}\n  EmptyP = {%s}\n  RetryOnError = FALSE\n"
                   "INVARIANTS AtMostOnce OnlyAccepted QueueBounded OneAnswer\nPROPERTY EventuallyForwarded\nCHECK_DEADLOCK FALSE\n" % (
                       q, ",".join(map(str, pl)), ",".join(map(str, pl[:2])), str(pl[-1])))
            r = work.tlc("receipt-mc-%d" % q, "Receipt", cfg, workers=4, timeout=1200, dump=False)
            if "error" in r or r.get("timeout"):
                raise Inconclusive("Receipt model check failed: %s" % r.get("error", "timeout"))
            mc_tot["distinct"] += r.get("distinct", 0)
            mc_tot["generated"] += r.get("generated", 0)
            mc_tot["violated"] = mc_tot["violated"] or r.get("violated")
        # sensitivity: the design that posts again after a transport error must be refuted (a lost answer is not a lost receipt)
        cfgr = ("SPECIFICATION RSpec\nCONSTANTS\n  Q = 1\n  Payloads = {1,2}\n  ValidP = {1}\n  EmptyP = {2}\n  RetryOnError = TRUE\n"
                "INVARIANTS AtMostOnce\nCHECK_DEADLOCK FALSE\n")
        rr = work.tlc("receipt-retry", "Receipt", cfgr, workers=2, timeout=300, dump=False)
        if rr.get("violated") != "AtMostOnce":
            raise Inconclusive("Receipt.tla no longer refutes the retry-on-error design (AtMostOnce)")
        work.log("Receipt.tla: %d distinct states%s; retry-on-error design refuted" % (mc_tot["distinct"], " VIOLATED " + str(mc_tot["violated"]) if mc_tot["violated"] else ""))
    scs = [s for s in read_ndjson(replay) if "ops" in s] if replay else scenarios(tier, rnd)
    fails, stats = run_scenarios(work, scs)
    by = {s["rid"]: s for s in scs}
    violations, known, seen = [], [], set()
    for f in fails:
        rec = f["rec"]
        if rec["op"] == "submit":
            sig = dict(op="submit", cls=rec["cls"], resp=rec["resp"])
        else:
            bad = sorted({s["cls"] for s in f["submits"] if not s["valid"] and s["resp"] == "accepted" and [s["pid"], True] in rec["forwarded"]})
            sig = dict(op="drain", forwarded_invalid=bad, n=len(rec["forwarded"]))
        key = json.dumps(sig, sort_keys=True)
        kf = known_match("C19", sig)
        if kf:
            known.append(kf)
            continue
        if key in seen:
            continue
        seen.add(key)
        violations.append((f, sig, save_replay("C19", f["rid"], [by.get(f["rid"], dict(rid=f["rid"]))])))
    coverage = dict(states=mc_tot["distinct"] or 1, transitions=mc_tot["generated"] or 1, traces_validated_against_impl=len(scs),
                    exercised=stats, classes=CLS, samples=[scs[0]], failing=[dict(rid=f["rid"], rec=f["rec"]) for f in fails][:10])
    write_evidence(work, "model_checking", coverage,
                   ["Keccak-256 and Ecrecover of go-ethereum are trusted (the oracle uses them independently of receipt/)",
                    "'all receipt texts, hashes and signatures' is sampled per corruption class of a valid triple",
                    "the queue capacity is scaled down (1..4 instead of 128); forwarding is observed at a harness-owned HTTP endpoint"],
                   violations=len(violations))
    for kf in known:
        print("KNOWN-FINDING: property=C19 %s" % kf.get("what", kf["id"]))
    if mc_tot["violated"] and not violations:
        raise Inconclusive("TLC refutes %s on Receipt.tla" % mc_tot["violated"])
    if violations:
        for f, sig, path in violations:
            print("VIOLATION property=C19 replay=%s" % path)
            print("  scenario %s: %s -> %s" % (f["rid"], json.dumps(sig), json.dumps(f["rec"])[:300]))
        return 1
    if not replay and (stats["forwarded"] < 20 or stats.get("too_busy", 0) < 5 or stats["invalid_accepted"] < 10):
        raise Inconclusive("vacuity gate: %s" % stats)
    print("OK property=C19 tier=%s: %d model states; %d scenarios, %d submissions (%d too busy, %d bad request), %d forwarded" % (
        tier, mc_tot["distinct"], len(scs), stats["submits"], stats.get("too_busy", 0), stats.get("bad_request", 0), stats["forwarded"]))
    return 0


def answer_stage(work, tier):
    """C04's view of receipts: every receipt request is answered exactly once, with the answer the protocol defines (the
    submissions of a few scenarios, each record judged by ReceiptTrace's Ok_C19, which contains that clause)"""
    rnd = random.Random(work.seed + 4)
    scs = scenarios("quick", rnd)
    scs = scs[:24] if tier == "quick" else scs
    fails, stats = run_scenarios(work, scs)
    by = {s["rid"]: s for s in scs}
    return [dict(rid=f["rid"], rec=f["rec"], scenario=by.get(f["rid"])) for f in fails if f["rec"]["op"] == "submit"], stats
