#!/usr/bin/env python3
"""Seeded random histories for the L1 harness (code -> spec direction).

Requests are drawn from small id ranges so that collisions (unknown, foreign,
already deleted, coinciding ids across sessions) are frequent.  The generator
keeps no model of the server: whatever the code does is judged by the trace
specification, not by this script.
"""
import json, random, sys, argparse

KINDS = [
    ("Join", 10), ("EntityAdd", 10), ("EntityDelete", 6), ("Pose", 8), ("Custom", 5),
    ("TypeAdd", 5), ("GetName", 2), ("GetId", 2), ("CompAdd", 7), ("CompDelete", 4),
    ("CompUpdate", 6), ("CompList", 3), ("Sub", 5), ("Unsub", 3), ("Ping", 1),
    ("PingResp", 1), ("SignedLatency", 1), ("Action", 7), ("AssetAdd", 5),
    ("Leave", 1), ("Unknown", 1),
]


def gen_req(rnd, k, n, nconn, profile):
    r = {"k": k, "rid": n, "ts": n}
    ids = lambda hi=4: rnd.choice([0] + list(range(1, hi + 1)) * 3)
    if k == "Join":
        r["sid"] = rnd.choice([0, 0, 1, 1, 1, 2, 2, 3, -1])
    elif k == "EntityAdd":
        r.update(persist=rnd.random() < 0.35, flag=rnd.choice([0, 1]), px=rnd.choice([-1, 0, 1, 2, 3]))
    elif k == "EntityDelete":
        r["eid"] = ids()
    elif k == "Pose":
        r.update(eid=ids(), px=rnd.choice([1, 2, 3, 4, 5, 6, 7] if profile.get("nonilpose") else [-1, 1, 2, 3, 4, 5, 6, 7]))
    elif k == "Custom":
        r.update(len=rnd.choice([0, 1, 5, 10239, 10240, 10241, 20000]), dig=n,
                 to=rnd.choice([[], [], [1], [2], [1, 2], [2, 2, 3], [9], [1, 1, 9, 3], [2, 3, 2], [1, 2, 1], [3, 1, 2, 3, 1], [2, 1, 2, 1, 9],
                                [rnd.randint(1, 4) for _ in range(rnd.randint(1, 6))]]))
    elif k in ("TypeAdd", "GetId"):
        r["name"] = rnd.choice(["", "a", "a", "b", "b", "c"])
    elif k in ("GetName", "CompList", "Sub", "Unsub"):
        r["tid"] = ids(3)
    elif k in ("CompAdd", "CompUpdate"):
        r.update(tid=ids(3), eid=ids(), data=rnd.choice([0, 1, 2, 3]))
    elif k == "CompDelete":
        r.update(tid=ids(3), eid=ids())
    elif k == "SignedLatency":
        if rnd.random() < 0.5:
            r.update(n=rnd.choice([0, 1, 2, 51, 60]), wallet=rnd.choice(["", "0xabc"]))
        else:
            r.update(n=rnd.choice([3, 10]), wallet="")
    elif k == "Action":
        r.update(eid=ids(), name=rnd.choice(["", "x", "x", "y"]), ats=rnd.choice([-1, 0, 1, 2, 3, 5, 9, 100000]),
                 data=rnd.choice([0, 1, 2]), has=rnd.random() < 0.93)
        if profile.get("kinds") and "Action" in profile["kinds"] and rnd.random() < 0.6:
            # dense corner: same entity, same name, few timestamps (equal / older / newer), differing data
            r.update(eid=rnd.choice([1, 1, 2]), name="x", ats=rnd.choice([2, 2, 2, 3, 1]), has=True)
    elif k == "AssetAdd":
        r.update(eid=ids(), asset=rnd.choice(["", "m", "n"]))
    elif k == "Unknown":
        r["type"] = rnd.choice([44, 77, 99, 150, 250, 350])
    return r


def gen_history(rnd, hid, mods, flags, nconn, depth, profile):
    steps = []
    kinds = [k for k, _ in KINDS]
    weights = [w for _, w in KINDS]
    if profile.get("kinds"):
        weights = [(w * 6 if k in profile["kinds"] else (1 if k in ("Join", "EntityAdd") else 0)) for k, w in KINDS]
    n = 0
    # warm-up: most connections join quickly so that histories are not dominated by refusals
    for c in range(1, nconn + 1):
        if rnd.random() < 0.8:
            n += 1
            steps.append({"step": "Req", "conn": c, "req": {"k": "Join", "rid": n, "ts": n, "sid": rnd.choice([0, 1, 1, 2])}})
    # focused profiles start from a populated session so that the interesting paths are reachable
    ks = set(profile.get("kinds") or [])
    if ks:
        def req(c, r):
            nonlocal n
            n += 1
            r.update(rid=n, ts=n)
            steps.append({"step": "Req", "conn": c, "req": r})
        for c in range(1, nconn + 1):
            req(c, {"k": "Join", "sid": 0 if c == 1 else 1})
        for c in range(1, min(nconn, 2) + 1):
            req(c, {"k": "EntityAdd", "persist": rnd.random() < 0.4, "flag": 0, "px": 1})
        if "CompAdd" in ks:
            for nm in ("a", "b"):
                req(rnd.randint(1, nconn), {"k": "TypeAdd", "name": nm})
            for c in range(1, nconn + 1):
                if rnd.random() < 0.6:
                    req(c, {"k": "Sub", "tid": rnd.choice([1, 2])})
    while len(steps) < depth:
        n += 1
        c = rnd.randint(1, nconn)
        x = rnd.random()
        if x < 0.12:
            steps.append({"step": "Tick", "sid": rnd.choice([1, 1, 2, 3])})
        elif x < 0.24:
            steps.append({"step": "Proc", "conn": c})
        elif x < 0.26:
            steps.append({"step": "Disc", "conn": c, "cause": "close"})
        elif x < 0.30:
            steps.append({"step": "Open", "conn": c})
        elif x < 0.34:
            k = rnd.choices(kinds, weights)[0]
            steps.append({"step": "Recv", "conn": c, "req": gen_req(rnd, k, n, nconn, profile)})
        else:
            k = rnd.choices(kinds, weights)[0]
            steps.append({"step": "Req", "conn": c, "req": gen_req(rnd, k, n, nconn, profile)})
    # drain: a few frames and processing rounds so that parked updates are consumed
    for _ in range(2):
        for s in (1, 2, 3):
            steps.append({"step": "Tick", "sid": s})
        for c in range(1, nconn + 1):
            for _ in range(4):
                steps.append({"step": "Proc", "conn": c})
    return {"hid": hid, "config": {"mods": mods, "flags": flags}, "steps": steps}


def main():
    ap = argparse.ArgumentParser()
    ap.add_argument("--seed", type=int, default=1)
    ap.add_argument("--n", type=int, default=50)
    ap.add_argument("--depth", type=int, default=40)
    ap.add_argument("--conns", type=int, default=4)
    ap.add_argument("--mods", default="vikja,odal,dagaz")
    ap.add_argument("--flags", default="")
    ap.add_argument("--nonilpose", action="store_true")
    ap.add_argument("--kinds", default="")
    ap.add_argument("--out", required=True)
    a = ap.parse_args()
    rnd = random.Random(a.seed)
    mods = [m for m in a.mods.split(",") if m]
    flags = [f for f in a.flags.split(",") if f]
    with open(a.out, "w") as f:
        for i in range(a.n):
            nconn = rnd.randint(2, a.conns)
            h = gen_history(rnd, f"r{a.seed}-{i}", mods, flags, nconn, a.depth, {"nonilpose": a.nonilpose, "kinds": [k for k in a.kinds.split(",") if k]})
            f.write(json.dumps(h) + "\n")


if __name__ == "__main__":
    main()
