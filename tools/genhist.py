#!/usr/bin/env python3
"""Seeded random histories for the L1 harness (code -> spec direction).

Requests are drawn from small id ranges so that collisions (unknown, foreign,
already deleted, coinciding ids across sessions) are frequent.  The generator
keeps no model of the server: whatever the code does is judged by the trace
specification, not by this script.
"""
import json, random, sys, argparse

KINDS = [
    ("Join", 10), ("EntityAdd", 10), ("EntityDelete", 6), ("Pose", 8), ("Custom", 5),
    ("TypeAdd", 5), ("GetName", 2), ("GetId", 2), ("CompAdd", 7), ("CompDelete", 4),
    ("CompUpdate", 6), ("CompList", 3), ("Sub", 5), ("Unsub", 3), ("Ping", 1),
    ("PingResp", 1), ("SignedLatency", 1), ("Action", 7), ("AssetAdd", 5),
    ("Leave", 1), ("Unknown", 1),
]


def gen_req(rnd, k, n, nconn, profile):
    r = {"k": k, "rid": n, "ts": n}
    ids = lambda hi=4: rnd.choice([0] + list(range(1, hi + 1)) * 3)
    if k == "Join":
        r["sid"] = rnd.choice([0, 0, 1, 1, 1, 2, 2, 3, -1])
    elif k == "EntityAdd":
        r.update(persist=rnd.random() < 0.35, flag=rnd.choice([0, 1]), px=rnd.choice([-1, 0, 1, 2, 3]))
    elif k == "EntityDelete":
        r["eid"] = ids()
    elif k == "Pose":
        r.update(eid=ids(), px=rnd.choice([1, 2, 3, 4, 5, 6, 7] if profile.get("nonilpose") else [-1, 1, 2, 3, 4, 5, 6, 7]))
    elif k == "Custom":
        r.update(len=rnd.choice([0, 1, 5, 10239, 10240, 10241, 20000]), dig=n,
                 to=rnd.choice([[], [], [1], [2], [1, 2], [2, 2, 3], [9], [1, 1, 9, 3], [2, 3, 2], [1, 2, 1], [3, 1, 2, 3, 1], [2, 1, 2, 1, 9],
                                [rnd.randint(1, 4) for _ in range(rnd.randint(1, 6))]]))
    elif k in ("TypeAdd", "GetId"):
        r["name"] = rnd.choice(["", "a", "a", "b", "b", "c"])
    elif k in ("GetName", "CompList", "Sub", "Unsub"):
        r["tid"] = ids(3)
    elif k in ("CompAdd", "CompUpdate"):
        r.update(tid=ids(3), eid=ids(), data=rnd.choice([0, 1, 2, 3]))
    elif k == "CompDelete":
        r.update(tid=ids(3), eid=ids())
    elif k == "SignedLatency":
        if rnd.random() < 0.5:
            r.update(n=rnd.choice([0, 1, 2, 51, 60]), wallet=rnd.choice(["", "0xabc"]))
        else:
            r.update(n=rnd.choice([3, 10]), wallet="")
    elif k == "Action":
        r.update(eid=ids(), name=rnd.choice(["", "x", "x", "y"]), ats=rnd.choice([-1, 0, 1, 2, 3, 5, 9, 100000]),
                 data=rnd.choice([0, 1, 2]), has=rnd.random() < 0.93)
        if profile.get("kinds") and "Action" in profile["kinds"] and rnd.random() < 0.6:
            # dense corner: same entity, same name, few timestamps (equal / older / newer), differing data
            r.update(eid=rnd.choice([1, 1, 2]), name="x", ats=rnd.choice([2, 2, 2, 3, 1]), has=True)
    elif k == "AssetAdd":
        r.update(eid=ids(), asset=rnd.choice(["", "m", "n"]))
    elif k == "Unknown":
        r["type"] = rnd.choice([44, 77, 99, 150, 250, 350])
    return r


def gen_history(rnd, hid, mods, flags, nconn, depth, profile):
    steps = []
    kinds = [k for k, _ in KINDS]
    weights = [w for _, w in KINDS]
    if profile.get("kinds"):
        weights = [(w * 6 if k in profile["kinds"] else (1 if k in ("Join", "EntityAdd") else 0)) for k, w in KINDS]
    n = 0
    # warm-up: most connections join quickly so that histories are not dominated by refusals
    for c in range(1, nconn + 1):
        if rnd.random() < 0.8:
            n += 1
            steps.append({"step": "Req", "conn": c, "req": {"k": "Join", "rid": n, "ts": n, "sid": rnd.choice([0, 1, 1, 2])}})
    # focused profiles start from a populated session so that the interesting paths are reachable
    ks = set(profile.get("kinds") or [])
    if ks:
        def req(c, r):
            nonlocal n
            n += 1
            r.update(rid=n, ts=n)
            steps.append({"step": "Req", "conn": c, "req": r})
        for c in range(1, nconn + 1):
            req(c, {"k": "Join", "sid": 0 if c == 1 else 1})
        for c in range(1, min(nconn, 2) + 1):
            req(c, {"k": "EntityAdd", "persist": rnd.random() < 0.4, "flag": 0, "px": 1})
        if "CompAdd" in ks:
            for nm in ("a", "b"):
                req(rnd.randint(1, nconn), {"k": "TypeAdd", "name": nm})
            for c in range(1, nconn + 1):
                if rnd.random() < 0.6:
                    req(c, {"k": "Sub", "tid": rnd.choice([1, 2])})
    while len(steps) < depth:
        n += 1
        c = rnd.randint(1, nconn)
        x = rnd.random()
        if x < 0.12:
            steps.append({"step": "Tick", "sid": rnd.choice([1, 1, 2, 3])})
        elif x < 0.24:
            steps.append({"step": "Proc", "conn": c})
        elif x < 0.26:
            steps.append({"step": "Disc", "conn": c, "cause": "close"})
        elif x < 0.30:
            steps.append({"step": "Open", "conn": c})
        elif x < 0.34:
            k = rnd.choices(kinds, weights)[0]
            steps.append({"step": "Recv", "conn": c, "req": gen_req(rnd, k, n, nconn, profile)})
        else:
            k = rnd.choices(kinds, weights)[0]
            steps.append({"step": "Req", "conn": c, "req": gen_req(rnd, k, n, nconn, profile)})
    # drain: a few frames and processing rounds so that parked updates are consumed
    for _ in range(2):
        for s in (1, 2, 3):
            steps.append({"step": "Tick", "sid": s})
        for c in range(1, nconn + 1):
            for _ in range(4):
                steps.append({"step": "Proc", "conn": c})
    return {"hid": hid, "config": {"mods": mods, "flags": flags}, "steps": steps}


def gen_dense(rnd, hid, mods, flags, depth):
    """valid-biased history: the generator tracks what it expects to exist (members, entities and their owners, types,
    components, subscriptions) and mostly issues requests that name existing things, so that the accepted paths with
    their relays (component add / update / delete to subscribers, poses, actions, departures of owners of entities
    that carry components) are dense; about one request in eight is drawn like in gen_history (refusals)."""
    steps, n = [], [0]
    conns = [1, 2, 3, 4]
    joined = {}              # conn -> session
    ents = {}                # eid -> (conn, persist)  (session 1 only)
    ecur = [0]
    types = []               # names registered in session 1 (ids 1..)
    comps = set()            # (tid, eid)
    subs = set()             # (conn, tid)
    known = {}               # conn -> entity ids it has moved or owned in session 1

    def req(c, **r):
        n[0] += 1
        r.update(rid=n[0], ts=n[0])
        steps.append({"step": "Req", "conn": c, "req": r})

    def parked(c, **r):
        n[0] += 1
        r.update(rid=n[0], ts=n[0])
        steps.append({"step": "Recv", "conn": c, "req": r})
        if rnd.random() < 0.7:
            steps.append({"step": "Tick", "sid": 1})
            for d in conns:
                steps.append({"step": "Proc", "conn": d})

    def members():
        return [c for c in conns if joined.get(c) == 1]

    def leave(c):
        for e, (o, p) in list(ents.items()):
            if o == c and not p:
                del ents[e]
                for k in list(comps):
                    if k[1] == e:
                        comps.discard(k)
            elif o == c:
                ents[e] = (0, p)        # persistent entity of a departed owner
        for k in list(subs):
            if k[0] == c:
                subs.discard(k)
        joined.pop(c, None)

    req(1, k="Join", sid=0)
    joined[1] = 1
    while len(steps) < depth:
        ms = members()
        x = rnd.random()
        if not ms:
            # the session ended: this generator follows one session only
            break
        if x < 0.12:
            profile = {"kinds": None}
            k = rnd.choice([k for k, _ in KINDS])
            n[0] += 1
            steps.append({"step": "Req", "conn": rnd.choice(conns), "req": gen_req(rnd, k, n[0], 4, {})})
            continue
        away = [q for q in conns if joined.get(q) == 2]
        if away and x < 0.24:
            # a connection that switched to another session keeps naming what it knew in the first one (its former
            # entities, the others', the members): none of it may take effect there, and ids coincide across sessions
            d = rnd.choice(away)
            old = sorted(known.get(d, set()) | set(ents)) or [1]
            k = rnd.choice(["Pose", "Pose", "EntityDelete", "Action", "AssetAdd", "CompUpdate", "Custom", "EntityAdd", "Pose2"])
            if k == "Pose":
                parked(d, k="Pose", eid=rnd.choice(old), px=rnd.choice([1, 2, 3, 4, 5, 6, 7]))
                steps.append({"step": "Tick", "sid": 2}); steps.append({"step": "Proc", "conn": d})
            elif k == "Pose2":
                req(d, k="EntityAdd", persist=False, flag=0, px=1)
                parked(d, k="Pose", eid=1, px=rnd.choice([2, 3, 4]))
                steps.append({"step": "Tick", "sid": 2}); steps.append({"step": "Proc", "conn": d})
            elif k == "EntityDelete":
                req(d, k="EntityDelete", eid=rnd.choice(old))
            elif k == "Action":
                req(d, k="Action", eid=rnd.choice(old), name="x", ats=rnd.choice([2, 3, 4]), data=1, has=True)
            elif k == "AssetAdd":
                req(d, k="AssetAdd", eid=rnd.choice(old), asset="m")
            elif k == "CompUpdate":
                parked(d, k="CompUpdate", tid=1, eid=rnd.choice(old), data=3)
            elif k == "Custom":
                req(d, k="Custom", len=5, dig=n[0], to=rnd.choice([[], [1, 2, 3, 4]]))
            else:
                req(d, k="EntityAdd", persist=rnd.random() < 0.3, flag=0, px=2)
            continue
        c = rnd.choice(ms)
        mine = [e for e, (o, p) in ents.items() if o == c]
        free = [q for q in conns if joined.get(q) != 1]
        ops = [("join", 2 if free else 0), ("eadd", 2 if len(ents) < 4 else 0), ("tadd", 2 if len(types) < 3 else 0),
               ("sub", 3 if types else 0), ("unsub", 2 if subs else 0), ("cadd", 4 if types and ents else 0),
               ("cupd", 6 if comps else 0), ("cdel", 2 if comps else 0), ("cmiss", 1.5 if comps and len(ents) > 1 else 0), ("edel", 1 if mine else 0), ("pose", 2 if mine else 0),
               ("custom", 1), ("action", 2 if ents and "vikja" in mods else 0), ("asset", 1 if mine and "odal" in mods else 0),
               ("list", 1 if types else 0), ("disc", 1 if len(ms) > 1 else 0), ("switch", 0.5 if len(ms) > 1 else 0), ("tick", 2),
               ("pose_del_add", 1 if mine else 0), ("visitor", 1 if [q for q in conns if q not in joined] else 0)]
        op = rnd.choices([o for o, _ in ops], [w for _, w in ops])[0]
        if op == "join":
            d = rnd.choice(free)
            if d not in joined:
                steps.append({"step": "Open", "conn": d})
            req(d, k="Join", sid=1)
            joined[d] = 1
        elif op == "eadd":
            p = rnd.random() < 0.35
            req(c, k="EntityAdd", persist=p, flag=rnd.choice([0, 1]), px=rnd.choice([1, 2, 3]))
            ecur[0] += 1
            ents[ecur[0]] = (c, p)
            known.setdefault(c, set()).add(ecur[0])
        elif op == "tadd":
            nm = ["a", "b", "c"][len(types)] if rnd.random() < 0.8 else rnd.choice(["a", "b"])
            req(c, k="TypeAdd", name=nm)
            if nm not in types:
                types.append(nm)
        elif op == "sub":
            t = rnd.randint(1, len(types))
            req(c, k="Sub", tid=t)
            subs.add((c, t))
        elif op == "unsub":
            # by a subscriber, or (a third of the time) by a member that is not subscribed to that type
            if rnd.random() < 0.65:
                d, t = rnd.choice(sorted(subs))
            else:
                d, t = c, rnd.randint(1, len(types))
            if d in ms:
                req(d, k="Unsub", tid=t)
                subs.discard((d, t))
        elif op == "cadd":
            t, e = rnd.randint(1, len(types)), rnd.choice(sorted(ents))
            req(c, k="CompAdd", tid=t, eid=e, data=rnd.choice([1, 2, 3]))
            comps.add((t, e))
        elif op == "cupd":
            t, e = rnd.choice(sorted(comps))
            parked(c, k="CompUpdate", tid=t, eid=e, data=rnd.choice([0, 1, 2, 3]))
        elif op == "cdel":
            t, e = rnd.choice(sorted(comps))
            req(c, k="CompDelete", tid=t, eid=e)
            comps.discard((t, e))
        elif op == "cmiss":
            # near miss: a delete (or an add of the same pair right after) of a REGISTERED type on an EXISTING entity that
            # does not carry it, while the entity carries other components and the type is in use elsewhere; half of
            # the time the entity is removed right afterwards (by its owner's request or its owner's departure): the
            # cascade must still take ALL of its components (seeded m12-C12: a per-entity index dropped by the miss)
            cand = [(t, e) for t in range(1, len(types) + 1) for e in sorted(ents) if (t, e) not in comps
                    and any(k[1] == e for k in comps)] or \
                   [(t, e) for t in range(1, len(types) + 1) for e in sorted(ents) if (t, e) not in comps]
            if cand:
                t, e = rnd.choice(cand)
                req(c, k="CompDelete", tid=t, eid=e)
                o, pers = ents[e]
                y = rnd.random()
                if y < 0.35 and o in ms:
                    req(o, k="EntityDelete", eid=e)
                    del ents[e]
                    for k in list(comps):
                        if k[1] == e:
                            comps.discard(k)
                elif y < 0.5 and o in ms and len(ms) > 1 and not pers:
                    steps.append({"step": "Disc", "conn": o, "cause": "close"})
                    leave(o)
        elif op == "edel":
            e = rnd.choice(mine)
            req(c, k="EntityDelete", eid=e)
            del ents[e]
            for k in list(comps):
                if k[1] == e:
                    comps.discard(k)
        elif op == "pose":
            e = rnd.choice(mine)
            parked(c, k="Pose", eid=e, px=rnd.choice([1, 2, 3, 4, 5, 6, 7]))
            known.setdefault(c, set()).add(e)
            if rnd.random() < 0.25 and len(ms) > 1:
                # the last thing before it goes elsewhere: a switch right after a pose of its own entity
                steps.append({"step": "Tick", "sid": 1}); steps.append({"step": "Proc", "conn": c})
                req(c, k="Join", sid=0)
                leave(c)
                joined[c] = 2
        elif op == "visitor":
            # a connection whose FIRST session is one of its own (where it gets entity, action, asset and component-type
            # ids from fresh sources) and that then moves into session 1: everything it is issued there must come
            # from session 1's sources
            d = rnd.choice([q for q in conns if q not in joined])
            steps.append({"step": "Open", "conn": d})
            req(d, k="Join", sid=0)
            for _ in range(rnd.randint(1, 2)):
                req(d, k="EntityAdd", persist=False, flag=0, px=1)
            if "odal" in mods:
                req(d, k="AssetAdd", eid=1, asset="m")
            req(d, k="TypeAdd", name="z")
            req(d, k="Join", sid=1)
            joined[d] = 1
            req(d, k="EntityAdd", persist=False, flag=0, px=2)
            ecur[0] += 1
            ents[ecur[0]] = (d, False)
            known.setdefault(d, set()).add(ecur[0])
            if "odal" in mods:
                req(d, k="AssetAdd", eid=ecur[0], asset="n")
            if "vikja" in mods:
                req(d, k="Action", eid=ecur[0], name="x", ats=2, data=1, has=True)
        elif op == "pose_del_add":
            # within one frame: an update of an entity is parked, the entity is deleted, its owner (or somebody else) adds
            # a new one; the parked update must die with the entity
            e = rnd.choice(mine)
            n[0] += 1
            steps.append({"step": "Recv", "conn": c, "req": {"k": "Pose", "rid": n[0], "ts": n[0], "eid": e, "px": rnd.choice([5, 6, 7])}})
            if (1, e) in comps and rnd.random() < 0.5:
                n[0] += 1
                steps.append({"step": "Recv", "conn": c, "req": {"k": "CompUpdate", "rid": n[0], "ts": n[0], "tid": 1, "eid": e, "data": 3}})
            req(c, k="EntityDelete", eid=e)
            del ents[e]
            for k in list(comps):
                if k[1] == e:
                    comps.discard(k)
            adder = c if rnd.random() < 0.7 else rnd.choice(ms)
            p = rnd.random() < 0.3
            req(adder, k="EntityAdd", persist=p, flag=0, px=1)
            ecur[0] += 1
            ents[ecur[0]] = (adder, p)
            known.setdefault(adder, set()).add(ecur[0])
            steps.append({"step": "Tick", "sid": 1})
            for d in conns:
                steps.append({"step": "Proc", "conn": d})
        elif op == "custom":
            req(c, k="Custom", len=rnd.choice([1, 5, 10240, 10241]), dig=n[0], to=rnd.choice([[], [], [1, 2], [2, 3, 2], [9]]))
        elif op == "action":
            req(c, k="Action", eid=rnd.choice(sorted(ents)), name=rnd.choice(["x", "y"]), ats=rnd.choice([1, 2, 2, 3]), data=rnd.choice([0, 1, 2]), has=True)
        elif op == "asset":
            req(c, k="AssetAdd", eid=rnd.choice(mine), asset=rnd.choice(["m", "n"]))
        elif op == "list":
            req(c, k="CompList", tid=rnd.randint(1, len(types)))
        elif op == "disc":
            steps.append({"step": "Disc", "conn": c, "cause": "close"})
            leave(c)
        elif op == "switch":
            req(c, k="Join", sid=0)
            leave(c)
            joined[c] = 2
        elif op == "tick":
            steps.append({"step": "Tick", "sid": rnd.choice([1, 1, 2])})
            for d in conns:
                steps.append({"step": "Proc", "conn": d})
    for _ in range(2):
        for sid in (1, 2, 3):
            steps.append({"step": "Tick", "sid": sid})
        for c in conns:
            for _ in range(4):
                steps.append({"step": "Proc", "conn": c})
    return {"hid": hid, "config": {"mods": mods, "flags": flags}, "steps": steps}


def main():
    ap = argparse.ArgumentParser()
    ap.add_argument("--seed", type=int, default=1)
    ap.add_argument("--n", type=int, default=50)
    ap.add_argument("--depth", type=int, default=40)
    ap.add_argument("--conns", type=int, default=4)
    ap.add_argument("--mods", default="vikja,odal,dagaz")
    ap.add_argument("--flags", default="")
    ap.add_argument("--nonilpose", action="store_true")
    ap.add_argument("--kinds", default="")
    ap.add_argument("--dense", action="store_true")
    ap.add_argument("--out", required=True)
    a = ap.parse_args()
    rnd = random.Random(a.seed)
    mods = [m for m in a.mods.split(",") if m]
    flags = [f for f in a.flags.split(",") if f]
    with open(a.out, "w") as f:
        for i in range(a.n):
            if a.dense:
                f.write(json.dumps(gen_dense(rnd, f"d{a.seed}-{i}", mods, flags, a.depth)) + "\n")
                continue
            nconn = rnd.randint(2, a.conns)
            h = gen_history(rnd, f"r{a.seed}-{i}", mods, flags, nconn, a.depth, {"nonilpose": a.nonilpose, "kinds": [k for k in a.kinds.split(",") if k]})
            f.write(json.dumps(h) + "\n")


if __name__ == "__main__":
    main()
