"""C18: the signed latency protocol.  Latency.tla exhaustively (TLC) + all short and seeded long scripts of
start / answer / replay / unknown-id / restart replayed on the real code under a virtual clock, validated by
TLC (LatencyTrace): protocol steps, refusals, the decoded and signature-checked report, integer statistics."""
import itertools, json, random
from concurrent.futures import ThreadPoolExecutor

import relay_check
from vlib import NCPU, Inconclusive, write_evidence, known_match, save_replay, read_ndjson

TOK = {
    "S3": dict(k="SignedLatency", n=3, wallet="0xw"), "S4": dict(k="SignedLatency", n=4, wallet="0xw"),
    "S0": dict(k="SignedLatency", n=0, wallet="0xw"), "S2": dict(k="SignedLatency", n=2, wallet="0xw"),
    "S50": dict(k="SignedLatency", n=50, wallet="0xw"), "S51": dict(k="SignedLatency", n=51, wallet="0xw"),
    "S60": dict(k="SignedLatency", n=60, wallet="0xw"), "SW": dict(k="SignedLatency", n=3, wallet=""),
    "A0": dict(k="PingResp", ref="open", adv=0), "A1": dict(k="PingResp", ref="open", adv=1),
    "A5": dict(k="PingResp", ref="open", adv=5), "A9": dict(k="PingResp", ref="open", adv=1000),
    "O": dict(k="PingResp", ref="old", adv=1), "L": dict(k="PingResp", ref="last", adv=2),
    "U": dict(k="PingResp", ref="unknown", adv=1),
    "J": dict(k="Join", sid=0),
}


def history(hid, toks, two=False):
    steps = [dict(step="Req", conn=1, req=dict(k="Join", rid=1, sid=0, ts=1))]
    if two:
        steps.append(dict(step="Req", conn=2, req=dict(k="Join", rid=2, sid=1, ts=2)))
    n = 10
    for t in toks:
        c = 1
        if t.startswith("2:"):
            c, t = 2, t[2:]
        if t.startswith("3:"):      # a connection that never joined
            c, t = 3, t[2:]
        n += 1
        rq = dict(TOK[t])
        rq.setdefault("rid", n)
        rq["ts"] = n
        steps.append(dict(step="Req", conn=c, req=rq))
    return dict(hid=hid, config=dict(mods=[], flags=[]), steps=steps)


def scripts(tier, rnd):
    hs = []
    base = ["S3", "S0", "A0", "A1", "A5", "O", "U"]
    L = 4 if tier == "quick" else 5
    for n in range(1, L + 1):
        for t in itertools.product(base, repeat=n):
            if t[0].startswith("S"):
                hs.append(history("e" + "".join(t), list(t)))
    allt = list(TOK)
    nr = 150 if tier == "quick" else 1500
    for i in range(nr):
        toks = []
        for _ in range(rnd.randint(6, 70)):
            x = rnd.random()
            if x < 0.62:
                t = rnd.choice(["A0", "A1", "A5", "A9", "A1", "A5"])
            elif x < 0.72:
                t = rnd.choice(["O", "L", "U"])
            else:
                t = rnd.choice(allt)
            y = rnd.random()
            if y < 0.25:
                t = "2:" + t
            elif y < 0.30 and t != "J":
                t = "3:" + t
            toks.append(t)
        hs.append(history("r%d-%d" % (rnd.randint(0, 10 ** 6), i), toks, two=True))
    # complete runs at the bounds of the round count
    for n, tag in ((3, "S3"), (4, "S4"), (50, "S50")):
        hs.append(history("full%d" % n, [tag] + [rnd.choice(["A0", "A1", "A5", "A9"]) for _ in range(n)] + ["O", "L", "U", "A1"]))
    return hs


def run(work, tier, replay=None):
    rnd = random.Random(work.seed)
    work.build_harness()
    ns = "{0, 2, 3, 4, 51}" if tier == "quick" else "{0, 2, 3, 4, 5, 50, 51}"
    steps = 8 if tier == "quick" else 9
    cfg = ("SPECIFICATION LSpec\nCONSTANTS\n  Ns = %s\n  Lats = {0, 1, 5}\n  MaxSteps = %d\n"
           "INVARIANTS CompletesWithN OneOutstanding LeftMatches ExactlyNRounds\nPROPERTY RefusalInert\nCHECK_DEADLOCK FALSE\n" % (ns, steps))
    mc = dict(distinct=0, generated=0)
    if not replay:
        mc = work.tlc("lat-mc", "Latency", cfg, workers=NCPU, timeout=1800, dump=False)
        if "error" in mc or mc.get("timeout"):
            raise Inconclusive("Latency model check failed: %s" % mc.get("error", "timeout"))
        work.log("Latency.tla: %s distinct / %s generated%s" % (mc.get("distinct"), mc.get("generated"),
                                                              " VIOLATED " + mc["violated"] if "violated" in mc else ""))
    hs = [h for h in read_ndjson(replay) if "steps" in h] if replay else scripts(tier, rnd)
    if not replay:
        import glob, os
        from vlib import VERIF
        for f in sorted(glob.glob(os.path.join(VERIF, "scenarios", "lat_*.ndjson"))):
            hs += [h for h in read_ndjson(f) if "steps" in h]
    by = {h["hid"]: h for h in hs}
    tf = relay_check.run_l1(work, hs, "lat")
    chunks, nh = relay_check.split_trace(tf, NCPU)
    tcfg = ("SPECIFICATION TSpec\nCONSTANTS\n  Ns = {}\n  Lats = {}\n  MaxSteps = 0\nINVARIANT Ok_C18\n"
            "CHECK_DEADLOCK FALSE\nPOSTCONDITION TraceAccepted\n")
    fails = []
    with ThreadPoolExecutor(max_workers=NCPU) as ex:
        futs = [ex.submit(relay_check.validate_chunk, work, ch, None, None, None, "tv18-%d" % i, "LatencyTrace", tcfg)
                for i, ch in enumerate(chunks)]
        for f in futs:
            fails += f.result()
    # what was exercised
    st = dict(histories=nh, steps=0, completed=0, refused_ping=0, refused_start=0, rounds=0, full50=0)
    sample = None
    for line in open(tf):
        r = json.loads(line)
        if r.get("k") != "step":
            continue
        st["steps"] += 1
        for c, ms in r["out"]:
            for m in ms:
                if m["t"] == "SIGNED_LATENCY_RESPONSE":
                    st["completed"] += 1
                    if m.get("n") == 50:
                        st["full50"] += 1
                    sample = sample or dict(request=r.get("popped"), response=m)
                if m["t"] == "PING_REQUEST":
                    st["rounds"] += 1
                if m["t"] == "ERROR" and (r.get("popped") or {}).get("k") == "PingResp":
                    st["refused_ping"] += 1
                if m["t"] == "ERROR" and (r.get("popped") or {}).get("k") == "SignedLatency":
                    st["refused_start"] += 1
    violations, known, seen = [], [], set()
    for fr in fails:
        sig = dict(fr["sig"])
        key = json.dumps(sig, sort_keys=True)
        kf = known_match("C18", sig)
        if kf:
            known.append(kf)
            continue
        if key in seen:
            continue
        seen.add(key)
        violations.append((fr, save_replay("C18", fr["hid"], [by.get(fr["hid"], dict(hid=fr["hid"]))])))
    coverage = dict(states=mc.get("distinct", 0) or 1, transitions=mc.get("generated", 0) or 1,
                    traces_validated_against_impl=nh, exercised=st, samples=[sample or dict(note="no completed measurement")],
                    failing=[dict(hid=fr["hid"], signature=fr["sig"]) for fr in fails][:20])
    write_evidence(work, "model_checking", coverage,
                   ["time is virtual: the overlay replaces time.Now in models/signed_latency.go by a harness-driven clock, so every round's latency is an exact integer number of microseconds",
                    "signature validity is computed by the harness with go-ethereum (SigToPub over Keccak-256 of exactly the returned bytes) and logged as a boolean: the library is trusted",
                    "the client id is empty at handler level (HandleConnect needs a socket); it is checked at wire level by the C08 harness"],
                   violations=len(violations))
    for kf in known:
        print("KNOWN-FINDING: property=C18 %s" % kf.get("what", kf.get("id")))
    if mc.get("violated") and not violations:
        raise Inconclusive("TLC refutes %s on Latency.tla" % mc["violated"])
    if violations:
        for fr, path in violations:
            print("VIOLATION property=C18 replay=%s" % path)
            print("  history %s record %s: %s" % (fr["hid"], fr["rec"].get("i"), fr["sig"]))
        return 1
    if not replay and (st["completed"] < 20 or st["refused_ping"] < 50 or st["full50"] < 1):
        raise Inconclusive("vacuity gate: %s" % st)
    print("OK property=C18 tier=%s: %s model states; %d scripts on the real code, %d measurements completed, %d ping responses refused" % (
        tier, mc.get("distinct"), nh, st["completed"], st["refused_ping"]))
    return 0
