"""C17: every subset of the DISABLE_* flags suppresses exactly its own relay classes.
FlagsMC (specification level, all 2048 subsets incl. an unknown name) + paired runs of the real code:
the same history under flag set F and under no flag, merged step by step and validated by TLC (Ok_C17)."""
import itertools, json, os, random
from concurrent.futures import ThreadPoolExecutor

import relay_cfg, relay_check
from vlib import NCPU, Inconclusive, write_ndjson, write_evidence, known_match, save_replay

FLAGS = ["DISABLE_SESSION_STATE", "DISABLE_PARTICIPANT_JOIN_BROADCAST", "DISABLE_PARTICIPANT_LEAVE_BROADCAST",
         "DISABLE_ENTITY_ADD_BROADCAST", "DISABLE_ENTITY_DELETE_BROADCAST", "DISABLE_ENTITY_UPDATE_POSE_BROADCAST",
         "DISABLE_CUSTOM_MESSAGE_BROADCAST", "DISABLE_ENTITY_COMPONENT_ADD_BROADCAST",
         "DISABLE_ENTITY_COMPONENT_UPDATE_BROADCAST", "DISABLE_ENTITY_COMPONENT_DELETE_BROADCAST"]
UNKNOWN = ["DISABLE_NOTHING", "disable_session_state", "ENABLE_EVERYTHING", "", " ", "DISABLE_SESSION_STATE "]


def mixed(rnd, known, k):
    """the known flags with k unknown names at random positions of the list (first, between, last) and now and then a flag
    named twice: the list is a set of names, its order and its other entries mean nothing"""
    s = list(known)
    for u in rnd.sample(UNKNOWN, k):
        s.insert(rnd.randint(0, len(s)), u)
    if known and rnd.random() < 0.3:
        s.insert(rnd.randint(0, len(s)), rnd.choice(known))
    return s


def flag_sets(tier, rnd):
    sets = [[]] + [[f] for f in FLAGS] + [list(FLAGS), [UNKNOWN[0]], list(FLAGS) + UNKNOWN, UNKNOWN + list(FLAGS),
                                           ["", FLAGS[0]], [FLAGS[1], "", FLAGS[0], FLAGS[4]]]
    if tier == "thorough":
        for r in range(2, 10):
            for c in itertools.combinations(FLAGS, r):
                sets.append(list(c))
        for _ in range(120):
            sets.append(mixed(rnd, rnd.sample(FLAGS, rnd.randint(1, 9)), rnd.randint(1, 3)))
    else:
        for _ in range(24):
            s = rnd.sample(FLAGS, rnd.randint(2, 9))
            if rnd.random() < 0.4:
                s = mixed(rnd, s, rnd.randint(1, 2))
            sets.append(s)
    return sets


def tour(rnd, hid):
    """a history that produces every relay class together with the state changes that go with it: members with
    entities, a type with two subscribers, components added / updated / deleted, poses, custom messages, actions and
    assets, the departure of an owner of entities that carry components, a newcomer, lists"""
    n = [0]
    steps = []

    def rq(c, **r):
        n[0] += 1
        r.update(rid=n[0], ts=n[0])
        steps.append(dict(step="Req", conn=c, req=r))

    def parked(c, **r):
        n[0] += 1
        r.update(rid=n[0], ts=n[0])
        steps.append(dict(step="Recv", conn=c, req=r))
        steps.append(dict(step="Tick", sid=1))
        for d in (1, 2, 3):
            steps.append(dict(step="Proc", conn=d))
    rq(1, k="Join", sid=0); rq(2, k="Join", sid=1); rq(3, k="Join", sid=1)
    p1 = rnd.random() < 0.5
    rq(1, k="EntityAdd", persist=False, flag=0, px=1); rq(1, k="EntityAdd", persist=p1, flag=1, px=2); rq(2, k="EntityAdd", persist=False, flag=0, px=3)
    rq(1, k="TypeAdd", name="a"); rq(2, k="TypeAdd", name="b")
    rq(2, k="Sub", tid=1); rq(3, k="Sub", tid=1)
    if rnd.random() < 0.5:
        rq(1, k="Sub", tid=1)
    rq(1, k="CompAdd", tid=1, eid=1, data=1); rq(1, k="CompAdd", tid=1, eid=2, data=1); rq(2, k="CompAdd", tid=1, eid=3, data=2); rq(2, k="CompAdd", tid=2, eid=3, data=3)
    parked(1, k="CompUpdate", tid=1, eid=1, data=2)
    parked(2, k="CompUpdate", tid=1, eid=3, data=3)
    parked(1, k="Pose", eid=1, px=4)
    parked(2, k="Pose", eid=3, px=5)
    rq(1, k="Custom", len=5, dig=n[0], to=[]); rq(2, k="Custom", len=7, dig=n[0], to=[1, 3]); rq(3, k="Custom", len=10241, dig=n[0], to=[])
    rq(2, k="CompDelete", tid=1, eid=3); rq(2, k="CompDelete", tid=2, eid=3); rq(2, k="CompAdd", tid=1, eid=3, data=1)
    rq(1, k="Action", eid=1, name="x", ats=2, data=1, has=True); rq(1, k="AssetAdd", eid=1, asset="m"); rq(2, k="AssetAdd", eid=3, asset="n")
    rq(3, k="EntityDelete", eid=1)          # refused (foreign)
    rq(2, k="EntityDelete", eid=3)          # accepted: entity with a component
    steps.append(dict(step="Disc", conn=1, cause="close"))      # owner of entities with components and an action leaves
    rq(4, k="Join", sid=1)
    rq(2, k="CompList", tid=1); rq(4, k="CompList", tid=1)
    rq(2, k="Join", sid=0)                                      # a switch
    rq(3, k="Unsub", tid=1)
    for _ in range(2):
        for sid in (1, 2, 3):
            steps.append(dict(step="Tick", sid=sid))
        for c in (1, 2, 3, 4):
            for _ in range(3):
                steps.append(dict(step="Proc", conn=c))
    return dict(hid=hid, config=dict(mods=[], flags=[]), steps=steps)


def run(work, tier, replay=None):
    rnd = random.Random(work.seed)
    work.build_harness()
    cfg = ("SPECIFICATION FSpec\nCONSTANTS\n  Conns = {1,2}\n  Mods = {}\n  Flags = {}\n"
           "INVARIANTS TenClasses Injective ExactlyOwn NeverOthers UnknownInert AllTypes FilterOK\nCHECK_DEADLOCK FALSE\n")
    mc = work.tlc("flags-mc", "FlagsMC", cfg, workers=4, timeout=300, dump=False)
    if "error" in mc or mc.get("timeout"):
        raise Inconclusive("FlagsMC failed: %s" % mc.get("error", "timeout"))
    work.log("FlagsMC: %s states%s" % (mc.get("distinct"), " VIOLATED " + mc["violated"] if "violated" in mc else ""))

    mods = relay_check.ALLMODS
    if replay:
        from vlib import read_ndjson
        hs = [h for h in read_ndjson(replay) if "steps" in h]
        plan = [(h["config"]["flags"], [h]) for h in hs]
    else:
        nb, per = (4, 14) if tier == "quick" else (40, 5)
        # the batches differ in what they dwell on, so that every relay class is produced together with the state
        # changes that go with it (a departure of an owner of entities with components, parked updates, ...)
        focus = [None, relay_cfg.FOCUS["comps"]["Kinds"] + ["Leave"], relay_cfg.FOCUS["core"]["Kinds"] + ["Leave"],
                 relay_cfg.FOCUS["comps"]["Kinds"] + ["Leave"]]
        batches = []
        for b in range(nb):
            hs = relay_check.gen_random_histories(work, per // 2 + 1, 70, work.seed * 100 + b, mods, "fb%d" % b, kinds=focus[b % 4])
            over = dict(relay_cfg.FOCUS["comps" if b % 4 in (1, 3) else "core"]) if b % 4 else {}
            hs += relay_check.gen_tlc_histories(work, per - len(hs), 40, work.seed * 100 + b, mods, "fb%d" % b, **over)
            hs.append(tour(rnd, "tour%d" % b))
            batches.append(hs)
        sets = flag_sets(tier, rnd)
        plan = []
        for i, F in enumerate(sets):
            if len(F) == 1 and F[0] in FLAGS:
                # a single flag meets every kind of batch
                for b in range(4):
                    plan.append((F, batches[(i + b) % nb]))
            else:
                plan.append((F, batches[i % nb]))

    # base runs (no flag), one per distinct batch
    base_cache = {}

    def l1(hs, flags, tag):
        hs2 = []
        for h in hs:
            h2 = dict(h)
            h2["config"] = dict(mods=mods, flags=flags, serial_ids=True, autoflush=True)
            hs2.append(h2)
        return relay_check.run_l1(work, hs2, tag)

    merged_files, hist_by = [], {}
    nrec = 0
    for i, (F, hs) in enumerate(plan):
        key = id(hs)
        if key not in base_cache:
            base_cache[key] = open(l1(hs, [], "base%d" % len(base_cache))).readlines()
        base = base_cache[key]
        flagged = open(l1(hs, F, "f%d" % i)).readlines()
        if len(base) != len(flagged):
            raise Inconclusive("paired runs have different lengths (%d vs %d records)" % (len(base), len(flagged)))
        out = work.path("paired", "p%d.ndjson" % i)
        with open(out, "w") as f:
            for a, b in zip(flagged, base):
                ra, rb = json.loads(a), json.loads(b)
                if ra.get("k") == "reset":
                    ra["hid"] = "%s|F%d" % (ra["hid"], i)
                    hist_by[ra["hid"]] = dict(hid=ra["hid"], config=dict(mods=mods, flags=F, serial_ids=True, autoflush=True),
                                              steps=next(h["steps"] for h in hs if ra["hid"].startswith(h["hid"] + "|")))
                    f.write(json.dumps(ra) + "\n")
                    continue
                ra["fl"] = F
                ra["out0"], ra["post0"], ra["ret0"] = rb["out"], rb["post"], rb["ret"]
                f.write(json.dumps(ra) + "\n")
                nrec += 1
        merged_files.append(out)
    allp = work.path("paired", "all.ndjson")
    with open(allp, "w") as f:
        for p in merged_files:
            f.write(open(p).read())
    chunks, nh = relay_check.split_trace(allp, NCPU)
    work.log("%d (flag set, batch) pairs, %d paired histories, %d steps" % (len(plan), nh, nrec))
    fails = []
    with ThreadPoolExecutor(max_workers=NCPU) as ex:
        futs = [ex.submit(relay_check.validate_chunk, work, ch, ["Ok_C17"], mods, [], "tv17-%d" % ci) for ci, ch in enumerate(chunks)]
        for fu in futs:
            fails += fu.result()

    suppressed = 0
    per_flag = {f: 0 for f in FLAGS}
    for p in merged_files:
        for line in open(p):
            r = json.loads(line)
            if r.get("k") != "step":
                continue
            n0 = sum(len(ms) for _, ms in r["out0"])
            n1 = sum(len(ms) for _, ms in r["out"])
            suppressed += n0 - n1
            if len(r["fl"]) == 1 and r["fl"][0] in per_flag and n0 != n1:
                per_flag[r["fl"][0]] += n0 - n1
    work.log("suppressed by each flag alone: %s" % per_flag)
    violations, known = [], []
    seen = set()
    for fr in fails:
        sig = dict(fr["sig"])
        key = json.dumps(sig, sort_keys=True)
        kf = known_match("C17", sig)
        if kf:
            known.append(kf)
            continue
        if key in seen:
            continue
        seen.add(key)
        h = hist_by.get(fr["hid"])
        violations.append((fr, save_replay("C17", fr["hid"], [h] if h else [dict(hid=fr["hid"])])))
    sample = None
    for line in open(merged_files[min(1, len(merged_files) - 1)]):
        r = json.loads(line)
        if r.get("k") == "step" and r["out"] != r["out0"]:
            sample = dict(flags=r["fl"], step=r["step"], req=r.get("popped") or r.get("req"), out_with_flags=r["out"], out_without=r["out0"])
            break
    coverage = dict(states=mc.get("distinct", 0) or 1, transitions=mc.get("generated", 0) or 1,
                    traces_validated_against_impl=nh, paired_steps=nrec, flag_sets=len(plan),
                    messages_suppressed=suppressed, suppressed_by_each_flag_alone=per_flag,
                    samples=[sample or dict(note="no suppressed message in the sampled file")],
                    exhaustive=(tier == "thorough"), failing=[dict(hid=fr["hid"], signature=fr["sig"]) for fr in fails][:20])
    write_evidence(work, "model_checking", coverage,
                   ["paired runs avoid the two sources of legitimate divergence (which released session id is popped; flush order of several parked updates) by construction: serial_ids / autoflush harness options",
                    "the flagged outcome is *defined* in Relay.tla as the flag-free outcome filtered by class; FlagsMC checks the class table, the paired runs bind it to the code"],
                   violations=len(violations))
    for kf in known:
        print("KNOWN-FINDING: property=C17 %s" % kf.get("what", kf.get("id")))
    if mc.get("violated") and not violations:
        raise Inconclusive("FlagsMC refutes %s on the specification" % mc["violated"])
    if violations:
        for fr, path in violations:
            print("VIOLATION property=C17 replay=%s" % path)
            print("  history %s record %s: %s %s" % (fr["hid"], fr["rec"].get("i"), fr["sig"]["step"], fr["sig"]["kind"]))
        return 1
    if not replay and suppressed < 50:
        raise Inconclusive("vacuity gate: only %d messages were suppressed by flags" % suppressed)
    if not replay and any(v < 3 for v in per_flag.values()):
        raise Inconclusive("vacuity gate: flags that (alone) suppressed fewer than 3 messages: %s" % {k: v for k, v in per_flag.items() if v < 3})
    print("OK property=C17 tier=%s: %d flag sets, %d paired histories, %d steps, %d messages suppressed" % (tier, len(plan), nh, nrec, suppressed))
    return 0
