"""C15: Auth.tla (decision table: secret state x token class per carrier x endpoint; TLC) and the same table
concretised against the real handshake / middleware mounted like cmd/main.go, validated by TLC (AuthTrace)."""
import itertools, json, random
from concurrent.futures import ThreadPoolExecutor

from vlib import NCPU, Inconclusive, write_evidence, known_match, save_replay, write_ndjson, read_ndjson

CLASSES = ["absent", "valid_s1", "valid_s2", "wrongsig", "alg_none", "alg_rs256", "expired", "future_near", "future_far",
           "garbage", "payload_tampered", "header_tampered", "empty_key", "just_expired", "expires_soon"]
CORE = ["absent", "valid_s1", "valid_s2", "wrongsig", "expired", "empty_key", "future_near", "alg_none", "just_expired"]


def cfg_classes(cs):
    return "{" + ", ".join('"%s"' % c for c in cs) + "}"


def run(work, tier, replay=None):
    rnd = random.Random(work.seed)
    work.build_harness()
    mc = dict(distinct=0, generated=0)
    if not replay:
        cs = CORE[:6] if tier == "quick" else CLASSES
        cfg = ("SPECIFICATION ASpec\nCONSTANTS\n  Classes = %s\nINVARIANTS NoSecretNoEntry OldSecretRejected OnlyFirstCounts\n"
               "PROPERTY RejectedIsInert\nCHECK_DEADLOCK FALSE\n" % cfg_classes(cs))
        mc = work.tlc("auth-mc", "Auth", cfg, workers=NCPU, timeout=3000, dump=False)
        if "error" in mc or mc.get("timeout"):
            raise Inconclusive("Auth model check failed: %s" % mc.get("error", "timeout"))
        work.log("Auth.tla: %s distinct / %s generated%s" % (mc.get("distinct"), mc.get("generated"), " VIOLATED " + mc["violated"] if "violated" in mc else ""))
    if replay:
        rows = [r for r in read_ndjson(replay) if "secret" in r]
    else:
        rows = []
        base = CORE if tier == "quick" else CLASSES
        for s, h, q, c, b, e in itertools.product(["none", "s1", "s2"], base, base, base, [True, False], ["relay", "smoketest"]):
            if tier == "quick" and not b and h == "absent":
                continue
            rows.append(dict(secret=s, header=h, query=q, cookie=c, bearer=b, endpoint=e))
        if tier == "quick":
            for _ in range(1500):
                rows.append(dict(secret=rnd.choice(["none", "s1", "s2"]), header=rnd.choice(CLASSES), query=rnd.choice(CLASSES),
                                 cookie=rnd.choice(CLASSES), bearer=rnd.random() < 0.8, endpoint=rnd.choice(["relay", "smoketest"])))
        rnd.shuffle(rows)      # secret rotation in every direction between consecutive requests
    k = min(8, max(1, len(rows) // 200))
    parts = [rows[i::k] for i in range(k)]
    fails = []

    def one(i):
        pin, pout = work.path("auth", "in%d.ndjson" % i), work.path("auth", "out%d.ndjson" % i)
        write_ndjson(pin, parts[i])
        work.run_harness(["auth", "-in", pin, "-out", pout], timeout=1500)
        cfg = "SPECIFICATION TSpec\nCONSTANTS\n  Classes = %s\nINVARIANT Ok_C15\nCHECK_DEADLOCK FALSE\nPOSTCONDITION TraceAccepted\n" % cfg_classes(CLASSES)
        lines = open(pout).readlines()
        off, out = 0, []
        while off < len(lines) and len(out) < 30:
            part = pout + ".part"
            open(part, "w").writelines(lines[off:])
            r = work.tlc("auth-tv%d" % i, "AuthTrace", cfg, workers=1, timeout=1800, env=dict(VERIF_TRACE=part))
            if "error" in r or r.get("timeout"):
                raise Inconclusive("AuthTrace failed: %s" % r.get("error", "timeout"))
            if "violated" not in r:
                break
            ce = json.load(open(r["ce"]))
            l = ce["counterexample"]["state"][-1][1]["l"]
            out.append(json.loads(lines[off + l - 2]))
            off += l - 1
        return out, len(lines)

    total = 0
    with ThreadPoolExecutor(max_workers=k) as ex:
        for out, n in ex.map(one, range(k)):
            fails += out
            total += n
    admitted = 0
    for i in range(k):
        for line in open(work.path("auth", "out%d.ndjson" % i)):
            if json.loads(line).get("admitted"):
                admitted += 1
    # the HTTP surface around the two authenticated mounts (Http.tla): the table properties with TLC, every row on the
    # real handlers.  Only an entry into a wrapped handler that the table forbids (a pre-flight or a request without a
    # valid token reaching the relay or the smoke test) is a C15 matter; other deviations are recorded as conformance notes.
    surface = None
    if not replay:
        rt = work.tlc("http-table", "Http", "SPECIFICATION HSpec\nINVARIANTS PreflightNeverEnters NoTokenNoEntry CorsOnEveryAnswer ReadyIff\nCHECK_DEADLOCK FALSE\n",
                      workers=2, timeout=300, dump=False)
        if "error" in rt or rt.get("timeout"):
            raise Inconclusive("Http.tla failed: %s" % rt.get("error", "timeout"))
        hp = work.path("httpsurf.ndjson")
        work.run_harness(["httpsurf", "-out", hp], timeout=300)
        hrows = [json.loads(x) for x in open(hp)]
        dev, off = [], 0
        while off < len(hrows) and len(dev) < 20:
            part = hp + ".part"
            write_ndjson(part, hrows[off:])
            rv = work.tlc("http-tv", "Http", "SPECIFICATION TSpec\nINVARIANT Ok_Http\nCHECK_DEADLOCK FALSE\nPOSTCONDITION TraceAccepted\n", workers=1, timeout=300,
                          env=dict(VERIF_TRACE=part))
            if "error" in rv or rv.get("timeout"):
                raise Inconclusive("Http trace validation failed: %s" % rv.get("error", "timeout"))
            if "violated" not in rv:
                break
            l = json.load(open(rv["ce"]))["counterexample"]["state"][-1][1]["l"]
            dev.append(hrows[off + l - 2])
            off += l - 1
        surface = dict(table_states=rt.get("distinct"), table_violated=rt.get("violated"), rows_on_real_handlers=len(hrows), deviations=dev)
        work.log("Http.tla: %s table rows%s; %d rows on the real handlers, %d deviations" % (
            rt.get("distinct"), " VIOLATED " + rt["violated"] if "violated" in rt else "", len(hrows), len(dev)))
        for d in dev:
            if d.get("k") == "row" and d.get("entered") and d["endpoint"] in ("relay", "smoketest") and (d["token"] == "none" or d["method"] == "OPTIONS" and d["endpoint"] == "relay"):
                fails.append(dict(secret="s1", header="absent" if d["token"] == "none" else "valid_s1", query="absent", cookie="absent", bearer=True,
                                  endpoint=d["endpoint"], admitted=True, entered=True, method=d["method"], surface_row=d))
    violations, known, seen = [], [], set()
    for row in fails:
        eff = row["header"] if (row["header"] != "absent" and row["bearer"]) else (row["query"] if row["query"] != "absent" else row["cookie"])
        sig = dict(secret=row["secret"] != "none", effective=eff, endpoint=row["endpoint"], admitted=row["admitted"], entered=row["entered"])
        key = json.dumps(sig, sort_keys=True)
        kf = known_match("C15", sig)
        if kf:
            known.append(kf)
            continue
        if key in seen:
            continue
        seen.add(key)
        violations.append((row, save_replay("C15", "%s-%s-%s" % (row["secret"], eff, row["endpoint"]), [row])))
    coverage = dict(states=mc.get("distinct", 0) or 1, transitions=mc.get("generated", 0) or 1, traces_validated_against_impl=total,
                    rows=total, admitted=admitted, exhaustive=(tier == "thorough"),
                    samples=[rows[0], rows[1]] if len(rows) > 1 else rows, failing=fails[:10], http_surface=surface)
    write_evidence(work, "model_checking", coverage,
                   ["token strings inside a class are minted by the harness with golang-jwt (the library hagall-common uses): cryptographic validity is the library's; 'every mutation of a valid token' is sampled per class",
                    "the mux is built in the harness with the same shape as cmd/main.go ('/' behind HandleWithCORS(websocket.Server{Handshake: VerifyAuthToken}), '/smoke-test' behind VerifyAuthTokenHandler); cmd/main.go itself is not executed",
                    "future_near = issued 4 s in the future (inside the 10 s leeway of hagall-common); just_expired = expired 3 s ago (the library has no leeway on exp), expires_soon = 45 s left"],
                   violations=len(violations))
    for kf in known:
        print("KNOWN-FINDING: property=C15 %s" % kf.get("what", kf["id"]))
    if mc.get("violated") and not violations:
        raise Inconclusive("TLC refutes %s on Auth.tla" % mc["violated"])
    if violations:
        for row, path in violations:
            print("VIOLATION property=C15 replay=%s" % path)
            print("  %s" % json.dumps(row))
        return 1
    if not replay and admitted < 50:
        raise Inconclusive("vacuity gate: only %d requests were admitted" % admitted)
    print("OK property=C15 tier=%s: %s model states; %d requests against the real handshake/middleware, %d admitted" % (tier, mc.get("distinct"), total, admitted))
    return 0
