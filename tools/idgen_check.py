"""C10, id-source part: IdGen.tla exhaustively, all short allocate/release scripts replayed on the real
SequentialIDGenerator and validated by TLC (IdGenTrace), plus a real-thread burst with an ownership monitor."""
import itertools, json, os
from concurrent.futures import ThreadPoolExecutor
from vlib import NCPU, Inconclusive


def run(work, tier):
    maxops = 8 if tier == "quick" else 10
    cfg = ("SPECIFICATION ISpec\nCONSTANTS\n  MaxOps = %d\n  MaxHeld = 4\n"
           "INVARIANTS NeverReissuesHeld Disjoint Accounted\nCHECK_DEADLOCK FALSE\n" % maxops)
    r = work.tlc("idgen-mc", "IdGen", cfg, workers=4, timeout=600, dump=False)
    if "error" in r or r.get("timeout"):
        raise Inconclusive("IdGen model check failed: %s" % r.get("error", "timeout"))
    res = dict(mc=dict(distinct=r.get("distinct", 0), generated=r.get("generated", 0), violated=r.get("violated")))
    # all scripts up to length L over {N,1,2,3}
    L = 6 if tier == "quick" else 8
    scripts = []
    for n in range(1, L + 1):
        for t in itertools.product("N123", repeat=n):
            s = "".join(t)
            if s[0] == "N":
                scripts.append(s)
    k = min(NCPU, 8)
    files = []
    for i in range(k):
        p = work.path("idgen", "scripts%d.txt" % i)
        with open(p, "w") as f:
            f.write("\n".join(scripts[i::k]) + "\n")
        files.append(p)
    fails = []

    def one(i):
        tr = files[i] + ".trace"
        work.run_harness(["idgen", "-in", files[i], "-out", tr])
        cfg = "SPECIFICATION TSpec\nCONSTANTS\n  MaxOps = 0\n  MaxHeld = 0\nINVARIANTS StepAllowed NeverReissuesHeld Disjoint Accounted\nCHECK_DEADLOCK FALSE\nPOSTCONDITION TraceAccepted\n"
        rr = work.tlc("idgen-tv%d" % i, "IdGenTrace", cfg, workers=1, timeout=1800, env=dict(VERIF_TRACE=tr))
        if "error" in rr or rr.get("timeout"):
            raise Inconclusive("IdGen trace validation failed: %s" % rr.get("error", "timeout"))
        if "violated" in rr:
            ce = json.load(open(rr["ce"]))
            l = ce["counterexample"]["state"][-1][1]["l"]
            lines = open(tr).readlines()
            j = l - 2
            while j >= 0 and json.loads(lines[j])["op"] != "reset":
                j -= 1
            return dict(inv=rr["violated"], script=json.loads(lines[j])["script"], record=json.loads(lines[l - 2]))
        return None

    with ThreadPoolExecutor(max_workers=k) as ex:
        for f in ex.map(one, range(k)):
            if f:
                fails.append(f)
    res["scripts"] = len(scripts)
    res["fails"] = fails
    burst = json.loads(work.run_harness(["idburst", "-g", "16", "-n", "20000" if tier == "quick" else "200000", "-seed", str(work.seed)]))
    res["burst"] = burst
    if burst["duplicates"]:
        res["fails"].append(dict(inv="burst-ownership", script="16 goroutines", record=burst))
    return res
