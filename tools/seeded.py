#!/usr/bin/env python3
"""Seeded breakages: keep, verify and run the checks against changes to aukilabs/hagall that break a property
while compiling and passing the existing tests.

  seeded.py add <id> <worktree-of-the-subagent> <property>   copy patch.diff / demo / notes to /verif/seeded/<id>/
  seeded.py verify <id>                                       confirm in a scratch worktree: suite passes with it,
                                                              demo fails with it, demo passes without it
  seeded.py run <id> [<property> ...]                         run bin/check <property> quick against a scratch worktree with the change
"""
import json, os, re, shutil, subprocess, sys, tempfile, time

V = os.path.dirname(os.path.dirname(os.path.abspath(__file__)))
ENV = dict(os.environ, GOFLAGS="-mod=mod", GOPROXY="off", GOSUMDB="off", GOTOOLCHAIN="local")


def sh(cmd, cwd=None, timeout=1800):
    r = subprocess.run(cmd, shell=True, cwd=cwd, env=ENV, capture_output=True, text=True, timeout=timeout)
    return r.returncode, (r.stdout + r.stderr)


def sdir(i):
    return os.path.join(V, "seeded", i)


def meta(i):
    p = os.path.join(sdir(i), "meta.json")
    return json.load(open(p)) if os.path.exists(p) else {}


def save_meta(i, m):
    json.dump(m, open(os.path.join(sdir(i), "meta.json"), "w"), indent=1)


def add(i, src, prop):
    os.makedirs(sdir(i), exist_ok=True)
    shutil.copy(os.path.join(src, "patch.diff"), os.path.join(sdir(i), "patch.diff"))
    demo = os.path.join(src, "demo_test.go.txt")
    first = open(demo).readline()
    m = re.search(r"place at (\S+)", first)
    place = m.group(1) if m else "websocket/zz_demo_test.go"
    shutil.copy(demo, os.path.join(sdir(i), "demo_test.go.txt"))
    if os.path.exists(os.path.join(src, "MUTATION.md")):
        shutil.copy(os.path.join(src, "MUTATION.md"), os.path.join(sdir(i), "MUTATION.md"))
    mt = meta(i)
    mt.update(id=i, property=prop, demo_path=place, source="independent sub-agent given only the property text")
    save_meta(i, mt)


def verify(i):
    mt = meta(i)
    d = tempfile.mkdtemp(prefix="seedv-")
    wt = os.path.join(d, "wt")
    try:
        rc, o = sh("git -C /repo worktree add -q --detach %s HEAD" % wt)
        if rc:
            return dict(ok=False, why="worktree: " + o)
        rc, o = sh("git apply %s" % os.path.join(sdir(i), "patch.diff"), cwd=wt)
        if rc:
            rc, o = sh("git apply --3way %s" % os.path.join(sdir(i), "patch.diff"), cwd=wt)
        if rc:
            return dict(ok=False, why="patch does not apply to the current tree: " + o[-400:])
        rc, o = sh("go build ./...", cwd=wt)
        if rc:
            return dict(ok=False, why="does not compile: " + o[-400:])
        suite_ok = False
        for attempt in range(3):
            rc, o = sh("go test -vet=off -count=1 ./...", cwd=wt)
            fails = re.findall(r"^--- FAIL: (\S+)", o, re.M)
            if rc == 0 or set(fails) <= {"TestHandlerHandleSignedLatency"}:
                suite_ok = True
                break
        demo = os.path.join(wt, mt["demo_path"])
        shutil.copy(os.path.join(sdir(i), "demo_test.go.txt"), demo)
        pkg = "./" + os.path.dirname(mt["demo_path"]) + "/"
        rc1, o1 = sh("go test -vet=off -count=1 -run 'Demo|TestZZ' %s" % pkg, cwd=wt)
        sh("git apply -R %s" % os.path.join(sdir(i), "patch.diff"), cwd=wt)
        rc2, o2 = sh("go test -vet=off -count=1 -run 'Demo|TestZZ' %s" % pkg, cwd=wt)
        res = dict(ok=suite_ok and rc1 != 0 and rc2 == 0, suite_passes_with_change=suite_ok, demo_fails_with_change=rc1 != 0,
                   demo_passes_without_change=rc2 == 0)
        if not res["ok"]:
            res["detail"] = (o[-300:] if not suite_ok else "") + (o1[-300:] if rc1 == 0 else "") + (o2[-300:] if rc2 != 0 else "")
        return res
    finally:
        sh("git -C /repo worktree remove --force %s" % wt)
        shutil.rmtree(d, ignore_errors=True)


def run(i, props):
    """run the checks against a scratch worktree of /repo HEAD with the change applied (VERIF_REPO), evidence and
    replays redirected to the scratch directory (VERIF_OUT): /repo and /verif/evidence are not touched"""
    mt = meta(i)
    props = props or [mt["property"]]
    d = tempfile.mkdtemp(prefix="seedr-")
    wt = os.path.join(d, "wt")
    out = {}
    try:
        rc, o = sh("git -C /repo worktree add -q --detach %s HEAD" % wt)
        if rc:
            print("worktree:", o[-300:])
            return 2
        pf = os.path.join(sdir(i), "patch.diff")
        rc, o = sh("git apply %s || git apply --3way %s" % (pf, pf), cwd=wt)
        if rc:
            print("patch does not apply:", o[-300:])
            return 2
        env = dict(ENV, VERIF_REPO=wt, VERIF_OUT=os.path.join(d, "out"))
        for p in props:
            t0 = time.time()
            r = subprocess.run("bin/check %s quick" % p, shell=True, cwd=V, env=env, capture_output=True, text=True, timeout=3600)
            rc, o = r.returncode, r.stdout + r.stderr
            viol = re.findall(r"^VIOLATION property=(\S+) replay=(\S+)", o, re.M)
            out[p] = dict(exit=rc, violations=len(viol), first=(o.split("VIOLATION")[1][:300] if viol else ""), wall_s=round(time.time() - t0))
            print(i, p, "exit", rc, "violations", len(viol), (o.strip().splitlines() or [""])[-1][:200])
            if rc not in (0, 1):
                print(o[-1500:])
    finally:
        sh("git -C /repo worktree remove --force %s" % wt)
        shutil.rmtree(d, ignore_errors=True)
    mt.setdefault("runs", {}).update(out)
    save_meta(i, mt)
    return 0


def main():
    cmd = sys.argv[1]
    if cmd == "add":
        add(sys.argv[2], sys.argv[3], sys.argv[4])
    elif cmd == "verify":
        r = verify(sys.argv[2])
        mt = meta(sys.argv[2])
        mt["verified"] = r
        save_meta(sys.argv[2], mt)
        print(sys.argv[2], r)
    elif cmd == "run":
        sys.exit(run(sys.argv[2], sys.argv[3:]))


main()
