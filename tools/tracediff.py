#!/usr/bin/env python3
"""Show, for a TLC counterexample dumped with -dumpTrace json, how the last
state's logged outcome (cur, ev.out, ev.ret) differs from each allowed outcome in exp."""
import json, sys

def diff(a, b, path=""):
    out = []
    if type(a) != type(b):
        out.append(f"{path}: {json.dumps(a)[:300]}  !=  {json.dumps(b)[:300]}")
    elif isinstance(a, dict):
        for k in sorted(set(a) | set(b)):
            if k not in a: out.append(f"{path}.{k}: <absent> != {json.dumps(b[k])[:300]}")
            elif k not in b: out.append(f"{path}.{k}: {json.dumps(a[k])[:300]} != <absent>")
            else: out += diff(a[k], b[k], path + "." + k)
    elif isinstance(a, list):
        if len(a) != len(b):
            out.append(f"{path}: len {len(a)} != {len(b)}: {json.dumps(a)[:300]} != {json.dumps(b)[:300]}")
        else:
            for i, (x, y) in enumerate(zip(a, b)):
                out += diff(x, y, f"{path}[{i}]")
    elif a != b:
        out.append(f"{path}: {json.dumps(a)} != {json.dumps(b)}")
    return out

d = json.load(open(sys.argv[1]))
states = d["counterexample"]["state"] if "counterexample" in d else d
last = states[-1]
if isinstance(last, list): last = last[1]
print("l =", last["l"], " ev.step =", last["ev"]["step"], "conn", last["ev"]["conn"], "req", json.dumps(last["ev"]["req"]), "ret", last["ev"]["ret"])
exp = last["exp"]
print(len(exp), "allowed outcome(s)")
for i, o in enumerate(exp):
    print(f"--- outcome {i}: (logged  !=  spec)")
    for line in diff(last["cur"], o["st"], "st")[:40]: print("  ", line)
    for line in diff(last["ev"]["out"], o["out"], "out")[:40]: print("  ", line)
    if last["ev"]["ret"] != o["ret"]: print("   ret:", last["ev"]["ret"], "!=", o["ret"])
