package main

// C15: the decision table of Auth.tla concretised against the real handshake
// (http.VerifyAuthToken) and middleware (http.VerifyAuthTokenHandler), mounted
// like cmd/main.go, with a harness-owned inner handler and a real hds.Client
// whose secret is set through SetServerData.

import (
	"bufio"
	"crypto/rand"
	"crypto/rsa"
	"encoding/base64"
	"encoding/json"
	"flag"
	"fmt"
	"io"
	"net/http"
	"net/http/httptest"
	"os"
	"strings"
	"sync/atomic"
	"time"

	"github.com/aukilabs/go-tooling/pkg/logs"
	hds "github.com/aukilabs/hagall-common/hdsclient"
	httpcmn "github.com/aukilabs/hagall-common/http"
	hagallhttp "github.com/aukilabs/hagall/http"
	"github.com/golang-jwt/jwt/v4"
	"golang.org/x/net/websocket"
)

var secrets = map[string]string{"s1": "c2VjcmV0LW9uZS1zZWNyZXQtb25l", "s2": "dHdvLXR3by10d28tdHdvLXR3by10d28"}

func mintClaims(iat, exp time.Time) httpcmn.HagallUserClaim {
	return httpcmn.HagallUserClaim{RegisteredClaims: jwt.RegisteredClaims{Issuer: "HDS", IssuedAt: jwt.NewNumericDate(iat),
		ExpiresAt: jwt.NewNumericDate(exp), ID: fmt.Sprint(time.Now().UnixNano())}, AppKey: "app"}
}

var rsaKey *rsa.PrivateKey

// the valid tokens are minted once and presented again and again (like a real client does):
// whether one is admitted must depend on the server's state at that moment only
var minted = map[string]string{}

func token(class string, salt int) string {
	if class == "valid_s1" || class == "valid_s2" {
		if t, ok := minted[class]; ok && salt%5 != 0 {
			return t
		}
		t := tokenFresh(class, salt)
		minted[class] = t
		return t
	}
	return tokenFresh(class, salt)
}

func tokenFresh(class string, salt int) string {
	now := time.Now()
	hs := func(secret string, iat, exp time.Time) string {
		t, _ := jwt.NewWithClaims(jwt.SigningMethodHS256, mintClaims(iat, exp)).SignedString([]byte(secret))
		return t
	}
	switch class {
	case "absent":
		return ""
	case "valid_s1":
		t, _ := httpcmn.GenerateHagallUserAccessToken("app", secrets["s1"], time.Hour)
		return t
	case "valid_s2":
		t, _ := httpcmn.GenerateHagallUserAccessToken("app", secrets["s2"], time.Hour)
		return t
	case "expired":
		return hs(secrets["s1"], now.Add(-2*time.Hour), now.Add(-time.Hour))
	case "just_expired":
		// the boundary of the expiry comparison from the inside: there is no leeway on exp
		return hs(secrets["s1"], now.Add(-time.Hour), now.Add(-3*time.Second))
	case "expires_soon":
		return hs(secrets["s1"], now.Add(-time.Hour), now.Add(45*time.Second))
	case "future_near":
		return hs(secrets["s1"], now.Add(4*time.Second), now.Add(time.Hour))
	case "future_far":
		return hs(secrets["s1"], now.Add(time.Hour), now.Add(2*time.Hour))
	case "empty_key":
		// well-formed, unexpired, signed with the EMPTY key: it verifies against "no secret" if that is ever used as a key
		return hs("", now, now.Add(time.Hour))
	case "wrongsig":
		t := hs(secrets["s1"], now, now.Add(time.Hour))
		// another signature of the right length: sign the same claims with a different key
		parts := strings.Split(t, ".")
		other := strings.Split(hs("not-the-secret-"+fmt.Sprint(salt), now, now.Add(time.Hour)), ".")
		return parts[0] + "." + parts[1] + "." + other[2]
	case "alg_none":
		t, _ := jwt.NewWithClaims(jwt.SigningMethodNone, mintClaims(now, now.Add(time.Hour))).SignedString(jwt.UnsafeAllowNoneSignatureType)
		return t
	case "alg_rs256":
		if rsaKey == nil {
			rsaKey, _ = rsa.GenerateKey(rand.Reader, 1024)
		}
		t, _ := jwt.NewWithClaims(jwt.SigningMethodRS256, mintClaims(now, now.Add(time.Hour))).SignedString(rsaKey)
		return t
	case "garbage":
		return []string{"abc", "a.b.c", "....", "eyJhbGciOiJIUzI1NiJ9.e30", strings.Repeat("A", 300)}[salt%5]
	case "payload_tampered":
		t := hs(secrets["s1"], now, now.Add(time.Hour))
		parts := strings.Split(t, ".")
		pl, _ := base64.RawURLEncoding.DecodeString(parts[1])
		pl2 := strings.Replace(string(pl), `"app_key":"app"`, `"app_key":"apq"`, 1)
		return parts[0] + "." + base64.RawURLEncoding.EncodeToString([]byte(pl2)) + "." + parts[2]
	case "header_tampered":
		t := hs(secrets["s1"], now, now.Add(time.Hour))
		parts := strings.Split(t, ".")
		return base64.RawURLEncoding.EncodeToString([]byte(`{"alg":"HS256","typ":"JWT","x":`+fmt.Sprint(salt)+`}`)) + "." + parts[1] + "." + parts[2]
	}
	return ""
}

func cmdAuth(args []string) {
	fs := flag.NewFlagSet("auth", flag.ExitOnError)
	in := fs.String("in", "", "rows (ndjson)")
	outp := fs.String("out", "", "trace (ndjson)")
	fs.Parse(args)
	logs.SetLogger(func(logs.Entry) {})
	client := hds.NewClient(hds.WithHagallEndpoint("http://verif.local"), hds.WithHDSEndpoint("http://127.0.0.1:1"),
		hds.WithEncoder(json.Marshal), hds.WithDecoder(json.Unmarshal))
	var entered atomic.Int64
	var mux http.ServeMux
	mux.Handle("/", hagallhttp.HandleWithCORS(websocket.Server{
		Handshake: hagallhttp.VerifyAuthToken(nil, client),
		Handler: func(ws *websocket.Conn) {
			entered.Add(1)
			io.WriteString(ws, "in")
			ws.Close()
		},
	}))
	mux.HandleFunc("/smoke-test", hagallhttp.VerifyAuthTokenHandler(client, func(w http.ResponseWriter, r *http.Request) {
		entered.Add(1)
		w.WriteHeader(http.StatusOK)
	}))
	srv := httptest.NewServer(&mux)
	defer srv.Close()
	f, err := os.Open(*in)
	if err != nil {
		fatal(2, "%v", err)
	}
	defer f.Close()
	of, _ := os.Create(*outp)
	defer of.Close()
	bw := bufio.NewWriter(of)
	defer bw.Flush()
	enc := json.NewEncoder(bw)
	sc := bufio.NewScanner(f)
	n := 0
	for sc.Scan() {
		var row M
		if json.Unmarshal(sc.Bytes(), &row) != nil {
			continue
		}
		n++
		switch gets(row, "secret") {
		case "none":
			client.SetServerData("srv", "")
		default:
			client.SetServerData("srv", secrets[gets(row, "secret")])
		}
		th, tq, tc := token(gets(row, "header"), n), token(gets(row, "query"), n+1), token(gets(row, "cookie"), n+2)
		before := entered.Load()
		admitted := false
		status := 0
		url := srv.URL
		q := ""
		if tq != "" {
			q = "?access_token=" + tq
		}
		hdr := http.Header{}
		if th != "" {
			if getb(row, "bearer") {
				hdr.Set("Authorization", "Bearer "+th)
			} else {
				hdr.Set("Authorization", th)
			}
		}
		if tc != "" {
			hdr.Set("Cookie", "access_token="+tc)
		}
		if gets(row, "endpoint") == "relay" {
			cfg, _ := websocket.NewConfig(strings.Replace(url, "http://", "ws://", 1)+"/"+q, "http://localhost")
			for k, v := range hdr {
				cfg.Header[k] = v
			}
			ws, err := websocket.DialConfig(cfg)
			if err == nil {
				admitted = true
				buf := make([]byte, 8)
				ws.SetReadDeadline(time.Now().Add(2 * time.Second))
				ws.Read(buf)
				ws.Close()
				status = 101
			} else {
				status = 403
			}
		} else {
			req, _ := http.NewRequest("POST", url+"/smoke-test"+q, strings.NewReader("{}"))
			for k, v := range hdr {
				req.Header[k] = v
			}
			resp, err := http.DefaultClient.Do(req)
			if err == nil {
				status = resp.StatusCode
				admitted = resp.StatusCode == 200
				resp.Body.Close()
			}
		}
		time.Sleep(time.Millisecond)
		row["admitted"] = admitted
		row["entered"] = entered.Load() > before
		row["status"] = status
		enc.Encode(row)
	}
	fmt.Printf("auth: %d rows\n", n)
}
