package main

// httpsurf: the HTTP surface of http/*.go mounted like cmd/main.go (CORS wrapper, readiness, version, admin health,
// authenticated smoke-test mount, metrics path formatter); every row of the decision table of Http.tla is sent to the
// real handlers.

import (
	"encoding/json"
	"flag"
	"io"
	"net/http"
	"net/http/httptest"
	"os"
	"strings"
	"sync/atomic"
	"time"

	"github.com/aukilabs/go-tooling/pkg/logs"
	hds "github.com/aukilabs/hagall-common/hdsclient"
	httpcmn "github.com/aukilabs/hagall-common/http"
	hagallhttp "github.com/aukilabs/hagall/http"
	"golang.org/x/net/websocket"
)

func cmdHTTPSurf(args []string) {
	fs := flag.NewFlagSet("httpsurf", flag.ExitOnError)
	outp := fs.String("out", "", "trace (ndjson)")
	fs.Parse(args)
	logs.SetLogger(func(logs.Entry) {})
	const version = "v9.9.9-verif"
	client := hds.NewClient(hds.WithHagallEndpoint("http://verif.local"), hds.WithHDSEndpoint("http://127.0.0.1:1"),
		hds.WithEncoder(json.Marshal), hds.WithDecoder(json.Unmarshal))
	client.SetServerData("srv", secrets["s1"])
	var entered atomic.Int64
	var ready atomic.Bool
	readiness := func() bool { return ready.Load() }
	count := func(h http.Handler) http.Handler {
		return http.HandlerFunc(func(w http.ResponseWriter, r *http.Request) { entered.Add(1); h.ServeHTTP(w, r) })
	}
	var mux http.ServeMux
	mux.Handle("/", hagallhttp.HandleWithCORS(websocket.Server{
		Handshake: hagallhttp.VerifyAuthToken(nil, client),
		Handler:   func(ws *websocket.Conn) { entered.Add(1); ws.Close() },
	}))
	mux.Handle("/version", hagallhttp.HandleWithCORS(count(http.HandlerFunc(hagallhttp.HandleVersion(version)))))
	mux.Handle("/ready", hagallhttp.HandleWithCORS(count(http.HandlerFunc(hagallhttp.HandleReadyCheck(readiness)))))
	mux.HandleFunc("/smoke-test", hagallhttp.VerifyAuthTokenHandler(client, func(w http.ResponseWriter, r *http.Request) {
		entered.Add(1)
		w.WriteHeader(http.StatusOK)
	}))
	var admin http.ServeMux
	admin.Handle("/health", count(http.HandlerFunc(hagallhttp.HandleHealthCheck)))
	admin.Handle("/ready", count(http.HandlerFunc(hagallhttp.HandleReadyCheck(readiness))))
	srv, adm := httptest.NewServer(&mux), httptest.NewServer(&admin)
	defer srv.Close()
	defer adm.Close()
	of, _ := os.Create(*outp)
	defer of.Close()
	enc := json.NewEncoder(of)
	valid, _ := httpcmn.GenerateHagallUserAccessToken("app", secrets["s1"], time.Hour)
	urls := map[string]string{"relay": srv.URL + "/", "version": srv.URL + "/version", "ready": srv.URL + "/ready",
		"smoketest": srv.URL + "/smoke-test", "adminready": adm.URL + "/ready", "adminhealth": adm.URL + "/health"}
	for _, ep := range []string{"relay", "version", "ready", "adminready", "adminhealth", "smoketest"} {
		for _, method := range []string{"GET", "POST", "OPTIONS", "HEAD"} {
			for _, rd := range []bool{false, true} {
				for _, tok := range []string{"none", "valid"} {
					ready.Store(rd)
					var body io.Reader
					if method == "POST" {
						body = strings.NewReader("{}")
					}
					req, _ := http.NewRequest(method, urls[ep], body)
					if tok == "valid" {
						req.Header.Set("Authorization", "Bearer "+valid)
					}
					before := entered.Load()
					resp, err := http.DefaultClient.Do(req)
					if err != nil {
						fatal(2, "httpsurf: %v", err)
					}
					b, _ := io.ReadAll(resp.Body)
					resp.Body.Close()
					h := resp.Header
					cors := h.Get("Access-Control-Allow-Origin") == "*" && strings.Contains(h.Get("Access-Control-Allow-Methods"), "OPTIONS") &&
						h.Get("Access-Control-Allow-Headers") != ""
					enc.Encode(M{"k": "row", "endpoint": ep, "method": method, "ready": rd, "token": tok, "status": resp.StatusCode,
						"cors": cors, "entered": entered.Load() > before, "body": string(b), "version": version})
				}
			}
		}
	}
	for _, st := range []int{200, 201, 301, 302, 400, 401, 403, 404, 405, 500, 503} {
		for _, p := range []string{"/", "/ready", "/unknown/path", ""} {
			enc.Encode(M{"k": "path", "status": st, "path": p, "label": hagallhttp.MetricsPathFormatter(st, p)})
		}
	}
}
