package main

// C20: quads inserted through the real dagaz module (handler level), with participants joining and
// leaving; after every step the real RegularGrid is projected EXACTLY to integers (absolute cell
// coordinates, footprint rectangles) together with the answers of the region / ray / debug queries.

import (
	"bufio"
	"encoding/json"
	"flag"
	"fmt"
	"math"
	"os"
	"sort"

	"github.com/aukilabs/hagall/models"
	"github.com/aukilabs/hagall/modules/dagaz"
)

type GScenario struct {
	GID string `json:"gid"`
	Ops []M    `json:"ops"`
}

func f64(v float32) float64 { return float64(v) }

func floorDiv(a float64, res float64) int { return int(math.Floor(a / res)) }

type gridProj struct {
	w      *World
	ids    map[*dagaz.Quad]int
	tokens map[*dagaz.RegularGrid]int
}

func (g *gridProj) project(s *models.Session) M {
	st, ok := s.VerifModuleStates()["dagaz"].(*dagaz.State)
	if !ok || st.SpatialPartition == nil {
		return M{"present": false}
	}
	grid := st.SpatialPartition.(*dagaz.RegularGrid)
	if _, ok := g.tokens[grid]; !ok {
		g.tokens[grid] = len(g.tokens) + 1
	}
	res := float64(grid.Resolution)
	mnx, _, mnz := grid.Min.VerifXYZ()
	mxx, _, mxz := grid.Max.VerifXYZ()
	offX, offZ := floorDiv(f64(mnx), res), floorDiv(f64(mnz), res)
	reg := map[int]map[[2]int]int{}
	var order []*dagaz.Quad
	for row := range grid.Grid {
		for col := range grid.Grid[row] {
			for _, q := range grid.Grid[row][col] {
				if _, ok := g.ids[q]; !ok {
					g.ids[q] = len(g.ids) + 1
				}
				id := g.ids[q]
				if reg[id] == nil {
					reg[id] = map[[2]int]int{}
					order = append(order, q)
				}
				reg[id][[2]int{col + offX, row + offZ}]++
			}
		}
	}
	sort.Slice(order, func(i, j int) bool { return g.ids[order[i]] < g.ids[order[j]] })
	planes := [][]any{}
	for _, q := range order {
		id := g.ids[q]
		cx, cy, cz := q.Center.VerifXYZ()
		ex, _, ez := q.Extents.VerifXYZ()
		// cells the footprint (c-e, c+e) overlaps with positive area, exact in float64
		// (cells that the footprint overlaps by less than a millimetre are not demanded: merged planes have
		//  centres and extents that are not exactly representable and the code computes their edges in float32)
		const eps = 1e-3
		lox, hix := f64(cx)-f64(ex)+eps, f64(cx)+f64(ex)-eps
		loz, hiz := f64(cz)-f64(ez)+eps, f64(cz)+f64(ez)-eps
		x0, z0 := floorDiv(lox, res), floorDiv(loz, res)
		x1, z1 := int(math.Ceil(hix/res))-1, int(math.Ceil(hiz/res))-1
		if x1 < x0 {
			x1 = x0
		}
		if z1 < z0 {
			z1 = z0
		}
		cells := [][]int{}
		dups := 0
		for c, n := range reg[id] {
			cells = append(cells, []int{c[0], c[1]})
			if n > 1 {
				dups += n - 1
			}
		}
		cells = sortRows(cells)
		// a vertical ray through the centre
		hit, _ := grid.IntersectQuad(dagaz.Ray{From: dagaz.NewVector3f(cx, cy+1, cz), To: dagaz.NewVector3f(cx, cy-1, cz)})
		hid := 0
		if hit != nil {
			hid = g.ids[hit]
			if hid == 0 {
				hid = -1
			}
		}
		// the closed cell range the code itself computes (float32 min/max points, then floor)
		mnpx, mxpx, mnpz, mxpz := cx-ex, cx+ex, cz-ez, cz+ez
		// (the subtraction of the grid origin is a float32 operation in the code)
		crect := []int{floorDiv(f64(mnpx-mnx), res) + offX, floorDiv(f64(mxpx-mnx), res) + offX,
			floorDiv(f64(mnpz-mnz), res) + offZ, floorDiv(f64(mxpz-mnz), res) + offZ}
		planes = append(planes, []any{id, []int{x0, x1, z0, z1}, cells, dups, hid, int(q.MergeCount), crect})
	}
	region := []int{}
	for _, q := range grid.GetRegion(grid.Min, grid.Max) {
		id, ok := g.ids[q]
		if !ok {
			id = -1
		}
		region = append(region, id)
	}
	sort.Ints(region)
	dbg := grid.GetDebugInfo()
	return M{"present": true, "token": g.tokens[grid], "res": int(grid.Resolution),
		"bounds": []int{offX, floorDiv(f64(mxx), res) - 1, offZ, floorDiv(f64(mxz), res) - 1},
		"dims":   []int{len(grid.Grid[0]), len(grid.Grid)}, "count": int(grid.PlaneCount), "merges": int(grid.MergeCount),
		"planes": planes, "region": region, "debug_planes": int(dbg.Plane_count)}
}

func cmdGrid(args []string) {
	fs := flag.NewFlagSet("grid", flag.ExitOnError)
	in := fs.String("in", "", "scenarios (ndjson)")
	outp := fs.String("out", "", "trace (ndjson)")
	fs.Parse(args)
	f, err := os.Open(*in)
	if err != nil {
		fatal(2, "%v", err)
	}
	defer f.Close()
	of, _ := os.Create(*outp)
	defer of.Close()
	bw := bufio.NewWriterSize(of, 1<<20)
	defer bw.Flush()
	enc := json.NewEncoder(bw)
	sc := bufio.NewScanner(f)
	sc.Buffer(make([]byte, 1<<20), 1<<26)
	n := 0
	for sc.Scan() {
		var s GScenario
		if json.Unmarshal(sc.Bytes(), &s) != nil {
			continue
		}
		n++
		w := NewWorld(Config{Mods: []string{"dagaz"}})
		g := &gridProj{w: w, ids: map[*dagaz.Quad]int{}, tokens: map[*dagaz.RegularGrid]int{}}
		enc.Encode(M{"op": "reset", "gid": s.GID})
		for i, op := range s.Ops {
			st := M{"step": "Req", "conn": geti(op, "conn")}
			switch gets(op, "op") {
			case "join":
				st["req"] = map[string]any{"k": "Join", "rid": i + 1, "sid": geti(op, "sid"), "ts": i + 1}
			case "leave":
				st = M{"step": "Disc", "conn": geti(op, "conn")}
			case "open":
				st = M{"step": "Open", "conn": geti(op, "conn")}
			case "quad":
				// coordinates in eighths of a metre: exact in float32
				q := op["q"].([]any)
				v := func(j int) float64 { return q[j].(float64) / 8 }
				st["req"] = map[string]any{"k": "Quad", "quads": []any{[]any{[]any{v(0), v(4), v(1)}, []any{v(2), 0.0, v(3)}}}}
			}
			rec, err := w.Step(i+1, st)
			if err != nil {
				fatal(2, "grid step: %v", err)
			}
			out := M{"op": gets(op, "op"), "conn": geti(op, "conn"), "ret": rec["ret"], "i": i + 1}
			if gets(op, "op") == "quad" {
				out["q"] = op["q"]
			}
			// the grid of session 1 (the scenario keeps one session alive)
			if s1 := w.sessionByID(1); s1 != nil {
				out["grid"] = g.project(s1)
				out["alive"] = true
				out["uuid"] = w.uuidIndex(s1.SessionUUID)
			} else {
				out["grid"] = M{"present": false}
				out["alive"] = false
				out["uuid"] = 0
			}
			// is the sender a member of session 1?
			out["member"] = w.sidOf(geti(op, "conn")) == 1
			enc.Encode(out)
		}
		w.Shutdown()
	}
	fmt.Printf("grid: %d scenarios\n", n)
}

// cmdGeom: the real primitives on a small integer lattice (float32 is exact there)
func cmdGeom(args []string) {
	fs := flag.NewFlagSet("geom", flag.ExitOnError)
	outp := fs.String("out", "", "trace (ndjson)")
	rng := fs.Int("r", 2, "lattice radius")
	fs.Parse(args)
	of, _ := os.Create(*outp)
	defer of.Close()
	bw := bufio.NewWriterSize(of, 1<<20)
	defer bw.Flush()
	enc := json.NewEncoder(bw)
	R := *rng
	iv := func(v dagaz.Vector3f) []int { x, y, z := v.VerifXYZ(); return []int{int(x), int(y), int(z)} }
	var pts [][3]int
	for x := -R; x <= R; x++ {
		for y := -R; y <= R; y++ {
			for z := -R; z <= R; z++ {
				pts = append(pts, [3]int{x, y, z})
			}
		}
	}
	V := func(p [3]int) dagaz.Vector3f { return dagaz.NewVector3f(float32(p[0]), float32(p[1]), float32(p[2])) }
	n := 0
	for i, a := range pts {
		for j, b := range pts {
			if (i*31+j)%7 != 0 && R > 1 {
				continue // a seventh of the pairs on larger lattices
			}
			va := V(a)
			enc.Encode(M{"f": "dot", "a": a, "b": b, "r": int(va.Dot(V(b)))})
			enc.Encode(M{"f": "cross", "a": a, "b": b, "r": iv(dagaz.Cross(V(a), V(b)))})
			n += 2
		}
	}
	type qd struct{ c, e [3]int }
	var quads []qd
	for cx := -2; cx <= 2; cx++ {
		for cz := -2; cz <= 2; cz++ {
			for _, cy := range []int{0, 1} {
				for ex := 1; ex <= 2; ex++ {
					for ez := 1; ez <= 2; ez++ {
						quads = append(quads, qd{[3]int{cx, cy, cz}, [3]int{ex, 0, ez}})
					}
				}
			}
		}
	}
	mk := func(q qd) dagaz.Quad {
		return dagaz.Quad{Center: V(q.c), Extents: V(q.e), Normal: dagaz.VerifNormal(V(q.c), V(q.e))}
	}
	for _, q := range quads {
		enc.Encode(M{"f": "normal", "e": q.e, "r": iv(dagaz.VerifNormal(V(q.c), V(q.e)))})
		n++
	}
	for i, a := range quads {
		for j, b := range quads {
			if (i+j)%3 != 0 {
				continue
			}
			enc.Encode(M{"f": "overlap", "c1": a.c, "e1": a.e, "c2": b.c, "e2": b.e, "r": dagaz.VerifOverlap(mk(a), mk(b))})
			n++
		}
	}
	for _, q := range quads {
		for x := -4; x <= 4; x++ {
			for z := -4; z <= 4; z++ {
				for _, ys := range [][2]int{{3, -3}, {1, 0}, {5, 2}} {
					ray := dagaz.Ray{From: dagaz.NewVector3f(float32(x), float32(ys[0]), float32(z)), To: dagaz.NewVector3f(float32(x), float32(ys[1]), float32(z))}
					hit, t := dagaz.IntersectQuad(ray, mk(q))
					rec := M{"f": "ray", "x": x, "z": z, "y0": ys[0], "y1": ys[1], "c": q.c, "e": q.e, "hit": hit, "tnum": 0}
					if hit {
						rec["tnum"] = int(math.Round(float64(t) * float64(ys[0]-ys[1])))
					}
					enc.Encode(rec)
					n++
				}
			}
		}
	}
	fmt.Printf("geom: %d evaluations\n", n)
}
