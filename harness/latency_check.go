package main

import (
	"github.com/aukilabs/hagall-common/messages/hagallpb"
	"github.com/ethereum/go-ethereum/common/hexutil"
	"github.com/ethereum/go-ethereum/crypto"
	"google.golang.org/protobuf/proto"
)

// decodeLatency decodes a SIGNED_LATENCY_RESPONSE, recovers the signer and
// maps everything to integers (latencies are whole microseconds under the
// virtual clock).
func decodeLatency(w *World, m *hagallpb.SignedLatencyResponse) M {
	rec := M{"t": "SIGNED_LATENCY_RESPONSE", "rid": int(m.RequestId)}
	var d hagallpb.LatencyData
	if err := proto.Unmarshal(m.Data, &d); err != nil {
		rec["decoded"] = false
		return rec
	}
	rec["decoded"] = true
	sig, err := hexutil.Decode(m.Signature)
	signerOK := false
	if err == nil {
		if pub, err := crypto.SigToPub(crypto.Keccak256Hash(m.Data).Bytes(), sig); err == nil {
			signerOK = crypto.PubkeyToAddress(*pub) == crypto.PubkeyToAddress(w.key.PublicKey)
		}
	}
	rec["signer_ok"] = signerOK
	ids := []int{}
	for _, id := range d.PingRequestIds {
		ids = append(ids, w.pingIndex(id))
	}
	sortInts(ids)
	rec["ids"] = ids
	rec["n"] = int(d.IterationCount)
	rec["min"], rec["max"], rec["mean"], rec["p95"], rec["last"] = f2i(d.Min), f2i(d.Max), f2i(d.Mean), f2i(d.P95), f2i(d.Last)
	// the self-consistency clause on the values as they are signed (the integer view above truncates them)
	rec["exact_ok"] = d.Min <= d.Last && d.Last <= d.Max && d.Min <= d.P95 && d.P95 <= d.Max && d.Min <= d.Mean && d.Mean <= d.Max
	rec["uuid"] = w.uuidIndex(d.SessionId)
	rec["client"] = d.ClientId
	rec["wallet"] = d.WalletAddress
	return rec
}

func f2i(f float32) int {
	if f != f || f > 1e15 || f < -1e15 {
		return -999999
	}
	return int(f)
}

func sortInts(a []int) {
	for i := 1; i < len(a); i++ {
		for j := i; j > 0 && a[j] < a[j-1]; j-- {
			a[j], a[j-1] = a[j-1], a[j]
		}
	}
}
