package main

// workers: the per-session frame worker (Session.StartDispatchFrames) stops when the session ends, whatever the
// scheduling (C07).  Sessions are created and ended on the real handlers in patterns that differ in when the worker
// goroutine gets to run relative to Session.Close:
//   tight1   - join then disconnect back to back with GOMAXPROCS(1): the worker has not started when Close runs
//   tight    - the same with all processors
//   yield    - a scheduler yield between join and disconnect: the worker is parked in its select
//   switch   - a member that creates a second session (leaving the first, which ends)
// Afterwards the goroutines inside StartDispatchFrames are counted (after a settling delay): there must be exactly
// one per registered session.

import (
	"context"
	"encoding/json"
	"flag"
	"fmt"
	"os"
	"runtime"
	"strings"
	"time"
)

func frameWorkers() int {
	buf := make([]byte, 1<<22)
	n := runtime.Stack(buf, true)
	c := 0
	for _, g := range strings.Split(string(buf[:n]), "\n\n") {
		if strings.Contains(g, "(*Session).StartDispatchFrames") {
			c++
		}
	}
	return c
}

func cmdWorkers(args []string) {
	fs := flag.NewFlagSet("workers", flag.ExitOnError)
	rounds := fs.Int("rounds", 50, "sessions per pattern")
	fs.Parse(args)
	enc := json.NewEncoder(os.Stdout)
	for _, pat := range []string{"tight1", "tight", "yield", "switch"} {
		w := NewWorld(Config{})
		base := frameWorkers()
		prev := runtime.GOMAXPROCS(0)
		if pat == "tight1" {
			runtime.GOMAXPROCS(1)
		}
		n := 0
		fail := ""
		for r := 1; r <= *rounds && fail == ""; r++ {
			c := w.conn(r)
			join := func(rid int) {
				n++
				msg, err := w.build(M{"k": "Join", "rid": rid, "sid": 0, "ts": rid})
				if err != nil {
					fail = err.Error()
					return
				}
				if res := protect(func() error { return c.vc.HandleMessage(context.Background(), msg, responder{c}) }); res.ret != "ok" {
					fail = "join: " + res.ret + " " + res.note
				}
			}
			join(2 * r)
			if pat == "yield" {
				runtime.Gosched()
				time.Sleep(200 * time.Microsecond)
			}
			if pat == "switch" {
				join(2*r + 1)
			}
			protect(func() error { c.vc.Handler().HandleDisconnect(fmt.Errorf("harness")); return nil })
			c.life = "closed"
		}
		runtime.GOMAXPROCS(prev)
		live := len(w.store.VerifSessions())
		left := -1
		for i := 0; i < 200; i++ {
			left = frameWorkers() - base - live
			if left <= 0 {
				break
			}
			time.Sleep(10 * time.Millisecond)
		}
		enc.Encode(M{"pattern": pat, "sessions": n, "registered": live, "workers_left": left, "note": fail})
		w.Close()
	}
}
