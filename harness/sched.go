package main

import (
	"context"
	"fmt"
	"sort"

	hwebsocket "github.com/aukilabs/hagall-common/websocket"
)

// msched wraps the real hagall-common scheduler of one connection.  The real
// scheduler keeps doing the parking and flushing; the wrapper drains its queue
// channel into a slice right after every Dispatch / HandleFrame so that the
// exact FIFO content is observable (a channel cannot be peeked) and keeps, for
// every message, the abstract request it was built from.
type msched struct {
	real interface {
		hwebsocket.Dispatcher
		hwebsocket.Consumer
	}
	q      []qitem
	pp     map[int]M
	pc     map[[2]int]M
	byBody map[string]M
	bad    string // harness inconsistency, reported as exit 2
}

type qitem struct {
	msg hwebsocket.Msg
	req M
}

func newSched() *msched {
	return &msched{real: hwebsocket.NewScheduler(), pp: map[int]M{}, pc: map[[2]int]M{}, byBody: map[string]M{}}
}

func bodyKey(msg hwebsocket.Msg) string {
	return fmt.Sprintf("%d/%s", msg.Type.Number(), msgBody(msg))
}

func (m *msched) drain() {
	for {
		select {
		case x, ok := <-m.real.Messages():
			if !ok {
				return
			}
			req, known := m.byBody[bodyKey(x)]
			if !known {
				m.bad = "scheduler produced a message the harness never dispatched"
				req = M{"k": "Unknown"}
			}
			m.q = append(m.q, qitem{x, req})
		default:
			return
		}
	}
}

// DispatchReq is what the receiver goroutine does with a frame.
func (m *msched) DispatchReq(req M, msg hwebsocket.Msg) error {
	m.byBody[bodyKey(msg)] = req
	if err := m.real.Dispatch(context.Background(), msg); err != nil {
		return err
	}
	switch gets(req, "k") {
	case "Pose":
		m.pp[geti(req, "eid")] = req
	case "CompUpdate":
		m.pc[[2]int{geti(req, "tid"), geti(req, "eid")}] = req
	}
	m.drain()
	return nil
}

func (m *msched) Dispatch(ctx context.Context, msg hwebsocket.Msg) error {
	return m.real.Dispatch(ctx, msg)
}

// HandleFrame is the callback the session's frame worker calls.
func (m *msched) HandleFrame() {
	m.real.HandleFrame()
	before := len(m.q)
	m.drain()
	if len(m.q)-before != len(m.pp)+len(m.pc) {
		m.bad = fmt.Sprintf("flush moved %d messages, %d were parked", len(m.q)-before, len(m.pp)+len(m.pc))
	}
	m.pp = map[int]M{}
	m.pc = map[[2]int]M{}
}

func (m *msched) Consume(ctx context.Context) (hwebsocket.Msg, error) { return m.real.Consume(ctx) }
func (m *msched) Messages() <-chan hwebsocket.Msg                     { return m.real.Messages() }

func (m *msched) pop() (qitem, bool) {
	if len(m.q) == 0 {
		return qitem{}, false
	}
	it := m.q[0]
	m.q = m.q[1:]
	return it, true
}

func (m *msched) project() (q []M, pp [][]any, pc [][]any) {
	q = []M{}
	for _, it := range m.q {
		q = append(q, it.req)
	}
	pp = [][]any{}
	var es []int
	for e := range m.pp {
		es = append(es, e)
	}
	sort.Ints(es)
	for _, e := range es {
		pp = append(pp, []any{e, m.pp[e]})
	}
	pc = [][]any{}
	var ks [][2]int
	for k := range m.pc {
		ks = append(ks, k)
	}
	sort.Slice(ks, func(i, j int) bool { return ks[i][0] < ks[j][0] || (ks[i][0] == ks[j][0] && ks[i][1] < ks[j][1]) })
	for _, k := range ks {
		pc = append(pc, []any{[]int{k[0], k[1]}, m.pc[k]})
	}
	return
}

// norm completes an abstract request with the defaults of its kind so that
// every field the specification reads is present and typed.
func norm(r M) M {
	o := M{"k": gets(r, "k")}
	I := func(ks ...string) {
		for _, k := range ks {
			o[k] = geti(r, k)
		}
	}
	S := func(ks ...string) {
		for _, k := range ks {
			o[k] = gets(r, k)
		}
	}
	switch gets(r, "k") {
	case "Join":
		I("rid", "sid", "ts")
	case "EntityAdd":
		I("rid", "flag", "px", "ts")
		o["persist"] = getb(r, "persist")
	case "EntityDelete":
		I("rid", "eid", "ts")
	case "Pose":
		I("eid", "px", "ts")
	case "Custom":
		I("len", "dig", "ts")
		to := getl(r, "to")
		if to == nil {
			to = []int{}
		}
		o["to"] = to
	case "TypeAdd", "GetId":
		I("rid")
		S("name")
	case "GetName", "CompList", "Sub", "Unsub":
		I("rid", "tid")
	case "CompAdd":
		I("rid", "tid", "eid", "data", "ts")
	case "CompDelete":
		I("rid", "tid", "eid", "ts")
	case "CompUpdate":
		I("tid", "eid", "data", "ts")
	case "PingResp":
		I("rid", "adv", "pidx")
		if mhas(r, "ref") {
			S("ref")
		}
	case "Receipt":
		I("rid")
		S("receipt", "hash", "sig")
	case "Ping", "Leave", "Debug":
		I("rid")
	case "SignedLatency":
		I("rid", "n")
		S("wallet")
	case "Action":
		I("rid", "eid", "ats", "data", "ts")
		S("name")
		o["has"] = !mhas(r, "has") || getb(r, "has")
	case "AssetAdd":
		I("rid", "eid", "ts")
		S("asset")
	case "Unknown":
		I("rid", "type")
	default:
		for k, v := range r {
			o[k] = v
		}
	}
	return o
}
