module verif/harness

go 1.23.0

require (
	github.com/aukilabs/go-tooling v0.16.2
	github.com/aukilabs/hagall v0.0.0
	github.com/aukilabs/hagall-common v0.2.2
	github.com/ethereum/go-ethereum v1.14.13
	github.com/golang-jwt/jwt/v4 v4.5.2
	github.com/prometheus/client_golang v1.20.5
	golang.org/x/net v0.38.0
	google.golang.org/protobuf v1.36.2
)

require (
	github.com/beorn7/perks v1.0.1 // indirect
	github.com/cespare/xxhash/v2 v2.3.0 // indirect
	github.com/google/uuid v1.6.0 // indirect
	github.com/holiman/uint256 v1.3.2 // indirect
	github.com/munnerz/goautoneg v0.0.0-20191010083416-a7dc8b61c822 // indirect
	github.com/prometheus/client_model v0.6.1 // indirect
	github.com/prometheus/common v0.61.0 // indirect
	github.com/prometheus/procfs v0.15.1 // indirect
	github.com/segmentio/asm v1.2.0 // indirect
	github.com/segmentio/encoding v0.4.1 // indirect
	go.opentelemetry.io/otel v1.33.0 // indirect
	go.opentelemetry.io/otel/trace v1.33.0 // indirect
	golang.org/x/crypto v0.36.0 // indirect
	golang.org/x/sys v0.31.0 // indirect
)

replace github.com/aukilabs/hagall => /repo
