package main

// L1c: handler level under a cooperative scheduler.  Concurrent requests run in
// their own goroutines against the same real objects as L1; every Lock/RLock of
// the hagall packages is a gate (verifrt shim): exactly one task runs between
// two gates, the scheduler mirrors who holds what and therefore knows which
// tasks are enabled.  A schedule (the sequence of choices) determines the
// execution; schedules are enumerated depth-first with a preemption bound.

import (
	"bufio"
	"context"
	"crypto/sha256"
	"encoding/hex"
	"encoding/json"
	"flag"
	"fmt"
	"math/rand"
	"os"
	"runtime"
	"sort"
	"strings"
	gosync "sync"
	"time"

	"github.com/aukilabs/hagall/verifrt"
)

type ctask struct {
	id     int
	conn   int
	req    M
	goid   int64
	resume chan struct{}
	want   *verifrt.Event
	state  string // new | parked | running | done
	res    stepResult
}

type lockState struct {
	writer  int         // task id (0 = none; <0 = unregistered goroutine)
	readers map[int]int // task id -> count
}

type coop struct {
	mu     gosync.Mutex
	byGoid map[int64]*ctask
	locks  map[uintptr]*lockState
	notify chan int // task id that parked or finished
	names  map[uintptr]string
}

func newCoop() *coop {
	return &coop{byGoid: map[int64]*ctask{}, locks: map[uintptr]*lockState{}, notify: make(chan int, 64), names: map[uintptr]string{}}
}

func (c *coop) ls(mu uintptr) *lockState {
	l, ok := c.locks[mu]
	if !ok {
		l = &lockState{readers: map[int]int{}}
		c.locks[mu] = l
	}
	return l
}

func (c *coop) taskOf(g int64) *ctask {
	c.mu.Lock()
	defer c.mu.Unlock()
	return c.byGoid[g]
}

// Before: the gate.  Registered tasks park here until the scheduler resumes them.
func (c *coop) Before(ev *verifrt.Event) {
	t := c.taskOf(ev.G)
	if t == nil {
		return
	}
	c.mu.Lock()
	t.want = ev
	t.state = "parked"
	c.mu.Unlock()
	c.notify <- t.id
	<-t.resume
}

func (c *coop) After(ev *verifrt.Event) {
	c.mu.Lock()
	defer c.mu.Unlock()
	id := 0
	if t := c.byGoid[ev.G]; t != nil {
		id = t.id
	} else {
		id = -int(ev.G)
	}
	l := c.ls(ev.Mu)
	switch ev.Op {
	case verifrt.OpLock:
		l.writer = id
	case verifrt.OpUnlock:
		l.writer = 0
	case verifrt.OpRLock:
		l.readers[id]++
	case verifrt.OpRUnlock:
		l.readers[id]--
		if l.readers[id] <= 0 {
			delete(l.readers, id)
		}
	}
}

func (c *coop) enabled(t *ctask) bool {
	if t.want == nil {
		return true // at the start gate
	}
	l := c.ls(t.want.Mu)
	switch t.want.Op {
	case verifrt.OpLock:
		return l.writer == 0 && len(l.readers) == 0
	case verifrt.OpRLock:
		if l.writer != 0 {
			return false
		}
		// Go's RWMutex: a writer that is waiting (it called Lock while readers hold the mutex)
		// blocks readers that arrive later
		if len(l.readers) > 0 {
			for _, o := range c.byGoid {
				if o != t && o.state == "parked" && o.want != nil && o.want.Op == verifrt.OpLock && o.want.Mu == t.want.Mu {
					return false
				}
			}
		}
		return true
	}
	return true
}

func label(t *ctask) string {
	if t.want == nil {
		return "start"
	}
	fn := t.want.Fn
	if i := strings.Index(fn, "."); i >= 0 {
		fn = fn[i+1:]
	}
	return fmt.Sprintf("%s:%s", fn, t.want.Op)
}

func bareLabel(t *ctask) string { return label(t) }

type decision struct {
	Chosen  int   `json:"c"`
	Enabled []int `json:"e"`
}

type blockRun struct {
	offPrefix int // number of given choices that were not enabled when their turn came
	decisions []decision
	labels    []string
	deadlock  bool
	stuck     string
	results   map[int]stepResult
}

// runBlock executes the tasks under the cooperative scheduler following `prefix`
// (then: keep running the current task while it is enabled, else the lowest id).
func (w *World) runBlock(tasks []*ctask, prefix []int, rng *rand.Rand) blockRun {
	return w.runBlockAuto(tasks, prefix, rng, nil)
}

// runBlockAuto: as runBlock; a task parked in front of a Lock/RLock whose label is in `auto` is resumed at once
// when it is the task that just ran (no decision is taken there: the specification has no location for it).
func (w *World) runBlockAuto(tasks []*ctask, prefix []int, rng *rand.Rand, auto map[string]bool) blockRun {
	c := newCoop()
	verifrt.SetInterceptorMask(c, verifrt.MaskAll)
	defer verifrt.SetInterceptorMask(w.ev, 1<<uint(verifrt.OpRUnlock))
	br := blockRun{results: map[int]stepResult{}}
	started := make(chan struct{}, len(tasks))
	for _, t := range tasks {
		t.resume = make(chan struct{})
		t.state = "new"
		t.want = nil
		go func(t *ctask) {
			c.mu.Lock()
			t.goid = verifrt.GoID()
			c.byGoid[t.goid] = t
			t.state = "parked"
			c.mu.Unlock()
			started <- struct{}{}
			<-t.resume // start gate
			t.res = w.runTask(t)
			c.mu.Lock()
			t.state = "done"
			delete(c.byGoid, t.goid)
			c.mu.Unlock()
			c.notify <- t.id
		}(t)
	}
	for range tasks {
		<-started
	}
	cur := -1
	for step := 0; ; step++ {
		c.mu.Lock()
		var en []int
		alldone := true
		for _, t := range tasks {
			if t.state != "done" {
				alldone = false
			}
			if t.state == "parked" && c.enabled(t) {
				en = append(en, t.id)
			}
		}
		c.mu.Unlock()
		if alldone {
			break
		}
		if len(en) == 0 {
			br.deadlock = true
			var ws []string
			for _, t := range tasks {
				if t.state == "parked" {
					ws = append(ws, fmt.Sprintf("task %d waits at %s", t.id, label(t)))
				}
			}
			br.stuck = strings.Join(ws, "; ")
			break
		}
		sort.Ints(en)
		choice := en[0]
		autoStep := false
		if auto != nil && cur > 0 {
			for _, t := range tasks {
				if t.id == cur && t.state == "parked" && t.want != nil && auto[bareLabel(t)] {
					for _, e := range en {
						if e == cur {
							autoStep = true
						}
					}
				}
			}
		}
		if autoStep {
			choice = cur
			step--
		} else if step < len(prefix) {
			choice = prefix[step]
			ok := false
			for _, e := range en {
				if e == choice {
					ok = true
				}
			}
			if !ok {
				choice = en[0] // the prefix does not apply (outcome-dependent control flow): fall back
				br.offPrefix++
			}
		} else if rng != nil {
			// random schedules: mostly keep running the current task, sometimes switch
			choice = en[rng.Intn(len(en))]
			if rng.Intn(3) != 0 {
				for _, e := range en {
					if e == cur {
						choice = cur
					}
				}
			}
		} else {
			for _, e := range en {
				if e == cur {
					choice = cur
				}
			}
		}
		var t *ctask
		for _, x := range tasks {
			if x.id == choice {
				t = x
			}
		}
		if !autoStep {
			br.decisions = append(br.decisions, decision{Chosen: choice, Enabled: en})
		}
		br.labels = append(br.labels, fmt.Sprintf("%d:%s", t.id, label(t)))
		cur = choice
		c.mu.Lock()
		t.state = "running"
		c.mu.Unlock()
		t.resume <- struct{}{}
		// wait until the running task parks again or finishes
		select {
		case <-c.notify:
		case <-time.After(5 * time.Second):
			buf := make([]byte, 1<<16)
			n := runtime.Stack(buf, true)
			br.stuck = "a task stopped outside a gate: " + firstHagallFrame(string(buf[:n]))
			br.deadlock = false
			return br
		}
	}
	for _, t := range tasks {
		br.results[t.id] = t.res
	}
	if br.deadlock {
		// release the parked goroutines so that they do not accumulate: they stay blocked on
		// real locks at worst; the world is abandoned after a deadlock
		verifrt.SetInterceptor(nil)
		for _, t := range tasks {
			if t.state == "parked" {
				close(t.resume)
			}
		}
	}
	return br
}

func (w *World) runTask(t *ctask) stepResult {
	c := w.conn(t.conn)
	switch gets(t.req, "k") {
	case "Disc":
		if c.life == "closed" {
			return stepResult{ret: "closed"}
		}
		r := protect(func() error { c.vc.Handler().HandleDisconnect(fmt.Errorf("harness")); return nil })
		c.life = "closed"
		return r
	default:
		msg, err := w.build(t.req)
		if err != nil {
			return stepResult{ret: "harness", note: err.Error()}
		}
		r := protect(func() error { return c.vc.HandleMessage(context.Background(), msg, responder{c}) })
		if r.ret != "ok" && c.life == "open" {
			c.life = "closing"
		}
		return r
	}
}

// ---------------------------------------------------------------------------

type ConcScenario struct {
	CID    string  `json:"cid"`
	Config Config  `json:"config"`
	Setup  []M     `json:"setup"`
	Block  []M     `json:"block"` // [{conn, req}]
	After  []M     `json:"after"` // sequential steps after the block (e.g. a probe join)
	P      int     `json:"p"`     // preemption bound
	Max    int     `json:"max"`   // schedules at most
	Sched  [][]int `json:"sched"` // explicit schedules to replay (instead of the search)
	Random int     `json:"random"` // > 0: this many random schedules instead of the bounded search
	Seed   int64   `json:"seed"`
}

func preemptions(ds []decision) int {
	n := 0
	for i := 1; i < len(ds); i++ {
		if ds[i].Chosen != ds[i-1].Chosen {
			for _, e := range ds[i].Enabled {
				if e == ds[i-1].Chosen {
					n++
				}
			}
		}
	}
	return n
}

func (sc *ConcScenario) once(prefix []int, rng *rand.Rand) ([]M, blockRun) {
	w := NewWorld(sc.Config)
	abandoned := false
	defer func() {
		// a world in which the real handlers are deadlocked cannot be shut down (that needs the same locks)
		if !abandoned {
			w.Shutdown()
		}
	}()
	n := 0
	var recs []M
	for _, st := range sc.Setup {
		n++
		r, err := w.Step(n, st)
		if err != nil {
			fatal(2, "setup: %v", err)
		}
		recs = append(recs, r)
	}
	var tasks []*ctask
	for i, b := range sc.Block {
		rq, _ := b["req"].(map[string]any)
		tasks = append(tasks, &ctask{id: i + 1, conn: geti(b, "conn"), req: norm(M(rq))})
	}
	// make sure every connection object exists before the goroutines start
	for _, t := range tasks {
		w.conn(t.conn)
	}
	w.out = map[int][]M{}
	br := w.runBlock(tasks, prefix, rng)
	n++
	rec := M{"k": "step", "i": n, "step": "Block", "conn": 0, "req": M{"k": "none"}}
	var reqs []any
	rets := []any{}
	for _, t := range tasks {
		reqs = append(reqs, []any{t.conn, t.req})
		rets = append(rets, br.results[t.id].ret)
	}
	rec["reqs"] = reqs
	rec["rets"] = rets
	rec["ret"] = "ok"
	if br.deadlock || br.stuck != "" {
		abandoned = true
		rec["ret"] = "deadlock"
		if !br.deadlock {
			rec["ret"] = "harness"
		}
		rec["note"] = br.stuck
		rec["out"] = [][]any{}
		if len(recs) > 0 {
			rec["post"] = recs[len(recs)-1]["post"]
		} else {
			rec["post"] = NewWorld(sc.Config).projectState()
		}
		recs = append(recs, rec)
		return recs, br
	}
	rec["out"] = w.collectOutRaw()
	rec["post"] = w.projectState()
	recs = append(recs, rec)
	for _, st := range sc.After {
		n++
		r, err := w.Step(n, st)
		if err != nil {
			fatal(2, "after: %v", err)
		}
		recs = append(recs, r)
	}
	return recs, br
}

// collectOutRaw: per recipient, in emission order, without canonicalising delete runs
// (order matters for what a client ends up believing under concurrency).
func (w *World) collectOutRaw() [][]any {
	w.outMu.Lock()
	defer w.outMu.Unlock()
	var ids []int
	for c := range w.out {
		ids = append(ids, c)
	}
	sort.Ints(ids)
	res := [][]any{}
	for _, c := range ids {
		res = append(res, []any{c, w.out[c]})
	}
	return res
}

func cmdL1c(args []string) {
	fs := flag.NewFlagSet("l1c", flag.ExitOnError)
	in := fs.String("in", "", "concurrent scenarios (ndjson)")
	outp := fs.String("out", "", "distinct outcomes (ndjson)")
	fs.Parse(args)
	f, err := os.Open(*in)
	if err != nil {
		fatal(2, "%v", err)
	}
	defer f.Close()
	of, _ := os.Create(*outp)
	defer of.Close()
	bw := bufio.NewWriterSize(of, 1<<20)
	defer bw.Flush()
	enc := json.NewEncoder(bw)
	scn := bufio.NewScanner(f)
	scn.Buffer(make([]byte, 1<<20), 1<<28)
	for scn.Scan() {
		if len(scn.Bytes()) == 0 {
			continue
		}
		var sc ConcScenario
		if err := json.Unmarshal(scn.Bytes(), &sc); err != nil {
			fatal(2, "bad scenario: %v", err)
		}
		if sc.Max == 0 {
			sc.Max = 3000
		}
		seen := map[string]int{}
		nrun, ndead := 0, 0
		emit := func(recs []M, br blockRun) {
			nrun++
			if br.deadlock {
				ndead++
			}
			key := outcomeKey(recs, len(sc.Setup))
			seen[key]++
			if seen[key] == 1 {
				blk := recs[len(sc.Setup)]
				blk["cid"] = sc.CID
				blk["sched"] = br.labels
				var choice []int
				for _, d := range br.decisions {
					choice = append(choice, d.Chosen)
				}
				blk["choices"] = choice
				enc.Encode(M{"k": "reset", "hid": fmt.Sprintf("%s#%d", sc.CID, len(seen)), "mods": nonNil(sc.Config.Mods), "flags": nonNil(sc.Config.Flags)})
				for _, r := range recs {
					enc.Encode(r)
				}
			}
		}
		if len(sc.Sched) > 0 {
			for _, s := range sc.Sched {
				rec, br := sc.once(s, nil)
				emit(rec, br)
			}
		} else if sc.Random > 0 {
			rng := rand.New(rand.NewSource(sc.Seed))
			for i := 0; i < sc.Random; i++ {
				rec, br := sc.once(nil, rng)
				emit(rec, br)
			}
		} else {
			// depth-first enumeration of schedules with at most P preemptions
			stack := [][]int{{}}
			visited := map[string]bool{}
			for len(stack) > 0 && nrun < sc.Max {
				prefix := stack[len(stack)-1]
				stack = stack[:len(stack)-1]
				rec, br := sc.once(prefix, nil)
				emit(rec, br)
				for i := len(prefix); i < len(br.decisions); i++ {
					d := br.decisions[i]
					for _, alt := range d.Enabled {
						if alt == d.Chosen {
							continue
						}
						np := make([]int, 0, i+1)
						for j := 0; j < i; j++ {
							np = append(np, br.decisions[j].Chosen)
						}
						np = append(np, alt)
						// count preemptions of the new prefix
						ds := append([]decision(nil), br.decisions[:i]...)
						ds = append(ds, decision{Chosen: alt, Enabled: d.Enabled})
						if preemptions(ds) > sc.P {
							continue
						}
						k := fmt.Sprint(np)
						if !visited[k] {
							visited[k] = true
							stack = append(stack, np)
						}
					}
				}
			}
		}
		fmt.Printf("{\"cid\": %q, \"schedules\": %d, \"distinct_outcomes\": %d, \"deadlocks\": %d}\n", sc.CID, nrun, len(seen), ndead)
	}
}

func nonNil(s []string) []string {
	if s == nil {
		return []string{}
	}
	return s
}

func outcomeKey(recs []M, nsetup int) string {
	var parts []any
	for _, rec := range recs[nsetup:] {
		parts = append(parts, rec["out"], rec["post"], rec["rets"], rec["ret"])
	}
	b, _ := json.Marshal(parts)
	h := sha256.Sum256(b)
	return hex.EncodeToString(h[:8])
}

// ---------------------------------------------------------------------------
// l1m: phases of concurrent requests (RelayConc.tla).  A scenario is a list of phases; the requests of a phase
// run at the same time under the cooperative scheduler, the next phase starts when all of them have returned
// (the specification's Barrier).  The schedule of a phase is given (choices: task ids, one per decision; tasks
// in front of an unmodelled Lock/RLock are resumed without a decision) or drawn at random at the full grain.

type PhaseScenario struct {
	CID        string   `json:"cid"`
	Config     Config   `json:"config"`
	Phases     [][]M    `json:"phases"`     // [[{conn, req}]]
	Sched      [][]int  `json:"sched"`      // per phase: connection ids in the order of the specification's steps
	Unmodelled []string `json:"unmodelled"` // labels resumed without a decision
	Random     bool     `json:"random"`
	Seed       int64    `json:"seed"`
}

func (sc *PhaseScenario) run() M {
	w := NewWorld(sc.Config)
	abandoned := false
	defer func() {
		if !abandoned {
			w.Shutdown()
		}
	}()
	var rng *rand.Rand
	if sc.Random {
		rng = rand.New(rand.NewSource(sc.Seed))
	}
	var auto map[string]bool
	if !sc.Random {
		auto = map[string]bool{}
		for _, l := range sc.Unmodelled {
			auto[l] = true
		}
	}
	res := M{"cid": sc.CID}
	var phases []M
	for pi, ph := range sc.Phases {
		var tasks []*ctask
		byConn := map[int]int{}
		for i, b := range ph {
			rq, _ := b["req"].(map[string]any)
			t := &ctask{id: i + 1, conn: geti(b, "conn"), req: norm(M(rq))}
			tasks = append(tasks, t)
			byConn[t.conn] = t.id
			w.conn(t.conn)
		}
		var prefix []int
		if pi < len(sc.Sched) {
			for _, c := range sc.Sched[pi] {
				prefix = append(prefix, byConn[c])
			}
		}
		w.out = map[int][]M{}
		br := w.runBlockAuto(tasks, prefix, rng, auto)
		rec := M{"phase": pi + 1, "ret": "ok"}
		var conns []int
		rets := []any{}
		for _, t := range tasks {
			conns = append(conns, t.conn)
			rets = append(rets, br.results[t.id].ret)
		}
		rec["conns"] = conns
		rec["rets"] = rets
		rec["sched"] = br.labels
		rec["off"] = br.offPrefix
		rec["left"] = len(prefix) - len(br.decisions)
		if br.deadlock || br.stuck != "" {
			abandoned = true
			rec["ret"] = "deadlock"
			if !br.deadlock {
				rec["ret"] = "harness"
			}
			rec["note"] = br.stuck
			phases = append(phases, rec)
			break
		}
		rec["out"] = w.collectOutRaw()
		rec["post"] = w.projectState()
		phases = append(phases, rec)
	}
	res["phases"] = phases
	return res
}

func cmdL1m(args []string) {
	fs := flag.NewFlagSet("l1m", flag.ExitOnError)
	in := fs.String("in", "", "phase scenarios (ndjson)")
	outp := fs.String("out", "", "results (ndjson)")
	fs.Parse(args)
	f, err := os.Open(*in)
	if err != nil {
		fatal(2, "%v", err)
	}
	defer f.Close()
	of, _ := os.Create(*outp)
	defer of.Close()
	bw := bufio.NewWriterSize(of, 1<<20)
	defer bw.Flush()
	enc := json.NewEncoder(bw)
	scn := bufio.NewScanner(f)
	scn.Buffer(make([]byte, 1<<20), 1<<28)
	n := 0
	for scn.Scan() {
		if len(scn.Bytes()) == 0 {
			continue
		}
		var sc PhaseScenario
		if err := json.Unmarshal(scn.Bytes(), &sc); err != nil {
			fatal(2, "bad scenario: %v", err)
		}
		enc.Encode(sc.run())
		n++
	}
	fmt.Printf("{\"scenarios\": %d}\n", n)
}
