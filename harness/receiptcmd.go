package main

import (
	"bufio"
	"context"
	"crypto/sha256"
	"encoding/hex"
	"encoding/json"
	"flag"
	"fmt"
	"io"
	"net"
	"net/http"
	"net/http/httptest"
	"os"
	gosync "sync"
	"time"

	"github.com/aukilabs/hagall-common/ncsclient"
	"github.com/aukilabs/hagall/receipt"
	"github.com/ethereum/go-ethereum/crypto"
)

type RScenario struct {
	RID  string `json:"rid"`
	Q    int    `json:"q"`
	Mode string `json:"mode"` // up | slow | down | lost (the service takes the receipt, its answer never arrives)
	Ops  []M    `json:"ops"`
}

type triple struct {
	text string
	hash []byte
	sig  []byte
}

func validTriple(n int) triple {
	key := testKey()
	text := fmt.Sprintf(`{"receipt":%d,"note":"verif"}`, n)
	h := crypto.Keccak256Hash([]byte(text))
	sig, _ := crypto.Sign(h.Bytes(), key)
	return triple{text, h.Bytes(), sig}
}

func corrupt(cls string, t triple, n int) triple {
	cp := func(b []byte) []byte { return append([]byte(nil), b...) }
	t = triple{t.text, cp(t.hash), cp(t.sig)}
	switch cls {
	case "hash_flip":
		t.hash[n%32] ^= 0x40
	case "hash_prefixed":
		t.hash = append([]byte{byte(1 + n%250)}, t.hash...)
	case "hash_short":
		t.hash = t.hash[1:]
	case "hash_long":
		t.hash = append(t.hash, 0)
	case "sig_flip":
		t.sig[n%32] ^= 0x01
	case "sig_short":
		t.sig = t.sig[:64]
	case "sig_long":
		t.sig = append(t.sig, 1)
	case "sig_badv":
		t.sig[64] = 9
	case "sig_v27":
		// the legacy form of the recovery id (27 / 28): not a signature the verifier accepts, whatever a wallet may emit
		t.sig[64] += 27
	case "sig_zero":
		for i := range t.sig {
			t.sig[i] = 0
		}
	case "text_changed":
		t.text += " "
	case "empty_receipt":
		t.text = ""
	case "empty_hash":
		t.hash = nil
	case "empty_sig":
		t.sig = nil
	}
	return t
}

// isValid is the oracle, independent of receipt/: hash is Keccak-256 of the text and the
// signature is a recoverable signature over that hash.
func isValid(t triple) bool {
	if len(t.text) == 0 || len(t.hash) == 0 || len(t.sig) == 0 {
		return false
	}
	h := crypto.Keccak256([]byte(t.text))
	if hex.EncodeToString(h) != hex.EncodeToString(t.hash) {
		return false
	}
	_, err := crypto.Ecrecover(t.hash, t.sig)
	return err == nil
}

func digest(text string, hash, sig []byte) string {
	b, _ := json.Marshal([]any{text, hash, sig})
	s := sha256.Sum256(b)
	return hex.EncodeToString(s[:])
}

func cmdReceipt(args []string) {
	fs := flag.NewFlagSet("receipt", flag.ExitOnError)
	in := fs.String("in", "", "scenarios (ndjson)")
	outp := fs.String("out", "", "trace (ndjson)")
	fs.Parse(args)
	f, err := os.Open(*in)
	if err != nil {
		fatal(2, "%v", err)
	}
	defer f.Close()
	of, _ := os.Create(*outp)
	defer of.Close()
	bw := bufio.NewWriter(of)
	defer bw.Flush()
	enc := json.NewEncoder(bw)
	sc := bufio.NewScanner(f)
	sc.Buffer(make([]byte, 1<<20), 1<<26)
	n := 0
	for sc.Scan() {
		var s RScenario
		if json.Unmarshal(sc.Bytes(), &s) != nil {
			continue
		}
		n++
		runReceiptScenario(s, enc)
	}
	fmt.Printf("receipt: %d scenarios\n", n)
}

func runReceiptScenario(s RScenario, enc *json.Encoder) {
	w := NewWorld(Config{ReceiptCap: s.Q})
	defer w.Shutdown()
	var mu gosync.Mutex
	got := []string{}
	ncs := httptest.NewServer(http.HandlerFunc(func(rw http.ResponseWriter, r *http.Request) {
		b, _ := io.ReadAll(r.Body)
		var p ncsclient.ReceiptPayload
		json.Unmarshal(b, &p)
		mu.Lock()
		got = append(got, digest(p.Receipt, p.Hash, p.Signature))
		mu.Unlock()
		if s.Mode == "slow" {
			time.Sleep(250 * time.Millisecond) // slow to answer
		}
		if s.Mode == "lost" {
			if hj, ok := rw.(http.Hijacker); ok {
				if c, _, err := hj.Hijack(); err == nil {
					c.Close()
					return
				}
			}
		}
		rw.WriteHeader(200)
	}))
	endpoint := ncs.URL
	if s.Mode == "down" {
		l, _ := net.Listen("tcp", "127.0.0.1:0")
		endpoint = "http://" + l.Addr().String()
		l.Close()
	}
	defer ncs.Close()
	ctx, cancel := context.WithCancel(context.Background())
	defer cancel()
	enc.Encode(M{"op": "reset", "rid": s.RID, "q": s.Q, "mode": s.Mode})
	byDigest := map[string]int{}
	pid := 0
	seen := 0
	expected := 0 // deliveries the credit service must see: accepted valid receipts (none when it is down)
	for i, op := range s.Ops {
		switch gets(op, "op") {
		case "submit":
			pid++
			cls := gets(op, "cls")
			t := corrupt(cls, validTriple(pid*7+i), pid)
			byDigest[digest(t.text, t.hash, t.sig)] = pid
			req := M{"k": "Receipt", "rid": 1000 + pid, "receipt": t.text, "hash": hex.EncodeToString(t.hash), "sig": hex.EncodeToString(t.sig)}
			t0 := time.Now()
			rec, err := w.Step(i+1, M{"step": "Req", "conn": geti(op, "conn"), "req": map[string]any(req)})
			if err != nil {
				fatal(2, "receipt step: %v", err)
			}
			el := time.Since(t0).Milliseconds()
			resp, answers := "none", 0
			for _, o := range rec["out"].([][]any) {
				for _, m := range o[1].([]M) {
					if geti(m, "rid") == 1000+pid {
						answers++
						switch {
						case gets(m, "t") == "RECEIPT_RESPONSE":
							resp = "accepted"
						case gets(m, "t") == "ERROR" && geti(m, "code") == 400:
							resp = "bad_request"
						case gets(m, "t") == "ERROR" && geti(m, "code") == 503:
							resp = "too_busy"
						default:
							resp = "other"
						}
					} else {
						answers += 100 // something else was sent
					}
				}
			}
			if resp == "accepted" && isValid(t) && s.Mode != "down" {
				expected++
			}
			enc.Encode(M{"op": "submit", "conn": geti(op, "conn"), "pid": pid, "cls": cls, "valid": isValid(t),
				"empty": len(t.text) == 0 || len(t.hash) == 0 || len(t.sig) == 0, "resp": resp, "answers": answers, "ret": rec["ret"],
				"elapsed_ms": el, "qlen": len(w.receipt)})
			// a connection that was ended by the handler error is replaced so that the scenario can go on
			if rec["ret"] != "ok" {
				w.Step(0, M{"step": "Disc", "conn": geti(op, "conn")})
				w.Step(0, M{"step": "Open", "conn": geti(op, "conn")})
			}
		case "worker":
			rh := receipt.ReceiptHandler{NCSEndpoint: endpoint, ReceiptChan: w.receipt}
			rh.HandleReceipts(ctx)
			enc.Encode(M{"op": "worker"})
		case "drain":
			// wait until the queue is empty, the credit service has seen every delivery that is due, and nothing new
			// has arrived for a while (the wait for what is due does not depend on how fast the worker is)
			deadline := time.Now().Add(20 * time.Second)
			last, stable := -1, 0
			for time.Now().Before(deadline) {
				mu.Lock()
				cur := len(got)
				mu.Unlock()
				if len(w.receipt) == 0 && cur == last && cur >= expected {
					stable++
					if stable >= 8 {
						break
					}
				} else {
					stable = 0
				}
				last = cur
				time.Sleep(40 * time.Millisecond)
			}
			mu.Lock()
			fw := [][]any{}
			for _, d := range got[seen:] {
				p, ok := byDigest[d]
				if !ok {
					p = -1
				}
				fw = append(fw, []any{p, ok})
			}
			seen = len(got)
			mu.Unlock()
			enc.Encode(M{"op": "drain", "forwarded": fw, "left": len(w.receipt)})
		}
	}
}
