package main

// L2 replay of request histories: the same abstract histories as L1, but over real sockets against the
// server mounted like cmd/main.go (decorators, three goroutines per connection, real frame worker), made
// sequential with ping barriers.  Produces the same trace format (step kind "Wire").

import (
	"bufio"
	"encoding/json"
	"flag"
	"fmt"
	"os"
	"sort"
	"time"

	"github.com/aukilabs/hagall/models"
)

const barrierBase = 100000

type wireRun struct {
	l       *L2
	handler map[int]*obsHandler // conn id -> server side handler (latest incarnation)
	seen    map[int]int         // conn id -> number of client messages already reported
	rid     int
	life    map[int]string
}

func (l *L2) handlerOf(id int) *obsHandler {
	l.mu.Lock()
	defer l.mu.Unlock()
	return l.obs[id]
}

func (r *wireRun) barrier(c *L2Client, d time.Duration) bool {
	r.rid++
	return c.Barrier(barrierBase+r.rid, d)
}

func (r *wireRun) collect() [][]any {
	var ids []int
	for id := range r.l.clients {
		ids = append(ids, id)
	}
	sort.Ints(ids)
	out := [][]any{}
	for _, id := range ids {
		got := r.l.clients[id].Got()
		var ms []M
		for _, m := range got[r.seen[id]:] {
			if gets(m, "t") == "PING_RESPONSE" && geti(m, "rid") >= barrierBase {
				continue
			}
			ms = append(ms, m)
		}
		r.seen[id] = len(got)
		if len(ms) > 0 {
			out = append(out, []any{id, canonDeletes(ms)})
		}
	}
	return out
}

func (r *wireRun) project() M {
	l := r.l
	cur, free := l.store.VerifIDs()
	post := M{"cur": int(cur), "free": u32s(free)}
	connOf := map[*models.Participant]int{}
	for id := range l.clients {
		if h := l.handlerOf(id); h != nil && r.life[id] == "open" {
			if p := h.Handler.CurrentParticipant(); p != nil {
				connOf[p] = id
			}
		}
	}
	regs := l.store.VerifSessions()
	var keys []string
	for k := range regs {
		keys = append(keys, k)
	}
	sort.Strings(keys)
	sess := []M{}
	for _, k := range keys {
		sm := l.w.projectSession(regs[k], connOf)
		sm["sid"] = sidBack(k)
		sm["rid"] = int(regs[k].ID)
		sess = append(sess, sm)
	}
	post["sess"] = sess
	post["gauge"] = len(sess) // (the process-wide gauge is shared between servers; C07 reads it at L1)
	post["ucur"] = len(l.w.uuids)
	post["gcur"] = len(l.w.grids)
	post["dead"] = []int{}
	var ids []int
	for id := range r.life {
		ids = append(ids, id)
	}
	sort.Ints(ids)
	cs := []M{}
	for _, id := range ids {
		cm := M{"c": id, "life": r.life[id], "sid": 0, "pid": 0, "own": []int{}, "q": []M{}, "pp": [][]any{}, "pc": [][]any{}}
		if h := l.handlerOf(id); h != nil && r.life[id] == "open" {
			if s := h.Handler.CurrentSession(); s != nil {
				cm["sid"] = sidBack(l.store.GlobalSessionID(s.ID))
			}
			if p := h.Handler.CurrentParticipant(); p != nil {
				cm["pid"] = int(p.ID)
				own := []int{}
				for e := range p.EntityIDs() {
					own = append(own, int(e))
				}
				sort.Ints(own)
				cm["own"] = own
			}
		}
		cs = append(cs, cm)
	}
	post["conns"] = cs
	return post
}

func cmdL2Hist(args []string) {
	fs := flag.NewFlagSet("l2hist", flag.ExitOnError)
	in := fs.String("in", "", "histories (ndjson)")
	outp := fs.String("out", "", "trace (ndjson)")
	fs.Parse(args)
	hs := readHistories(*in)
	of, err := os.Create(*outp)
	if err != nil {
		fatal(2, "%v", err)
	}
	defer of.Close()
	bw := bufio.NewWriterSize(of, 1<<20)
	defer bw.Flush()
	enc := json.NewEncoder(bw)
	total := 0
	for _, h := range hs {
		l := NewL2(L2Config{Mods: h.Config.Mods, Flags: h.Config.Flags, IdleMS: 60000, FrameMS: 2})
		r := &wireRun{l: l, seen: map[int]int{}, life: map[int]string{}}
		enc.Encode(M{"k": "reset", "hid": h.HID, "mods": nonNil(h.Config.Mods), "flags": nonNil(h.Config.Flags)})
		n := 0
		joined := func(id int) bool {
			hd := l.handlerOf(id)
			return hd != nil && r.life[id] == "open" && hd.Handler.CurrentParticipant() != nil
		}
		ensure := func(id int) *L2Client {
			if c, ok := l.clients[id]; ok && r.life[id] == "open" {
				return c
			}
			if r.life[id] == "closed" {
				return nil
			}
			c, err := l.Dial(id)
			if err != nil {
				fatal(2, "dial: %v", err)
			}
			r.life[id] = "open"
			r.seen[id] = 0
			// wait until the server side handler exists
			for i := 0; i < 500 && l.handlerOf(id) == nil; i++ {
				time.Sleep(time.Millisecond)
			}
			return c
		}
		settle := func(except int) {
			for id, c := range l.clients {
				if id != except && r.life[id] == "open" {
					r.barrier(c, 3*time.Second)
				}
			}
		}
		for _, st := range h.Steps {
			kind := gets(st, "step")
			cid := geti(st, "conn")
			var req M
			if r0, ok := st["req"].(map[string]any); ok {
				req = norm(M(r0))
			}
			rec := M{"k": "step", "step": "Wire", "conn": cid}
			switch kind {
			case "Req", "Recv":
				if parked(req) && !joined(cid) {
					continue // a parked update of a connection that is in no session is never consumed: not observable on the wire
				}
				if gets(req, "k") == "Custom" {
					req["dig"] = l.w.bodies.canon(geti(req, "len"), geti(req, "dig"))
				}
				if r.life[cid] == "closed" {
					// a new connection takes the place of the one that has ended (its own step in the trace)
					delete(r.life, cid)
					ensure(cid)
					settle(-1)
					n++
					enc.Encode(M{"k": "step", "step": "Open", "conn": cid, "req": M{"k": "none"}, "ret": "ok", "i": n,
						"out": r.collect(), "post": r.project()})
					total++
				}
				c := ensure(cid)
				if c == nil {
					continue
				}
				rec["req"] = req
				nev := len(l.Events())
				if err := c.SendReq(req); err != nil {
					fatal(2, "send: %v", err)
				}
				if parked(req) {
					time.Sleep(12 * time.Millisecond) // a few frames
				}
				alive := r.barrier(c, 3*time.Second)
				// the main loop may still answer the barrier ping after a handler error (select picks at random):
				// what decides is whether the server reported an error for this connection during the step
				for _, e := range l.Events()[nev:] {
					if e.Conn == cid && ((e.Ev == "handle" && e.Err != "") || e.Ev == "recv_err" || e.Ev == "disc_begin") {
						alive = false
					}
				}
				if !alive {
					// the server ended the connection: wait for the handler to return
					l.waitReturn(cid, 3*time.Second)
					r.life[cid] = "closed"
					rec["ret"] = "err"
				} else {
					rec["ret"] = "ok"
				}
				rec["popped"] = req
			case "Disc":
				c, ok := l.clients[cid]
				if !ok || r.life[cid] != "open" {
					continue
				}
				rec["step"] = "Disc"
				rec["req"] = M{"k": "none"}
				c.Close()
				l.waitReturn(cid, 3*time.Second)
				r.life[cid] = "closed"
				rec["ret"] = "ok"
			case "Open":
				if r.life[cid] != "closed" {
					continue
				}
				rec["step"] = "Open"
				rec["req"] = M{"k": "none"}
				delete(r.life, cid)
				ensure(cid)
				rec["ret"] = "ok"
			default:
				continue // Tick / Proc have no wire counterpart
			}
			settle(-1)
			n++
			rec["i"] = n
			rec["out"] = r.collect()
			rec["post"] = r.project()
			enc.Encode(rec)
			total++
		}
		l.Close()
	}
	fmt.Printf("l2hist: %d histories, %d steps\n", len(hs), total)
}
