package main

// L1: handler-level, deterministic driver around the real RealtimeHandler,
// modules, session store and hagall-common scheduler.

import (
	"context"
	"crypto/ecdsa"
	"fmt"
	"os"
	"regexp"
	"runtime/debug"
	"sort"
	"strings"
	gosync "sync"
	"time"

	"github.com/aukilabs/go-tooling/pkg/logs"
	"github.com/aukilabs/hagall-common/messages/hagallpb"
	"github.com/aukilabs/hagall-common/ncsclient"
	hwebsocket "github.com/aukilabs/hagall-common/websocket"
	"github.com/aukilabs/hagall/featureflag"
	"github.com/aukilabs/hagall/models"
	"github.com/aukilabs/hagall/modules"
	"github.com/aukilabs/hagall/modules/dagaz"
	"github.com/aukilabs/hagall/modules/odal"
	"github.com/aukilabs/hagall/modules/vikja"
	"github.com/aukilabs/hagall/verifrt"
	hw "github.com/aukilabs/hagall/websocket"
	"github.com/ethereum/go-ethereum/crypto"
	"github.com/prometheus/client_golang/prometheus"
)

type discovery struct{}

func (discovery) ServerID() string { return serverID }

type Config struct {
	Mods       []string `json:"mods"`
	Flags      []string `json:"flags"`
	ReceiptCap int      `json:"receipt_cap"`
	// SerialIDs: a session-creating join is skipped while two or more session ids are
	// released (which id New() pops is map-iteration order; paired runs must not diverge on it).
	SerialIDs bool `json:"serial_ids"`
	// AutoFlush: a parked update is followed at once by a frame of the sender's session
	// and one processing step, so that at most one update is parked at any time.
	AutoFlush bool `json:"autoflush"`
	// Locks: record, per step, every lock operation of the hagall packages (class and mode)
	Locks bool `json:"locks"`
}

type Conn struct {
	id   int
	gen  int
	rh   *hw.RealtimeHandler
	vc   *hw.VerifConn
	sc   *msched
	life string // open | closing | closed
	w    *World
}

// responder handed to the handlers of connection c.
type responder struct{ c *Conn }

func (r responder) Send(pm hwebsocket.ProtoMsg) {
	msg, err := hwebsocket.MsgFromProto(pm)
	if err != nil {
		// the production sender logs and drops; record that it happened
		r.c.w.emit(r.c.id, M{"t": "UNENCODABLE"})
		return
	}
	r.c.w.emit(r.c.id, r.c.w.project(msg))
}

func (r responder) SendMsg(msg hwebsocket.Msg) { r.c.w.emit(r.c.id, r.c.w.project(msg)) }

type World struct {
	cfg     Config
	store   *models.SessionStore
	conns   map[int]*Conn
	bodies  bodies
	key     *ecdsa.PrivateKey
	receipt chan ncsclient.ReceiptPayload

	uuids    map[string]int
	pings    map[uint32]int
	grids    map[any]int
	sessObjs map[*models.Session]int // every session object ever seen -> ordinal

	outMu gosync.Mutex
	out   map[int][]M

	gaugeBase float64
	ev        *events

	lastLatency M
}

func NewWorld(cfg Config) *World {
	logs.SetLogger(func(logs.Entry) {})
	verifrt.UseVirtualTickers(true)
	verifrt.UseVirtualClock(true)
	verifrt.SetClock(time.Unix(1_700_000_000, 0), time.Nanosecond)
	key := testKey()
	if cfg.ReceiptCap <= 0 {
		cfg.ReceiptCap = 4
	}
	w := &World{
		cfg:      cfg,
		store:    &models.SessionStore{DiscoveryService: discovery{}},
		conns:    map[int]*Conn{},
		key:      key,
		receipt:  make(chan ncsclient.ReceiptPayload, cfg.ReceiptCap),
		uuids:    map[string]int{},
		pings:    map[uint32]int{},
		grids:    map[any]int{},
		sessObjs: map[*models.Session]int{},
		out:      map[int][]M{},
		ev:       newEvents(),
	}
	if cfg.Locks {
		w.ev.record = true
		verifrt.SetInterceptorMask(w.ev, verifrt.MaskAll)
	} else {
		verifrt.SetInterceptorMask(w.ev, 1<<uint(verifrt.OpRUnlock))
	}
	w.gaugeBase = models.VerifSessionGauge()
	return w
}

func (w *World) Close() { verifrt.SetInterceptor(nil) }

func (w *World) uuidIndex(u string) int {
	if u == "" {
		return 0
	}
	if i, ok := w.uuids[u]; ok {
		return i
	}
	w.uuids[u] = len(w.uuids) + 1
	return w.uuids[u]
}

func (w *World) pingIndex(id uint32) int {
	if i, ok := w.pings[id]; ok {
		return i
	}
	w.pings[id] = 1000 + len(w.pings) + 1
	return w.pings[id]
}

// pingReal maps an index handed out by pingIndex back to the real id.
func (w *World) pingReal(idx int) (uint32, bool) {
	for k, v := range w.pings {
		if v == idx {
			return k, true
		}
	}
	return 0, false
}

func (w *World) emit(c int, m M) {
	w.outMu.Lock()
	w.out[c] = append(w.out[c], m)
	w.outMu.Unlock()
}

func (w *World) newModules() []modules.Module {
	var ms []modules.Module
	for _, n := range w.cfg.Mods {
		switch n {
		case "vikja":
			ms = append(ms, &vikja.Module{})
		case "odal":
			ms = append(ms, &odal.Module{})
		case "dagaz":
			ms = append(ms, &dagaz.Module{})
		}
	}
	return ms
}

func (w *World) open(id int) *Conn {
	gen := 0
	if old, ok := w.conns[id]; ok {
		gen = old.gen + 1
	}
	c := &Conn{id: id, gen: gen, life: "open", w: w}
	c.rh = &hw.RealtimeHandler{
		ClientSyncClockInterval: time.Hour,
		ClientIdleTimeout:       time.Hour,
		FrameDuration:           time.Hour,
		Sessions:                w.store,
		Modules:                 w.newModules(),
		FeatureFlags:            featureflag.New(w.cfg.Flags),
		ReceiptChan:             w.receipt,
		PrivateKey:              w.key,
	}
	c.sc = newSched()
	c.vc = hw.VerifNewConn(c.rh, c.sc)
	w.conns[id] = c
	return c
}

func (w *World) conn(id int) *Conn {
	if c, ok := w.conns[id]; ok {
		return c
	}
	return w.open(id)
}

type stepResult struct {
	ret  string
	note string
}

func protect(f func() error) (res stepResult) {
	defer func() {
		if r := recover(); r != nil {
			st := string(debug.Stack())
			res = stepResult{ret: "panic", note: fmt.Sprint(r) + " @ " + firstHagallFrame(st)}
		}
	}()
	if err := f(); err != nil {
		return stepResult{ret: "err", note: err.Error()}
	}
	return stepResult{ret: "ok"}
}

func firstHagallFrame(stack string) string {
	for _, l := range strings.Split(stack, "\n") {
		if strings.Contains(l, "aukilabs/hagall/") && !strings.Contains(l, "verif") {
			return strings.TrimSpace(l)
		}
	}
	return ""
}

// Step executes one abstract step and returns the trace record.
func (w *World) Step(i int, st M) (M, error) {
	kind := gets(st, "step")
	cid := geti(st, "conn")
	var req M
	if r0, ok := st["req"].(map[string]any); ok {
		req = norm(M(r0))
	}
	w.out = map[int][]M{}
	rec := M{"k": "step", "i": i, "step": kind, "conn": cid}
	if mhas(st, "like") {
		rec["like"] = geti(st, "like")
	}
	if req != nil {
		rec["req"] = req
	} else {
		rec["req"] = M{"k": "none"}
	}
	var res stepResult
	switch kind {
	case "Open":
		if c := w.conn(cid); c.life != "closed" {
			res = stepResult{ret: "busy"}
			break
		}
		w.open(cid)
		res = stepResult{ret: "ok"}
	case "Req", "Recv":
		c := w.conn(cid)
		if c.life == "closed" {
			res = stepResult{ret: "closed"}
			break
		}
		if w.cfg.AutoFlush && parked(req) && len(c.sc.pp)+len(c.sc.pc) > 0 {
			res = stepResult{ret: "skipped"}
			break
		}
		if w.cfg.SerialIDs && kind == "Req" && !parked(req) && w.ambiguousCreate(c, req) {
			res = stepResult{ret: "skipped"}
			break
		}
		if gets(req, "k") == "Join" && mhas(req, "like") {
			// symbolic session reference (C03 differential): the session connection `like` is in, whatever its id
			// is in this run; an id that resolves to nothing when that connection is in no session
			if sid := w.sidOf(geti(req, "like")); sid != 0 {
				req["sid"] = sid
			} else {
				req["sid"] = 99
			}
		}
		if gets(req, "k") == "Custom" {
			req["dig"] = w.bodies.canon(geti(req, "len"), geti(req, "dig"))
		}
		if gets(req, "k") == "PingResp" && mhas(req, "ref") {
			w.resolvePing(c, req)
		}
		if adv := geti(req, "adv"); adv > 0 {
			// (one nanosecond more than the whole microseconds asked for: a value that is not truncated like the others shows)
			verifrt.Advance(time.Duration(adv)*time.Microsecond + time.Nanosecond)
		}
		msg, err := w.build(req)
		if err != nil {
			return nil, err
		}
		res = protect(func() error { return c.sc.DispatchReq(req, msg) })
		if res.ret == "err" {
			// receiver: dispatch error -> disconnect
			c.life = "closing"
			res.ret = "rerr"
		}
		if kind == "Req" && res.ret == "ok" && !parked(req) {
			res = w.process(c, rec)
		}
	case "Proc":
		c := w.conn(cid)
		if c.life == "closed" {
			res = stepResult{ret: "closed"}
			break
		}
		if w.cfg.SerialIDs && w.ambiguousCreate(c, nil) {
			res = stepResult{ret: "skipped"}
			break
		}
		res = w.process(c, rec)
	case "Tick":
		tsid := geti(st, "sid")
		if mhas(st, "like") {
			tsid = w.sidOf(geti(st, "like"))
		}
		res = w.tick(tsid, rec)
	case "Disc":
		c := w.conn(cid)
		if c.life == "closed" {
			res = stepResult{ret: "closed"}
			break
		}
		res = protect(func() error {
			c.vc.Handler().HandleDisconnect(fmt.Errorf("harness: %s", gets(st, "cause")))
			return nil
		})
		c.life = "closed"
	default:
		return nil, fmt.Errorf("unknown step kind %q", kind)
	}
	for _, c := range w.conns {
		if c.sc.bad != "" {
			res = stepResult{ret: "harness", note: c.sc.bad}
		}
	}
	if w.cfg.Locks {
		rec["locks"] = w.ev.takeLog()
	}
	rec["ret"] = res.ret
	if res.note != "" {
		rec["note"] = res.note
	}
	rec["out"] = w.collectOut()
	rec["post"] = w.projectState()
	return rec, nil
}

func parked(req M) bool {
	k := gets(req, "k")
	return k == "Pose" || k == "CompUpdate"
}

// ambiguousCreate (paired runs, option serial_ids): the request that would be PROCESSED now - the head of the
// connection's queue, or `incoming` when the queue is empty - is a join that creates a session while two or more
// released session ids could be handed out (New pops any of them, by Go map order): two runs of the same history could
// legitimately differ in the id, so the step is skipped in both.
func (w *World) ambiguousCreate(c *Conn, incoming M) bool {
	next := incoming
	if len(c.sc.q) > 0 {
		next = c.sc.q[0].req
	}
	if next == nil || gets(next, "k") != "Join" || geti(next, "sid") != 0 {
		return false
	}
	_, free := w.store.VerifIDs()
	n := len(free)
	if s := c.rh.CurrentSession(); s != nil && s.ParticipantCount() == 1 {
		n++ // the requester is the last member: leaving releases one more id first
	}
	return n >= 2
}

func (w *World) process(c *Conn, rec M) stepResult {
	it, ok := c.sc.pop()
	if !ok {
		return stepResult{ret: "empty"}
	}
	msg := it.msg
	rec["popped"] = it.req
	res := protect(func() error { return c.vc.HandleMessage(context.Background(), msg, responder{c}) })
	if res.ret != "ok" && c.life == "open" {
		c.life = "closing"
	}
	return res
}

// projectRequest maps a popped request back to its abstract form (enough to
// identify it: kind and the ids it names).
func (w *World) projectRequest(msg hwebsocket.Msg) M {
	n := int32(msg.Type.Number())
	switch hagallpb.MsgType(n) {
	case hagallpb.MsgType_MSG_TYPE_ENTITY_UPDATE_POSE:
		var m hagallpb.EntityUpdatePose
		if msg.DataTo(&m) == nil {
			return M{"k": "Pose", "eid": int(m.EntityId), "px": poseBack(m.Pose), "ts": tsBack(m.Timestamp)}
		}
	case hagallpb.MsgType_MSG_TYPE_ENTITY_COMPONENT_UPDATE:
		var m hagallpb.EntityComponentUpdate
		if msg.DataTo(&m) == nil {
			return M{"k": "CompUpdate", "tid": int(m.EntityComponentTypeId), "eid": int(m.EntityId), "data": dataBack(m.Data), "ts": tsBack(m.Timestamp)}
		}
	}
	return M{"k": "Other", "type": int(n)}
}

func (w *World) sessionByID(sid int) *models.Session {
	s, ok := w.store.VerifSessions()[sidString(sid)]
	if !ok {
		return nil
	}
	return s
}

// tick feeds one tick to the frame worker of session sid and waits until the
// worker has finished the pass (its RUnlock of the frame mutex was observed).
func (w *World) tick(sid int, rec M) stepResult {
	rec["sid"] = sid
	s := w.sessionByID(sid)
	if s == nil {
		return stepResult{ret: "nosession"}
	}
	tk, _ := s.VerifFrameTicker().(*verifrt.Ticker)
	if tk == nil || tk.Feed == nil {
		return stepResult{ret: "harness", note: "frame ticker is not virtual"}
	}
	if tk.Stopped() {
		return stepResult{ret: "stopped"}
	}
	mu := fmt.Sprintf("%p", s.VerifFrameMutex())
	before := w.ev.count(mu, verifrt.OpRUnlock)
	select {
	case tk.Feed <- time.Unix(0, 0):
	case <-time.After(5 * time.Second):
		return stepResult{ret: "harness", note: "frame worker did not take the tick"}
	}
	if !w.ev.waitCount(mu, verifrt.OpRUnlock, before+1, 5*time.Second) {
		return stepResult{ret: "harness", note: "frame pass did not finish"}
	}
	return stepResult{ret: "ok"}
}

func (w *World) collectOut() [][]any {
	w.outMu.Lock()
	defer w.outMu.Unlock()
	var ids []int
	for c := range w.out {
		ids = append(ids, c)
	}
	sort.Ints(ids)
	res := [][]any{}
	for _, c := range ids {
		msgs := canonDeletes(w.out[c])
		res = append(res, []any{c, msgs})
	}
	return res
}

// canonDeletes sorts every maximal run of consecutive ENTITY_DELETE_BROADCASTs
// by entity id: a departure relays the removed entities in map-iteration order,
// which no property constrains.
func canonDeletes(ms []M) []M {
	out := append([]M(nil), ms...)
	i := 0
	for i < len(out) {
		if gets(out[i], "t") != "ENTITY_DELETE_BROADCAST" {
			i++
			continue
		}
		j := i
		for j < len(out) && gets(out[j], "t") == "ENTITY_DELETE_BROADCAST" {
			j++
		}
		run := out[i:j]
		sort.SliceStable(run, func(a, b int) bool { return geti(run[a], "eid") < geti(run[b], "eid") })
		i = j
	}
	return out
}

func gaugeSum(name string) float64 {
	mfs, err := prometheus.DefaultGatherer.Gather()
	if err != nil {
		return 0
	}
	var sum float64
	for _, mf := range mfs {
		if mf.GetName() != name {
			continue
		}
		for _, m := range mf.GetMetric() {
			if g := m.GetGauge(); g != nil {
				sum += g.GetValue()
			}
			if c := m.GetCounter(); c != nil {
				sum += c.GetValue()
			}
		}
	}
	return sum
}

func u32s(xs []uint32) []int {
	out := make([]int, len(xs))
	for i, x := range xs {
		out[i] = int(x)
	}
	return out
}

// projectState reads the authoritative state through the overlay accessors.
func (w *World) projectState() M {
	cur, free := w.store.VerifIDs()
	post := M{"cur": int(cur), "free": u32s(free), "gauge": int(models.VerifSessionGauge() - w.gaugeBase)}

	// who is who: participant object -> connection
	connOf := map[*models.Participant]int{}
	for id, c := range w.conns {
		if p := c.rh.CurrentParticipant(); p != nil {
			connOf[p] = id
		}
	}

	var sess []M
	regs := w.store.VerifSessions()
	var keys []string
	for k := range regs {
		keys = append(keys, k)
	}
	sort.Strings(keys)
	for _, k := range keys {
		s := regs[k]
		sm := w.projectSession(s, connOf)
		sm["sid"] = sidBack(k)
		sm["rid"] = int(s.ID)
		sess = append(sess, sm)
	}
	if sess == nil {
		sess = []M{}
	}
	post["sess"] = sess
	// sessions that are no longer registered but whose frame worker was not stopped
	dead := []int{}
	live := map[*models.Session]bool{}
	for _, s := range regs {
		live[s] = true
		if _, ok := w.sessObjs[s]; !ok {
			w.sessObjs[s] = len(w.sessObjs) + 1
		}
	}
	for s := range w.sessObjs {
		if live[s] {
			continue
		}
		if tk, ok := s.VerifFrameTicker().(*verifrt.Ticker); ok && tk != nil && !tk.Stopped() {
			dead = append(dead, w.uuidIndex(s.SessionUUID))
		}
	}
	sort.Ints(dead)
	post["dead"] = dead
	post["ucur"] = len(w.uuids)
	post["gcur"] = len(w.grids)

	var cs []M
	var ids []int
	for id := range w.conns {
		ids = append(ids, id)
	}
	sort.Ints(ids)
	for _, id := range ids {
		c := w.conns[id]
		q, pp, pc := c.sc.project()
		cm := M{"c": id, "life": c.life, "sid": 0, "pid": 0, "own": []int{}, "q": q, "pp": pp, "pc": pc}
		if s := c.rh.CurrentSession(); s != nil {
			cm["sid"] = sidBack(w.store.GlobalSessionID(s.ID))
			if reg, ok := regs[w.store.GlobalSessionID(s.ID)]; !ok || reg != s {
				cm["orphan"] = true
			}
		}
		if p := c.rh.CurrentParticipant(); p != nil {
			cm["pid"] = int(p.ID)
			own := []int{}
			for e := range p.EntityIDs() {
				own = append(own, int(e))
			}
			sort.Ints(own)
			cm["own"] = own
			cm["lat"] = w.projectLat(p)
		}
		cs = append(cs, cm)
	}
	if cs == nil {
		cs = []M{}
	}
	post["conns"] = cs
	return post
}

func (w *World) projectSession(s *models.Session, connOf map[*models.Participant]int) M {
	sm := M{"uuid": w.uuidIndex(s.SessionUUID)}
	pc, _ := s.VerifParticipantIDs()
	ec, _ := s.VerifEntityIDs()
	sm["pcur"], sm["ecur"] = int(pc), int(ec)

	mem := [][]int{}
	for pid, p := range s.VerifParticipants() {
		c, ok := connOf[p]
		if !ok {
			c = -1
		}
		mem = append(mem, []int{int(pid), c})
	}
	sm["mem"] = sortRows(mem)

	ents := [][]int{}
	for eid, e := range s.VerifEntities() {
		px := poseBack(e.VerifPose().ToProtobuf())
		persist := 0
		if e.Persist {
			persist = 1
		}
		ents = append(ents, []int{int(eid), int(e.ParticipantID), persist, int(e.Flag), px, int(e.ID)})
	}
	sm["ents"] = sortRows(ents)

	ecs := s.GetEntityComponents()
	tc, _ := ecs.VerifTypeIDs()
	sm["tcur"] = int(tc)
	types := [][]any{}
	for n, id := range ecs.VerifTypes() {
		types = append(types, []any{n, int(id)})
	}
	sort.Slice(types, func(i, j int) bool { return types[i][1].(int) < types[j][1].(int) })
	sm["types"] = types
	names := [][]any{}
	for id, n := range ecs.VerifTypeNames() {
		names = append(names, []any{int(id), n})
	}
	sort.Slice(names, func(i, j int) bool { return names[i][0].(int) < names[j][0].(int) })
	sm["names"] = names

	comps := [][]int{}
	for _, t := range ecs.VerifComponents() {
		comps = append(comps, []int{int(t[0].(uint32)), int(t[1].(uint32)), dataBack(t[2].([]byte))})
	}
	sm["comps"] = sortRows(comps)

	subs := [][]any{}
	for tid, ps := range ecs.VerifSubscriptions() {
		if len(ps) == 0 {
			continue
		}
		subs = append(subs, []any{int(tid), u32s(ps)})
	}
	sort.Slice(subs, func(i, j int) bool { return subs[i][0].(int) < subs[j][0].(int) })
	sm["subs"] = subs

	acts := [][]any{}
	assets := [][]any{}
	mods := []string{}
	acur := 0
	grid := 0
	for name, st := range s.VerifModuleStates() {
		mods = append(mods, name)
		switch v := st.(type) {
		case *vikja.State:
			for _, a := range v.EntityActions() {
				acts = append(acts, actBack(a))
			}
		case *odal.State:
			for _, a := range v.AssetInstances() {
				assets = append(assets, assetBack(a))
			}
			ac, _ := v.VerifAssetIDs()
			acur = int(ac)
		case *dagaz.State:
			if v.SpatialPartition != nil {
				if _, ok := w.grids[v.SpatialPartition]; !ok {
					w.grids[v.SpatialPartition] = len(w.grids) + 1
				}
				grid = w.grids[v.SpatialPartition]
			}
		}
	}
	sort.Strings(mods)
	sm["mods"] = mods
	sm["acts"] = sortAny(acts)
	sm["assets"] = sortAny(assets)
	sm["grid"] = grid
	sm["acur"] = acur
	sm["fh"] = s.VerifFrameHandlerCount()
	ticking := false
	if tk, ok := s.VerifFrameTicker().(*verifrt.Ticker); ok && tk != nil {
		ticking = !tk.Stopped()
	}
	sm["ticking"] = ticking
	return sm
}

// ---------------------------------------------------------------------------
// lock events (pass-through interceptor used at L1 for the frame barrier)

type events struct {
	mu     gosync.Mutex
	cond   *gosync.Cond
	counts map[string]int
	record bool
	log    [][]any
}

// lockClass names the mutex a lock operation works on: the type taken from the calling
// function plus the receiver expression found on the source line of the call.
var (
	classMu    gosync.Mutex
	classCache = map[string]string{}
	srcCache   = map[string][]string{}
	lockRe     = regexp.MustCompile(`([A-Za-z_][A-Za-z0-9_]*(?:\.[A-Za-z_][A-Za-z0-9_]*)*)\.(?:R?Lock|R?Unlock)\(\)`)
)

func lockClass(ev *verifrt.Event) string {
	key := fmt.Sprintf("%s:%d", ev.File, ev.Line)
	classMu.Lock()
	defer classMu.Unlock()
	if c, ok := classCache[key]; ok {
		return c
	}
	lines, ok := srcCache[ev.File]
	if !ok {
		b, _ := os.ReadFile(ev.File)
		lines = strings.Split(string(b), "\n")
		srcCache[ev.File] = lines
	}
	field := "?"
	// the reported line can be off by one or two (inlined shim frames): look around it for a call of this operation
	want := "." + ev.Op.String() + "()"
	for _, d := range []int{0, 1, -1, 2, -2, 3} {
		i := ev.Line - 1 + d
		if i < 0 || i >= len(lines) || !strings.Contains(lines[i], want) {
			continue
		}
		if m := lockRe.FindStringSubmatch(lines[i]); m != nil {
			parts := strings.Split(m[1], ".")
			field = strings.Join(parts[1:], ".")
			if field == "" {
				field = m[1]
			}
			break
		}
	}
	typ := ev.Fn
	if i := strings.Index(typ, "(*"); i >= 0 {
		typ = typ[i+2:]
		if j := strings.Index(typ, ")"); j >= 0 {
			typ = typ[:j]
		}
	} else if i := strings.Index(typ, "."); i >= 0 {
		typ = typ[:i]
	}
	c := typ + "." + field
	classCache[key] = c
	return c
}

func (e *events) takeLog() [][]any {
	e.mu.Lock()
	defer e.mu.Unlock()
	l := e.log
	e.log = nil
	if l == nil {
		l = [][]any{}
	}
	return l
}

func newEvents() *events {
	e := &events{counts: map[string]int{}}
	e.cond = gosync.NewCond(&e.mu)
	return e
}

func (e *events) key(mu string, op verifrt.Op) string { return mu + "/" + op.String() }

func (e *events) Before(ev *verifrt.Event) {}

func (e *events) After(ev *verifrt.Event) {
	if e.record {
		cls := lockClass(ev)
		e.mu.Lock()
		e.log = append(e.log, []any{cls, ev.Op.String(), ev.G, fmt.Sprintf("%x", ev.Mu), ev.Fn})
		e.mu.Unlock()
	}
	if ev.Op != verifrt.OpRUnlock {
		return
	}
	e.mu.Lock()
	e.counts[e.key(fmt.Sprintf("0x%x", ev.Mu), ev.Op)]++
	e.cond.Broadcast()
	e.mu.Unlock()
}

func (e *events) count(mu string, op verifrt.Op) int {
	e.mu.Lock()
	defer e.mu.Unlock()
	return e.counts[e.key(mu, op)]
}

func (e *events) waitCount(mu string, op verifrt.Op, n int, d time.Duration) bool {
	deadline := time.Now().Add(d)
	done := make(chan struct{})
	go func() {
		select {
		case <-done:
		case <-time.After(d):
			e.mu.Lock()
			e.cond.Broadcast()
			e.mu.Unlock()
		}
	}()
	defer close(done)
	e.mu.Lock()
	defer e.mu.Unlock()
	for e.counts[e.key(mu, op)] < n {
		if time.Now().After(deadline) {
			return false
		}
		e.cond.Wait()
	}
	return true
}

// Shutdown ends every open connection so that frame workers stop.
func (w *World) Shutdown() {
	for _, c := range w.conns {
		if c.life != "closed" {
			protect(func() error { c.vc.Handler().HandleDisconnect(nil); return nil })
			c.life = "closed"
		}
	}
	w.Close()
}

func (w *World) sidOf(cid int) int {
	c, ok := w.conns[cid]
	if !ok {
		return 0
	}
	if s := c.rh.CurrentSession(); s != nil {
		return sidBack(w.store.GlobalSessionID(s.ID))
	}
	return 0
}

// resolvePing turns a symbolic reference of a ping response ("open": the
// outstanding ping, "old": one answered before, "unknown") into a concrete id.
func (w *World) resolvePing(c *Conn, req M) {
	ref := gets(req, "ref")
	pick := 0
	if p := c.rh.CurrentParticipant(); p != nil && p.SignedLatency != nil {
		var open, done []int
		for id, d := range p.SignedLatency.PingRequests {
			if d.End.IsZero() {
				open = append(open, w.pingIndex(id))
			} else {
				done = append(done, w.pingIndex(id))
			}
		}
		sort.Ints(open)
		sort.Ints(done)
		switch {
		case ref == "open" && len(open) > 0:
			pick = open[0]
		case ref == "old" && len(done) > 0:
			pick = done[0]
		case ref == "last" && len(done) > 0:
			pick = done[len(done)-1]
		}
	}
	if pick == 0 {
		pick = 7 // an id the server never issued
	}
	req["pidx"] = pick
	if real, ok := w.pingReal(pick); ok {
		req["rid"] = int(real)
	} else {
		req["rid"] = pick
	}
}

func (w *World) projectLat(p *models.Participant) M {
	sl := p.SignedLatency
	open, done := []int{}, [][]int{}
	if sl == nil {
		return M{"left": 0, "open": open, "done": done}
	}
	for id, d := range sl.PingRequests {
		if d.End.IsZero() {
			open = append(open, w.pingIndex(id))
		} else {
			done = append(done, []int{w.pingIndex(id), int(d.End.Sub(d.Start).Microseconds())})
		}
	}
	sort.Ints(open)
	left := int(sl.Iteration)
	if sl.Iteration > 1<<31 {
		left = -1 // underflow of the unsigned round counter
	}
	return M{"left": left, "open": open, "done": sortRows(done)}
}

func testKey() *ecdsa.PrivateKey {
	key, err := crypto.HexToECDSA("4c0883a69102937d6231471b5dbb6204fe5129617082792ae468d01a3f362318")
	if err != nil {
		panic(err)
	}
	return key
}
