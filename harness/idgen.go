package main

import (
	"bufio"
	"encoding/json"
	"flag"
	"fmt"
	"os"
	"sort"
	gosync "sync"
	"sync/atomic"

	"github.com/aukilabs/hagall/models"
)

// cmdIdgen replays symbolic allocate/release scripts on a real
// models.SequentialIDGenerator.  A script is a string over {N,1,2,3}: N = New,
// k = Reuse of the k-th smallest id currently held (skipped when fewer are held).
func cmdIdgen(args []string) {
	fs := flag.NewFlagSet("idgen", flag.ExitOnError)
	in := fs.String("in", "", "scripts, one per line")
	out := fs.String("out", "", "trace (ndjson)")
	fs.Parse(args)
	f, err := os.Open(*in)
	if err != nil {
		fatal(2, "%v", err)
	}
	defer f.Close()
	of, _ := os.Create(*out)
	defer of.Close()
	bw := bufio.NewWriterSize(of, 1<<20)
	defer bw.Flush()
	enc := json.NewEncoder(bw)
	sc := bufio.NewScanner(f)
	n, ops := 0, 0
	for sc.Scan() {
		script := sc.Text()
		if script == "" {
			continue
		}
		n++
		var g models.SequentialIDGenerator
		var held []int
		enc.Encode(M{"op": "reset", "script": script})
		for _, ch := range script {
			if ch == 'N' {
				id := int(g.New())
				held = append(held, id)
				sort.Ints(held)
				cur, free := g.VerifState()
				enc.Encode(M{"op": "New", "id": id, "cur": int(cur), "free": u32s(free)})
				ops++
				continue
			}
			k := int(ch - '0')
			if k < 1 || k > len(held) {
				continue
			}
			id := held[k-1]
			held = append(held[:k-1], held[k:]...)
			g.Reuse(uint32(id))
			cur, free := g.VerifState()
			enc.Encode(M{"op": "Reuse", "id": id, "cur": int(cur), "free": u32s(free)})
			ops++
		}
	}
	fmt.Printf("idgen: %d scripts, %d calls\n", n, ops)
}

// cmdIdburst: real-thread bursts of concurrent allocations and releases with an
// ownership monitor: an id returned by New must not be owned by anybody.
func cmdIdburst(args []string) {
	fs := flag.NewFlagSet("idburst", flag.ExitOnError)
	gor := fs.Int("g", 16, "goroutines")
	iters := fs.Int("n", 2000, "operations per goroutine")
	seed := fs.Int("seed", 1, "seed")
	fs.Parse(args)
	var g models.SequentialIDGenerator
	owner := make([]atomic.Int32, *gor**iters+2) // an id is at most the number of allocations
	var dup atomic.Int64
	var wg gosync.WaitGroup
	for w := 0; w < *gor; w++ {
		wg.Add(1)
		go func(w int) {
			defer wg.Done()
			x := uint32(*seed*7919 + w*104729 + 1)
			var held []uint32
			for i := 0; i < *iters; i++ {
				x = x*1664525 + 1013904223
				if len(held) == 0 || (x>>16)%3 != 0 {
					id := g.New()
					if int(id) >= len(owner) || !owner[id].CompareAndSwap(0, int32(w+1)) {
						dup.Add(1)
					}
					held = append(held, id)
				} else {
					j := int(x>>8) % len(held)
					id := held[j]
					held = append(held[:j], held[j+1:]...)
					owner[id].Store(0)
					g.Reuse(id)
				}
			}
		}(w)
	}
	wg.Wait()
	fmt.Printf("{\"goroutines\": %d, \"ops\": %d, \"duplicates\": %d}\n", *gor, *gor**iters, dup.Load())
}
