package main

// Concretisation of abstract requests (as the specification names them) into
// real protobuf messages, and projection of real messages back to the small
// integer records the specification talks about.

import (
	"crypto/sha256"
	"encoding/hex"
	"fmt"
	"math"
	"reflect"
	"sort"
	"strconv"
	"strings"
	"time"
	"unsafe"

	"github.com/aukilabs/hagall-common/messages/dagazpb"
	"github.com/aukilabs/hagall-common/messages/hagallpb"
	"github.com/aukilabs/hagall-common/messages/odalpb"
	"github.com/aukilabs/hagall-common/messages/vikjapb"
	hwebsocket "github.com/aukilabs/hagall-common/websocket"
	"google.golang.org/protobuf/proto"
	"google.golang.org/protobuf/types/known/timestamppb"
)

type M = map[string]any

const tsBase = int64(1_000_000_000)

func tsOf(n int) *timestamppb.Timestamp {
	if n < 0 {
		return nil
	}
	return timestamppb.New(time.Unix(tsBase+int64(n), 0))
}

// tsBack maps a timestamp to the small integer it was built from; -1 when it
// is absent or not one of ours (server-generated "now").
func tsBack(t *timestamppb.Timestamp) int {
	if t == nil {
		return -1
	}
	s := t.GetSeconds() - tsBase
	if s < 0 || s > 1_000_000 || t.GetNanos() != 0 {
		return -1
	}
	return int(s)
}

// Action timestamps use quarter-second steps so that their order depends on the
// nanosecond part as well: n -> base + n/4 s + (n%4)*250 ms.
func atsOf(n int) *timestamppb.Timestamp {
	if n < 0 {
		return nil
	}
	return timestamppb.New(time.Unix(tsBase+int64(n/4), int64(n%4)*250_000_000))
}

func atsBack(t *timestamppb.Timestamp) int {
	if t == nil {
		return -1
	}
	s := t.GetSeconds() - tsBase
	if s < 0 || s > 1_000_000 || t.GetNanos()%250_000_000 != 0 {
		return -1
	}
	return int(s)*4 + int(t.GetNanos()/250_000_000)
}

func geti(m M, k string) int {
	switch v := m[k].(type) {
	case float64:
		return int(v)
	case int:
		return v
	case bool:
		if v {
			return 1
		}
		return 0
	case string:
		n, _ := strconv.Atoi(v)
		return n
	}
	return 0
}

func getb(m M, k string) bool {
	switch v := m[k].(type) {
	case bool:
		return v
	case float64:
		return v != 0
	case int:
		return v != 0
	}
	return false
}

func gets(m M, k string) string {
	if v, ok := m[k].(string); ok {
		return v
	}
	return ""
}

func getl(m M, k string) []int {
	var out []int
	switch v := m[k].(type) {
	case []any:
		for _, x := range v {
			switch y := x.(type) {
			case float64:
				out = append(out, int(y))
			case int:
				out = append(out, y)
			}
		}
	case []int:
		return v
	}
	return out
}

func poseOf(px int) *hagallpb.Pose {
	if px < 0 {
		return nil
	}
	f := float32(px)
	return &hagallpb.Pose{Px: f, Py: 2 * f, Pz: 3 * f, Rx: 4 * f, Ry: 5 * f, Rz: 6 * f, Rw: 7 * f}
}

// poseBack: the integer the pose was built from, -1 when absent, -2 when it
// is not a pose this harness could have built (corrupted / mixed).
func poseBack(p *hagallpb.Pose) int {
	if p == nil {
		return -1
	}
	f := p.Px
	if f != float32(math.Trunc(float64(f))) || f < 0 {
		return -2
	}
	if p.Py != 2*f || p.Pz != 3*f || p.Rx != 4*f || p.Ry != 5*f || p.Rz != 6*f || p.Rw != 7*f {
		return -2
	}
	return int(f)
}

func dataOf(d int) []byte {
	if d <= 0 {
		return nil
	}
	return []byte{byte(d)}
}

func dataBack(b []byte) int {
	switch len(b) {
	case 0:
		return 0
	case 1:
		return int(b[0])
	}
	return -2
}

// bodies registers custom-message bodies by digest so that a received body can
// be mapped back to the (len, dig) pair it was generated from.
type bodies struct{ bySha map[string][2]int }

func (b *bodies) make(n, dig int) []byte {
	out := make([]byte, n)
	x := uint32(dig)*2654435761 + 12345
	for i := range out {
		x = x*1664525 + 1013904223
		out[i] = byte(x >> 24)
	}
	if b.bySha == nil {
		b.bySha = map[string][2]int{}
	}
	h := sha256.Sum256(out)
	if _, ok := b.bySha[hex.EncodeToString(h[:])]; !ok {
		b.bySha[hex.EncodeToString(h[:])] = [2]int{n, dig}
	}
	return out
}

// canon returns the number under which a body with this content was first registered:
// bodies with equal content (all empty bodies, colliding short ones) share one number.
func (b *bodies) canon(n, dig int) int {
	out := make([]byte, n)
	x := uint32(dig)*2654435761 + 12345
	for i := range out {
		x = x*1664525 + 1013904223
		out[i] = byte(x >> 24)
	}
	h := sha256.Sum256(out)
	if v, ok := b.bySha[hex.EncodeToString(h[:])]; ok && v[0] == n {
		return v[1]
	}
	return dig
}

func (b *bodies) back(body []byte) (int, int) {
	h := sha256.Sum256(body)
	if v, ok := b.bySha[hex.EncodeToString(h[:])]; ok && v[0] == len(body) {
		return v[0], v[1]
	}
	return len(body), -1
}

// sidString / sidBack: session ids as the store prints them ("<server>x<hex>").
const serverID = "ted"

func sidString(n int) string {
	switch {
	case n == 0:
		return ""
	case n < 0:
		return "no-such-session"
	}
	return fmt.Sprintf("%sx%x", serverID, n)
}

func sidBack(s string) int {
	if s == "" {
		return 0
	}
	if !strings.HasPrefix(s, serverID+"x") {
		return -1
	}
	n, err := strconv.ParseUint(s[len(serverID)+1:], 16, 32)
	if err != nil {
		return -1
	}
	return int(n)
}

// rawMsg builds an hwebsocket.Msg exactly as hwebsocket.Receive would: the
// type is a hagallpb.MsgType whatever package defined the message, and the
// body is the wire encoding.
func rawMsg(typ int32, t time.Time, body []byte) hwebsocket.Msg {
	msg := hwebsocket.Msg{Type: hagallpb.MsgType(typ), Time: t}
	f := reflect.ValueOf(&msg).Elem().FieldByName("body")
	reflect.NewAt(f.Type(), unsafe.Pointer(f.UnsafeAddr())).Elem().Set(reflect.ValueOf(body))
	return msg
}

func msgBody(msg hwebsocket.Msg) []byte {
	f := reflect.ValueOf(&msg).Elem().FieldByName("body")
	return reflect.NewAt(f.Type(), unsafe.Pointer(f.UnsafeAddr())).Elem().Bytes()
}

func wire(typ int32, pm proto.Message, ts *timestamppb.Timestamp) hwebsocket.Msg {
	b, err := proto.Marshal(pm)
	if err != nil {
		panic(err)
	}
	var t time.Time
	if ts != nil {
		t = ts.AsTime()
	}
	return rawMsg(typ, t, b)
}

// build turns an abstract request into a wire message.
func (w *World) build(r M) (hwebsocket.Msg, error) {
	rid := uint32(geti(r, "rid"))
	tsn := 0
	if _, ok := r["ts"]; ok {
		tsn = geti(r, "ts")
	}
	ts := tsOf(tsn)
	T := func(t hagallpb.MsgType) hagallpb.MsgType { return t }
	switch gets(r, "k") {
	case "Join":
		t := T(hagallpb.MsgType_MSG_TYPE_PARTICIPANT_JOIN_REQUEST)
		return wire(int32(t), &hagallpb.ParticipantJoinRequest{Type: t, Timestamp: ts, RequestId: rid, SessionId: sidString(geti(r, "sid"))}, ts), nil
	case "EntityAdd":
		t := T(hagallpb.MsgType_MSG_TYPE_ENTITY_ADD_REQUEST)
		return wire(int32(t), &hagallpb.EntityAddRequest{Type: t, Timestamp: ts, RequestId: rid, Pose: poseOf(geti(r, "px")), Persist: getb(r, "persist"), Flag: hagallpb.EntityFlag(geti(r, "flag"))}, ts), nil
	case "EntityDelete":
		t := T(hagallpb.MsgType_MSG_TYPE_ENTITY_DELETE_REQUEST)
		return wire(int32(t), &hagallpb.EntityDeleteRequest{Type: t, Timestamp: ts, RequestId: rid, EntityId: uint32(geti(r, "eid"))}, ts), nil
	case "Pose":
		t := T(hagallpb.MsgType_MSG_TYPE_ENTITY_UPDATE_POSE)
		return wire(int32(t), &hagallpb.EntityUpdatePose{Type: t, Timestamp: ts, EntityId: uint32(geti(r, "eid")), Pose: poseOf(geti(r, "px"))}, ts), nil
	case "Custom":
		t := T(hagallpb.MsgType_MSG_TYPE_CUSTOM_MESSAGE)
		var to []uint32
		for _, p := range getl(r, "to") {
			to = append(to, uint32(p))
		}
		return wire(int32(t), &hagallpb.CustomMessage{Type: t, Timestamp: ts, ParticipantIds: to, Body: w.bodies.make(geti(r, "len"), geti(r, "dig"))}, ts), nil
	case "TypeAdd":
		t := T(hagallpb.MsgType_MSG_TYPE_ENTITY_COMPONENT_TYPE_ADD_REQUEST)
		return wire(int32(t), &hagallpb.EntityComponentTypeAddRequest{Type: t, Timestamp: ts, RequestId: rid, EntityComponentTypeName: gets(r, "name")}, ts), nil
	case "GetName":
		t := T(hagallpb.MsgType_MSG_TYPE_ENTITY_COMPONENT_TYPE_GET_NAME_REQUEST)
		return wire(int32(t), &hagallpb.EntityComponentTypeGetNameRequest{Type: t, Timestamp: ts, RequestId: rid, EntityComponentTypeId: uint32(geti(r, "tid"))}, ts), nil
	case "GetId":
		t := T(hagallpb.MsgType_MSG_TYPE_ENTITY_COMPONENT_TYPE_GET_ID_REQUEST)
		return wire(int32(t), &hagallpb.EntityComponentTypeGetIdRequest{Type: t, Timestamp: ts, RequestId: rid, EntityComponentTypeName: gets(r, "name")}, ts), nil
	case "CompAdd":
		t := T(hagallpb.MsgType_MSG_TYPE_ENTITY_COMPONENT_ADD_REQUEST)
		return wire(int32(t), &hagallpb.EntityComponentAddRequest{Type: t, Timestamp: ts, RequestId: rid, EntityComponentTypeId: uint32(geti(r, "tid")), EntityId: uint32(geti(r, "eid")), Data: dataOf(geti(r, "data"))}, ts), nil
	case "CompDelete":
		t := T(hagallpb.MsgType_MSG_TYPE_ENTITY_COMPONENT_DELETE_REQUEST)
		return wire(int32(t), &hagallpb.EntityComponentDeleteRequest{Type: t, Timestamp: ts, RequestId: rid, EntityComponentTypeId: uint32(geti(r, "tid")), EntityId: uint32(geti(r, "eid"))}, ts), nil
	case "CompUpdate":
		t := T(hagallpb.MsgType_MSG_TYPE_ENTITY_COMPONENT_UPDATE)
		return wire(int32(t), &hagallpb.EntityComponentUpdate{Type: t, Timestamp: ts, EntityComponentTypeId: uint32(geti(r, "tid")), EntityId: uint32(geti(r, "eid")), Data: dataOf(geti(r, "data"))}, ts), nil
	case "CompList":
		t := T(hagallpb.MsgType_MSG_TYPE_ENTITY_COMPONENT_LIST_REQUEST)
		return wire(int32(t), &hagallpb.EntityComponentListRequest{Type: t, Timestamp: ts, RequestId: rid, EntityComponentTypeId: uint32(geti(r, "tid"))}, ts), nil
	case "Sub":
		t := T(hagallpb.MsgType_MSG_TYPE_ENTITY_COMPONENT_TYPE_SUBSCRIBE_REQUEST)
		return wire(int32(t), &hagallpb.EntityComponentTypeSubscribeRequest{Type: t, Timestamp: ts, RequestId: rid, EntityComponentTypeId: uint32(geti(r, "tid"))}, ts), nil
	case "Unsub":
		t := T(hagallpb.MsgType_MSG_TYPE_ENTITY_COMPONENT_TYPE_UNSUBSCRIBE_REQUEST)
		return wire(int32(t), &hagallpb.EntityComponentTypeUnsubscribeRequest{Type: t, Timestamp: ts, RequestId: rid, EntityComponentTypeId: uint32(geti(r, "tid"))}, ts), nil
	case "Ping":
		t := T(hagallpb.MsgType_MSG_TYPE_PING_REQUEST)
		return wire(int32(t), &hagallpb.Request{Type: t, Timestamp: ts, RequestId: rid}, ts), nil
	case "PingResp":
		t := T(hagallpb.MsgType_MSG_TYPE_PING_RESPONSE)
		return wire(int32(t), &hagallpb.Response{Type: t, Timestamp: ts, RequestId: rid}, ts), nil
	case "SignedLatency":
		t := T(hagallpb.MsgType_MSG_TYPE_SIGNED_LATENCY_REQUEST)
		return wire(int32(t), &hagallpb.SignedLatencyRequest{Type: t, Timestamp: ts, RequestId: rid, IterationCount: uint32(geti(r, "n")), WalletAddress: gets(r, "wallet")}, ts), nil
	case "Receipt":
		t := T(hagallpb.MsgType_MSG_TYPE_RECEIPT_REQUEST)
		hash, _ := hex.DecodeString(gets(r, "hash"))
		sig, _ := hex.DecodeString(gets(r, "sig"))
		return wire(int32(t), &hagallpb.ReceiptRequest{Type: t, Timestamp: ts, RequestId: rid, Receipt: gets(r, "receipt"), Hash: hash, Signature: sig}, ts), nil
	case "Leave":
		t := T(hagallpb.MsgType_MSG_TYPE_PARTICIPANT_LEAVE_REQUEST)
		return wire(int32(t), &hagallpb.ParticipantLeaveRequest{Type: t, Timestamp: ts, RequestId: rid}, ts), nil
	case "Unknown":
		n := int32(geti(r, "type"))
		return wire(n, &hagallpb.Request{Type: hagallpb.MsgType(n), Timestamp: ts, RequestId: rid}, ts), nil
	case "Action":
		t := vikjapb.MsgType_MSG_TYPE_VIKJA_ENTITY_ACTION_REQUEST
		var ea *vikjapb.EntityAction
		if !mhas(r, "has") || getb(r, "has") {
			ea = &vikjapb.EntityAction{EntityId: uint32(geti(r, "eid")), Name: gets(r, "name"), Timestamp: atsOf(geti(r, "ats")), Data: dataOf(geti(r, "data"))}
		}
		return wire(int32(t), &vikjapb.EntityActionRequest{Type: t, Timestamp: ts, RequestId: rid, EntityAction: ea}, ts), nil
	case "AssetAdd":
		t := odalpb.MsgType_MSG_TYPE_ODAL_ASSET_INSTANCE_ADD_REQUEST
		return wire(int32(t), &odalpb.AssetInstanceAddRequest{Type: t, Timestamp: ts, RequestId: rid, EntityId: uint32(geti(r, "eid")), AssetId: gets(r, "asset")}, ts), nil
	case "Quad":
		t := dagazpb.MsgType_MSG_TYPE_DAGAZ_QUAD_SAMPLE
		var qs []*dagazpb.Quad
		for _, q := range mlist(r, "quads") {
			qs = append(qs, quadOf(q))
		}
		return wire(int32(t), &dagazpb.DagazQuadSample{Type: t, Timestamp: ts, Samples: qs}, ts), nil
	case "Ground":
		t := dagazpb.MsgType_MSG_TYPE_DAGAZ_GET_GROUND_PLANE_REQUEST
		var ray *dagazpb.Ray
		if v := mlist(r, "ray"); len(v) == 2 {
			ray = &dagazpb.Ray{From: pointOf(v[0]), To: pointOf(v[1])}
		}
		return wire(int32(t), &dagazpb.DagazGetGroundPlaneRequest{Type: t, Timestamp: ts, RequestId: rid, Ray: ray}, ts), nil
	case "Region":
		t := dagazpb.MsgType_MSG_TYPE_DAGAZ_GET_REGION_REQUEST
		return wire(int32(t), &dagazpb.DagazGetRegionRequest{Type: t, Timestamp: ts, RequestId: rid, Min: pointOf(r["min"]), Max: pointOf(r["max"])}, ts), nil
	case "Debug":
		t := dagazpb.MsgType_MSG_TYPE_DAGAZ_GET_DEBUG_INFO_REQUEST
		return wire(int32(t), &dagazpb.DagazGetDebugInfoRequest{Type: t, Timestamp: ts, RequestId: rid}, ts), nil
	}
	return hwebsocket.Msg{}, fmt.Errorf("unknown request kind %q", gets(r, "k"))
}

func mhas(m M, k string) bool { _, ok := m[k]; return ok }

func mlist(m M, k string) []any {
	if v, ok := m[k].([]any); ok {
		return v
	}
	return nil
}

func pointOf(v any) *dagazpb.Point {
	l, ok := v.([]any)
	if !ok || len(l) != 3 {
		return nil
	}
	f := func(x any) float32 {
		switch y := x.(type) {
		case float64:
			return float32(y)
		case string:
			switch y {
			case "nan":
				return float32(math.NaN())
			case "inf":
				return float32(math.Inf(1))
			case "-inf":
				return float32(math.Inf(-1))
			}
		}
		return 0
	}
	return &dagazpb.Point{X: f(l[0]), Y: f(l[1]), Z: f(l[2])}
}

func quadOf(v any) *dagazpb.Quad {
	l, ok := v.([]any)
	if !ok || len(l) < 2 {
		return &dagazpb.Quad{}
	}
	return &dagazpb.Quad{Center: pointOf(l[0]), Extents: pointOf(l[1])}
}

func entBack(e *hagallpb.Entity) []int {
	if e == nil {
		return []int{-1, -1, -1, -1}
	}
	return []int{int(e.Id), int(e.ParticipantId), int(e.Flag), poseBack(e.Pose)}
}

func compBack(c *hagallpb.EntityComponent) []int {
	if c == nil {
		return []int{-1, -1, -1}
	}
	return []int{int(c.EntityComponentTypeId), int(c.EntityId), dataBack(c.Data)}
}

func sortRows(rows [][]int) [][]int {
	sort.Slice(rows, func(i, j int) bool {
		a, b := rows[i], rows[j]
		for k := 0; k < len(a) && k < len(b); k++ {
			if a[k] != b[k] {
				return a[k] < b[k]
			}
		}
		return len(a) < len(b)
	})
	if rows == nil {
		rows = [][]int{}
	}
	return rows
}

func actBack(a *vikjapb.EntityAction) []any {
	if a == nil {
		return []any{-1, "", -1, -1}
	}
	return []any{int(a.EntityId), a.Name, atsBack(a.Timestamp), dataBack(a.Data)}
}

func assetBack(a *odalpb.AssetInstance) []any {
	if a == nil {
		return []any{-1, -1, "", -1}
	}
	return []any{int(a.EntityId), int(a.Id), a.AssetId, int(a.ParticipantId)}
}

func sortAny(rows [][]any) [][]any {
	sort.Slice(rows, func(i, j int) bool { return fmt.Sprint(rows[i]) < fmt.Sprint(rows[j]) })
	if rows == nil {
		rows = [][]any{}
	}
	return rows
}

// project maps a message sent by the server to the record the specification
// uses.  Unknown or undecodable messages are reported as such (never dropped).
func (w *World) project(msg hwebsocket.Msg) M {
	n := int32(msg.Type.Number())
	dec := func(pm hwebsocket.ProtoMsg) bool { return msg.DataTo(pm) == nil }
	switch {
	case n == int32(hagallpb.MsgType_MSG_TYPE_ERROR_RESPONSE):
		var m hagallpb.ErrorResponse
		if dec(&m) {
			rid := int(m.RequestId)
			if idx, ok := w.pings[m.RequestId]; ok {
				rid = idx // a refused ping response echoes the (huge) ping id: log its index
			}
			return M{"t": "ERROR", "rid": rid, "code": int(m.Code)}
		}
	case n == int32(hagallpb.MsgType_MSG_TYPE_SYNC_CLOCK):
		return M{"t": "SYNC_CLOCK"}
	case n == int32(hagallpb.MsgType_MSG_TYPE_SESSION_STATE):
		var m hagallpb.SessionState
		if dec(&m) {
			var ps, es, cs [][]int
			for _, p := range m.Participants {
				ps = append(ps, []int{int(p.GetId())})
			}
			for _, e := range m.Entities {
				es = append(es, entBack(e))
			}
			for _, c := range m.EntityComponents {
				cs = append(cs, compBack(c))
			}
			flat := []int{}
			for _, p := range sortRows(ps) {
				flat = append(flat, p[0])
			}
			return M{"t": "SESSION_STATE", "parts": flat, "ents": sortRows(es), "comps": sortRows(cs)}
		}
	case n == int32(hagallpb.MsgType_MSG_TYPE_PARTICIPANT_JOIN_RESPONSE):
		var m hagallpb.ParticipantJoinResponse
		if dec(&m) {
			return M{"t": "JOIN_RESPONSE", "rid": int(m.RequestId), "sid": sidBack(m.SessionId), "uuid": w.uuidIndex(m.SessionUuid), "pid": int(m.ParticipantId)}
		}
	case n == int32(hagallpb.MsgType_MSG_TYPE_PARTICIPANT_JOIN_BROADCAST):
		var m hagallpb.ParticipantJoinBroadcast
		if dec(&m) {
			return M{"t": "JOIN_BROADCAST", "pid": int(m.ParticipantId), "ots": tsBack(m.OriginTimestamp)}
		}
	case n == int32(hagallpb.MsgType_MSG_TYPE_PARTICIPANT_LEAVE_BROADCAST):
		var m hagallpb.ParticipantLeaveBroadcast
		if dec(&m) {
			return M{"t": "LEAVE_BROADCAST", "pid": int(m.ParticipantId)}
		}
	case n == int32(hagallpb.MsgType_MSG_TYPE_ENTITY_ADD_RESPONSE):
		var m hagallpb.EntityAddResponse
		if dec(&m) {
			return M{"t": "ENTITY_ADD_RESPONSE", "rid": int(m.RequestId), "eid": int(m.EntityId)}
		}
	case n == int32(hagallpb.MsgType_MSG_TYPE_ENTITY_ADD_BROADCAST):
		var m hagallpb.EntityAddBroadcast
		if dec(&m) {
			return M{"t": "ENTITY_ADD_BROADCAST", "ent": entBack(m.Entity), "ots": tsBack(m.OriginTimestamp)}
		}
	case n == int32(hagallpb.MsgType_MSG_TYPE_ENTITY_DELETE_RESPONSE):
		var m hagallpb.EntityDeleteResponse
		if dec(&m) {
			return M{"t": "ENTITY_DELETE_RESPONSE", "rid": int(m.RequestId)}
		}
	case n == int32(hagallpb.MsgType_MSG_TYPE_ENTITY_DELETE_BROADCAST):
		var m hagallpb.EntityDeleteBroadcast
		if dec(&m) {
			return M{"t": "ENTITY_DELETE_BROADCAST", "eid": int(m.EntityId), "ots": tsBack(m.OriginTimestamp)}
		}
	case n == int32(hagallpb.MsgType_MSG_TYPE_ENTITY_UPDATE_POSE_BROADCAST):
		var m hagallpb.EntityUpdatePoseBroadcast
		if dec(&m) {
			return M{"t": "POSE_BROADCAST", "eid": int(m.EntityId), "px": poseBack(m.Pose), "ots": tsBack(m.OriginTimestamp)}
		}
	case n == int32(hagallpb.MsgType_MSG_TYPE_CUSTOM_MESSAGE_BROADCAST):
		var m hagallpb.CustomMessageBroadcast
		if dec(&m) {
			l, d := w.bodies.back(m.Body)
			return M{"t": "CUSTOM_BROADCAST", "pid": int(m.ParticipantId), "len": l, "dig": d, "ots": tsBack(m.OriginTimestamp)}
		}
	case n == int32(hagallpb.MsgType_MSG_TYPE_ENTITY_COMPONENT_TYPE_ADD_RESPONSE):
		var m hagallpb.EntityComponentTypeAddResponse
		if dec(&m) {
			return M{"t": "TYPE_ADD_RESPONSE", "rid": int(m.RequestId), "tid": int(m.EntityComponentTypeId)}
		}
	case n == int32(hagallpb.MsgType_MSG_TYPE_ENTITY_COMPONENT_TYPE_GET_NAME_RESPONSE):
		var m hagallpb.EntityComponentTypeGetNameResponse
		if dec(&m) {
			return M{"t": "GET_NAME_RESPONSE", "rid": int(m.RequestId), "name": m.EntityComponentTypeName}
		}
	case n == int32(hagallpb.MsgType_MSG_TYPE_ENTITY_COMPONENT_TYPE_GET_ID_RESPONSE):
		var m hagallpb.EntityComponentTypeGetIdResponse
		if dec(&m) {
			return M{"t": "GET_ID_RESPONSE", "rid": int(m.RequestId), "tid": int(m.EntityComponentTypeId)}
		}
	case n == int32(hagallpb.MsgType_MSG_TYPE_ENTITY_COMPONENT_ADD_RESPONSE):
		var m hagallpb.EntityComponentAddResponse
		if dec(&m) {
			return M{"t": "COMP_ADD_RESPONSE", "rid": int(m.RequestId)}
		}
	case n == int32(hagallpb.MsgType_MSG_TYPE_ENTITY_COMPONENT_ADD_BROADCAST):
		var m hagallpb.EntityComponentAddBroadcast
		if dec(&m) {
			return M{"t": "COMP_ADD_BROADCAST", "comp": compBack(m.EntityComponent), "ots": tsBack(m.OriginTimestamp)}
		}
	case n == int32(hagallpb.MsgType_MSG_TYPE_ENTITY_COMPONENT_DELETE_RESPONSE):
		var m hagallpb.EntityComponentDeleteResponse
		if dec(&m) {
			return M{"t": "COMP_DELETE_RESPONSE", "rid": int(m.RequestId)}
		}
	case n == int32(hagallpb.MsgType_MSG_TYPE_ENTITY_COMPONENT_DELETE_BROADCAST):
		var m hagallpb.EntityComponentDeleteBroadcast
		if dec(&m) {
			return M{"t": "COMP_DELETE_BROADCAST", "comp": compBack(m.EntityComponent), "ots": tsBack(m.OriginTimestamp)}
		}
	case n == int32(hagallpb.MsgType_MSG_TYPE_ENTITY_COMPONENT_UPDATE_BROADCAST):
		var m hagallpb.EntityComponentUpdateBroadcast
		if dec(&m) {
			return M{"t": "COMP_UPDATE_BROADCAST", "comp": compBack(m.EntityComponent), "ots": tsBack(m.OriginTimestamp)}
		}
	case n == int32(hagallpb.MsgType_MSG_TYPE_ENTITY_COMPONENT_LIST_RESPONSE):
		var m hagallpb.EntityComponentListResponse
		if dec(&m) {
			var cs [][]int
			for _, c := range m.EntityComponents {
				cs = append(cs, compBack(c))
			}
			return M{"t": "COMP_LIST_RESPONSE", "rid": int(m.RequestId), "comps": sortRows(cs)}
		}
	case n == int32(hagallpb.MsgType_MSG_TYPE_ENTITY_COMPONENT_TYPE_SUBSCRIBE_RESPONSE):
		var m hagallpb.EntityComponentTypeSubscribeResponse
		if dec(&m) {
			return M{"t": "SUB_RESPONSE", "rid": int(m.RequestId)}
		}
	case n == int32(hagallpb.MsgType_MSG_TYPE_ENTITY_COMPONENT_TYPE_UNSUBSCRIBE_RESPONSE):
		var m hagallpb.EntityComponentTypeUnsubscribeResponse
		if dec(&m) {
			return M{"t": "UNSUB_RESPONSE", "rid": int(m.RequestId)}
		}
	case n == int32(hagallpb.MsgType_MSG_TYPE_PING_REQUEST):
		var m hagallpb.Request
		if dec(&m) {
			return M{"t": "PING_REQUEST", "rid": w.pingIndex(m.RequestId)}
		}
	case n == int32(hagallpb.MsgType_MSG_TYPE_PING_RESPONSE):
		var m hagallpb.Response
		if dec(&m) {
			return M{"t": "PING_RESPONSE", "rid": int(m.RequestId)}
		}
	case n == int32(hagallpb.MsgType_MSG_TYPE_RECEIPT_RESPONSE):
		var m hagallpb.ReceiptResponse
		if dec(&m) {
			return M{"t": "RECEIPT_RESPONSE", "rid": int(m.RequestId)}
		}
	case n == int32(hagallpb.MsgType_MSG_TYPE_SIGNED_LATENCY_RESPONSE):
		var m hagallpb.SignedLatencyResponse
		if dec(&m) {
			return w.projectLatency(&m)
		}
	case n == int32(vikjapb.MsgType_MSG_TYPE_VIKJA_STATE):
		var m vikjapb.State
		if dec(&m) {
			var as [][]any
			for _, a := range m.EntityActions {
				as = append(as, actBack(a))
			}
			return M{"t": "VIKJA_STATE", "acts": sortAny(as)}
		}
	case n == int32(vikjapb.MsgType_MSG_TYPE_VIKJA_ENTITY_ACTION_RESPONSE):
		var m vikjapb.EntityActionResponse
		if dec(&m) {
			return M{"t": "ACTION_RESPONSE", "rid": int(m.RequestId)}
		}
	case n == int32(vikjapb.MsgType_MSG_TYPE_VIKJA_ENTITY_ACTION_BROADCAST):
		var m vikjapb.EntityActionBroadcast
		if dec(&m) {
			return M{"t": "ACTION_BROADCAST", "act": actBack(m.EntityAction), "ots": tsBack(m.OriginTimestamp)}
		}
	case n == int32(odalpb.MsgType_MSG_TYPE_ODAL_STATE):
		var m odalpb.State
		if dec(&m) {
			var as [][]any
			for _, a := range m.AssetInstances {
				as = append(as, assetBack(a))
			}
			return M{"t": "ODAL_STATE", "assets": sortAny(as)}
		}
	case n == int32(odalpb.MsgType_MSG_TYPE_ODAL_ASSET_INSTANCE_ADD_RESPONSE):
		var m odalpb.AssetInstanceAddResponse
		if dec(&m) {
			return M{"t": "ASSET_ADD_RESPONSE", "rid": int(m.RequestId), "aid": int(m.AssetInstanceId)}
		}
	case n == int32(odalpb.MsgType_MSG_TYPE_ODAL_ASSET_INSTANCE_ADD_BROADCAST):
		var m odalpb.AssetInstanceAddBroadcast
		if dec(&m) {
			return M{"t": "ASSET_ADD_BROADCAST", "asset": assetBack(m.AssetInstance), "ots": tsBack(m.OriginTimestamp)}
		}
	case n == int32(dagazpb.MsgType_MSG_TYPE_DAGAZ_GET_GROUND_PLANE_RESPONSE):
		var m dagazpb.DagazGetGroundPlaneResponse
		if dec(&m) {
			return M{"t": "GROUND_RESPONSE", "rid": int(m.RequestId)}
		}
	case n == int32(dagazpb.MsgType_MSG_TYPE_DAGAZ_GET_REGION_RESPONSE):
		var m dagazpb.DagazGetRegionResponse
		if dec(&m) {
			return M{"t": "REGION_RESPONSE", "rid": int(m.RequestId), "n": len(m.Quads)}
		}
	case n == int32(dagazpb.MsgType_MSG_TYPE_DAGAZ_GET_DEBUG_INFO_RESPONSE):
		var m dagazpb.DagazGetDebugInfoResponse
		if dec(&m) {
			return M{"t": "DEBUG_RESPONSE", "rid": int(m.RequestId), "planes": int(m.GridPlaneCount)}
		}
	}
	return M{"t": "UNDECODABLE", "type": int(n)}
}
