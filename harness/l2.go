package main

// L2: wire-level harness.  An httptest server mounts websocket.Server exactly
// like cmd/main.go (RealtimeHandler + HandlerWithLogs + HandlerWithMetrics),
// with an observing decorator outermost; scripted clients talk to it over real
// sockets; real goroutines, real timers.

import (
	"context"
	"crypto/rand"
	"encoding/base64"
	"encoding/json"
	"fmt"
	"net"
	"net/http"
	"net/http/httptest"
	"runtime"
	"sort"
	"strconv"
	"strings"
	gosync "sync"
	"sync/atomic"
	"time"

	"github.com/aukilabs/go-tooling/pkg/logs"
	"github.com/aukilabs/hagall-common/messages/hagallpb"
	"github.com/aukilabs/hagall-common/ncsclient"
	hwebsocket "github.com/aukilabs/hagall-common/websocket"
	"github.com/aukilabs/hagall/featureflag"
	"github.com/aukilabs/hagall/models"
	"github.com/aukilabs/hagall/modules"
	hw "github.com/aukilabs/hagall/websocket"
	"golang.org/x/net/websocket"
	"google.golang.org/protobuf/proto"
	"google.golang.org/protobuf/types/known/timestamppb"
)

const connHeader = "X-Verif-Conn"

type L2Config struct {
	Mods        []string `json:"mods"`
	Flags       []string `json:"flags"`
	IdleMS      int      `json:"idle_ms"`
	FrameMS     int      `json:"frame_ms"`
	SyncClockMS int      `json:"sync_ms"`
	ReceiptCap  int      `json:"receipt_cap"`
	// the main loop of connection DiscDelayConn is held for DiscDelayMS at the entry of HandleDisconnect (what a
	// descheduled goroutine looks like): the placement of that pause is part of "all placements of stalls and closes"
	DiscDelayConn int `json:"disc_delay_conn"`
	DiscDelayMS   int `json:"disc_delay_ms"`
	// the main loop of connection HoldConn is held for HoldMS inside the FIRST handler call named HoldName (a slow
	// handler / a descheduled goroutine): what arrives meanwhile queues up behind it
	HoldConn int    `json:"hold_conn"`
	HoldName string `json:"hold_name"`
	HoldMS   int    `json:"hold_ms"`
}

type Event struct {
	Seq  int64  `json:"seq"`
	Conn int    `json:"conn"`
	Ev   string `json:"ev"`
	Type string `json:"type,omitempty"`
	Err  string `json:"err,omitempty"`
}

type L2 struct {
	cfg    L2Config
	srv    *httptest.Server
	store  *models.SessionStore
	w      *World // projection helpers (uuid / ping / body tables)
	cancel context.CancelFunc

	mu      gosync.Mutex
	seq     int64
	events  []Event
	active  map[int]bool
	receipt chan ncsclient.ReceiptPayload

	clients map[int]*L2Client
	obs     map[int]*obsHandler
}

func NewL2(cfg L2Config) *L2 {
	logs.SetLogger(func(logs.Entry) {})
	if cfg.IdleMS == 0 {
		cfg.IdleMS = 60000
	}
	if cfg.FrameMS == 0 {
		cfg.FrameMS = 2
	}
	if cfg.SyncClockMS == 0 {
		cfg.SyncClockMS = 3600000
	}
	if cfg.ReceiptCap == 0 {
		cfg.ReceiptCap = 4
	}
	l := &L2{cfg: cfg, store: &models.SessionStore{DiscoveryService: discovery{}}, active: map[int]bool{}, clients: map[int]*L2Client{}, obs: map[int]*obsHandler{},
		receipt: make(chan ncsclient.ReceiptPayload, cfg.ReceiptCap)}
	l.w = &World{cfg: Config{Mods: cfg.Mods, Flags: cfg.Flags}, uuids: map[string]int{}, pings: map[uint32]int{}, grids: map[any]int{},
		sessObjs: map[*models.Session]int{}, out: map[int][]M{}, conns: map[int]*Conn{}}
	key := testKey()
	l.w.key = key
	ctx, cancel := context.WithCancel(context.Background())
	l.cancel = cancel
	l.srv = httptest.NewServer(websocket.Server{
		Handshake: func(c *websocket.Config, r *http.Request) error { return nil },
		Handler: func(conn *websocket.Conn) {
			defer conn.Close()
			id, _ := strconv.Atoi(conn.Request().Header.Get(connHeader))
			var rh hw.Handler = &hw.RealtimeHandler{
				ClientSyncClockInterval: time.Duration(cfg.SyncClockMS) * time.Millisecond,
				ClientIdleTimeout:       time.Duration(cfg.IdleMS) * time.Millisecond,
				FrameDuration:           time.Duration(cfg.FrameMS) * time.Millisecond,
				Sessions:                l.store,
				Modules:                 l.w.newModules(),
				FeatureFlags:            featureflag.New(cfg.Flags),
				ReceiptChan:             l.receipt,
				PrivateKey:              key,
			}
			h := hw.HandlerWithLogs(rh, time.Hour)
			h = hw.HandlerWithMetrics(h, "http://verif.local")
			o := &obsHandler{Handler: h, id: id, l: l}
			l.mu.Lock()
			l.obs[id] = o
			l.mu.Unlock()
			defer h.Close()
			l.event(id, "start", "", nil)
			hw.Handle(ctx, conn, o)
			l.event(id, "return", "", nil)
		},
	})
	return l
}

func (l *L2) event(conn int, ev, typ string, err error) {
	l.mu.Lock()
	l.seq++
	e := Event{Seq: l.seq, Conn: conn, Ev: ev, Type: typ}
	if err != nil {
		e.Err = trimErr(err.Error())
	}
	l.events = append(l.events, e)
	switch ev {
	case "start":
		l.active[conn] = true
	case "return":
		delete(l.active, conn)
	}
	l.mu.Unlock()
}

func trimErr(s string) string {
	if len(s) > 160 {
		s = s[:160]
	}
	return s
}

func (l *L2) Events() []Event {
	l.mu.Lock()
	defer l.mu.Unlock()
	return append([]Event(nil), l.events...)
}

func (l *L2) Active() []int {
	l.mu.Lock()
	defer l.mu.Unlock()
	var ids []int
	for id := range l.active {
		ids = append(ids, id)
	}
	sort.Ints(ids)
	return ids
}

func (l *L2) Close() {
	for _, c := range l.clients {
		c.Close()
	}
	l.cancel()
	// httptest.Server.Close waits for every handler to return: a wedged handler must not hang the harness
	done := make(chan struct{})
	go func() {
		l.srv.CloseClientConnections()
		l.srv.Close()
		close(done)
	}()
	select {
	case <-done:
	case <-time.After(2 * time.Second):
	}
}

// ---------------------------------------------------------------------------
// observing decorator

type obsHandler struct {
	hw.Handler
	id   int
	l    *L2
	held atomic.Bool
}

func (o *obsHandler) call(name string, f func() error) error {
	o.l.event(o.id, "hbegin", name, nil) // the main loop has taken the message off the queue
	if o.l.cfg.HoldMS > 0 && o.l.cfg.HoldConn == o.id && o.l.cfg.HoldName == name && o.held.CompareAndSwap(false, true) {
		time.Sleep(time.Duration(o.l.cfg.HoldMS) * time.Millisecond)
	}
	err := f()
	o.l.event(o.id, "handle", name, err)
	return err
}

func (o *obsHandler) HandleConnect(conn *websocket.Conn) {
	o.Handler.HandleConnect(conn)
	o.l.event(o.id, "connect", "", nil)
}
func (o *obsHandler) HandleDisconnect(err error) {
	o.l.event(o.id, "disc_begin", "", err)
	if o.l.cfg.DiscDelayMS > 0 && o.l.cfg.DiscDelayConn == o.id {
		time.Sleep(time.Duration(o.l.cfg.DiscDelayMS) * time.Millisecond)
	}
	o.Handler.HandleDisconnect(err)
	o.l.event(o.id, "disc", "", nil)
}
func (o *obsHandler) HandlePing(ctx context.Context, r hwebsocket.ResponseSender, m hwebsocket.Msg) error {
	return o.call("Ping", func() error { return o.Handler.HandlePing(ctx, r, m) })
}
func (o *obsHandler) HandlePingResponse(ctx context.Context, r hwebsocket.ResponseSender, m hwebsocket.Msg) error {
	return o.call("PingResp", func() error { return o.Handler.HandlePingResponse(ctx, r, m) })
}
func (o *obsHandler) HandleSignedLatency(ctx context.Context, r hwebsocket.ResponseSender, m hwebsocket.Msg) error {
	return o.call("SignedLatency", func() error { return o.Handler.HandleSignedLatency(ctx, r, m) })
}
func (o *obsHandler) HandleParticipantJoin(ctx context.Context, hf func(), r hwebsocket.ResponseSender, m hwebsocket.Msg) error {
	return o.call("Join", func() error { return o.Handler.HandleParticipantJoin(ctx, hf, r, m) })
}
func (o *obsHandler) HandleEntityAdd(ctx context.Context, r hwebsocket.ResponseSender, m hwebsocket.Msg) error {
	return o.call("EntityAdd", func() error { return o.Handler.HandleEntityAdd(ctx, r, m) })
}
func (o *obsHandler) HandleEntityDelete(ctx context.Context, r hwebsocket.ResponseSender, m hwebsocket.Msg) error {
	return o.call("EntityDelete", func() error { return o.Handler.HandleEntityDelete(ctx, r, m) })
}
func (o *obsHandler) HandleEntityUpdatePose(ctx context.Context, m hwebsocket.Msg) error {
	return o.call("Pose", func() error { return o.Handler.HandleEntityUpdatePose(ctx, m) })
}
func (o *obsHandler) HandleCustomMessage(ctx context.Context, r hwebsocket.ResponseSender, m hwebsocket.Msg) error {
	return o.call("Custom", func() error { return o.Handler.HandleCustomMessage(ctx, r, m) })
}
func (o *obsHandler) HandleEntityComponentTypeAdd(ctx context.Context, r hwebsocket.ResponseSender, m hwebsocket.Msg) error {
	return o.call("TypeAdd", func() error { return o.Handler.HandleEntityComponentTypeAdd(ctx, r, m) })
}
func (o *obsHandler) HandleEntityComponentGetName(ctx context.Context, r hwebsocket.ResponseSender, m hwebsocket.Msg) error {
	return o.call("GetName", func() error { return o.Handler.HandleEntityComponentGetName(ctx, r, m) })
}
func (o *obsHandler) HandleEntityComponentGetID(ctx context.Context, r hwebsocket.ResponseSender, m hwebsocket.Msg) error {
	return o.call("GetId", func() error { return o.Handler.HandleEntityComponentGetID(ctx, r, m) })
}
func (o *obsHandler) HandleEntityComponentAdd(ctx context.Context, r hwebsocket.ResponseSender, m hwebsocket.Msg) error {
	return o.call("CompAdd", func() error { return o.Handler.HandleEntityComponentAdd(ctx, r, m) })
}
func (o *obsHandler) HandleEntityComponentDelete(ctx context.Context, r hwebsocket.ResponseSender, m hwebsocket.Msg) error {
	return o.call("CompDelete", func() error { return o.Handler.HandleEntityComponentDelete(ctx, r, m) })
}
func (o *obsHandler) HandleEntityComponentUpdate(ctx context.Context, m hwebsocket.Msg) error {
	return o.call("CompUpdate", func() error { return o.Handler.HandleEntityComponentUpdate(ctx, m) })
}
func (o *obsHandler) HandleEntityComponentList(ctx context.Context, r hwebsocket.ResponseSender, m hwebsocket.Msg) error {
	return o.call("CompList", func() error { return o.Handler.HandleEntityComponentList(ctx, r, m) })
}
func (o *obsHandler) HandleEntityComponentSubscribe(ctx context.Context, r hwebsocket.ResponseSender, m hwebsocket.Msg) error {
	return o.call("Sub", func() error { return o.Handler.HandleEntityComponentSubscribe(ctx, r, m) })
}
func (o *obsHandler) HandleEntityComponentUnsubscribe(ctx context.Context, r hwebsocket.ResponseSender, m hwebsocket.Msg) error {
	return o.call("Unsub", func() error { return o.Handler.HandleEntityComponentUnsubscribe(ctx, r, m) })
}
func (o *obsHandler) HandleReceipt(ctx context.Context, r hwebsocket.ResponseSender, m hwebsocket.Msg) error {
	return o.call("Receipt", func() error { return o.Handler.HandleReceipt(ctx, r, m) })
}
func (o *obsHandler) HandleWithModule(ctx context.Context, mod modules.Module, r hwebsocket.ResponseSender, m hwebsocket.Msg) error {
	err := o.Handler.HandleWithModule(ctx, mod, r, m)
	if err != nil {
		o.l.event(o.id, "handle", "module:"+mod.Name(), err)
	}
	return err
}
func (o *obsHandler) Receiver() hwebsocket.Receiver {
	rcv := o.Handler.Receiver()
	return func() (hwebsocket.Msg, int, error) {
		m, n, err := rcv()
		if err != nil {
			o.l.event(o.id, "recv_err", "", err)
		} else {
			o.l.event(o.id, "recv", strconv.Itoa(int(m.Type.Number())), nil)
		}
		return m, n, err
	}
}
func (o *obsHandler) Sender() hwebsocket.Sender {
	snd := o.Handler.Sender()
	return func(m hwebsocket.Msg) (int, error) {
		n, err := snd(m)
		if err != nil {
			o.l.event(o.id, "send_err", strconv.Itoa(int(m.Type.Number())), err)
		}
		return n, err
	}
}

// ---------------------------------------------------------------------------
// scripted client

type L2Client struct {
	id   int
	l    *L2
	ws   *websocket.Conn
	raw  net.Conn
	mu   gosync.Mutex
	got  []M
	eof  atomic.Bool
	done chan struct{}
	noRd atomic.Bool // stalled: the reader stops reading
	bursts gosync.WaitGroup
}

func (l *L2) Dial(id int) (*L2Client, error) {
	cfg, err := websocket.NewConfig(strings.Replace(l.srv.URL, "http://", "ws://", 1), "http://localhost")
	if err != nil {
		return nil, err
	}
	cfg.Header.Set(connHeader, strconv.Itoa(id))
	cfg.Header.Set("User-Agent", "verif")
	// an (unverified) user token whose app key differs between odd and even connections: the per-app labels of the
	// gauges are exercised by sessions whose members belong to different apps
	cfg.Header.Set("Authorization", "Bearer "+appToken(fmt.Sprintf("app%d", id%2)))
	cfg.Header.Set("X-Posemesh-Client-ID", fmt.Sprintf("client-%d", id))
	raw, err := net.DialTimeout("tcp", strings.TrimPrefix(l.srv.URL, "http://"), 5*time.Second)
	if err != nil {
		return nil, err
	}
	ws, err := websocket.NewClient(cfg, raw)
	if err != nil {
		raw.Close()
		return nil, err
	}
	c := &L2Client{id: id, l: l, ws: ws, raw: raw, done: make(chan struct{})}
	l.clients[id] = c
	go c.readLoop()
	return c, nil
}

func appToken(appKey string) string {
	enc := base64.RawURLEncoding.EncodeToString
	return enc([]byte(`{"alg":"HS256","typ":"JWT"}`)) + "." + enc([]byte(`{"app_key":"`+appKey+`"}`)) + "." + enc([]byte("sig"))
}

// labelImbalance sums |after - before| over the label sets of a gauge: 0 when every label is back at its baseline
func labelImbalance(before, after map[string]float64) int {
	n := 0.0
	for k, v := range after {
		d := v - before[k]
		if d < 0 {
			d = -d
		}
		n += d
	}
	for k, v := range before {
		if _, ok := after[k]; !ok {
			if v < 0 {
				v = -v
			}
			n += v
		}
	}
	return int(n + 0.5)
}

func (c *L2Client) readLoop() {
	defer close(c.done)
	for {
		if c.noRd.Load() {
			time.Sleep(5 * time.Millisecond)
			if c.eof.Load() {
				return
			}
			continue
		}
		var b []byte
		// (a deadline that expires in the middle of a large frame loses the stream position: the deadline is long, a
		// reader is stopped by closing the connection)
		c.ws.SetReadDeadline(time.Now().Add(30 * time.Second))
		err := websocket.Message.Receive(c.ws, &b)
		if err != nil {
			if ne, ok := err.(interface{ Timeout() bool }); ok && ne.Timeout() {
				if c.eof.Load() {
					return
				}
				continue
			}
			c.eof.Store(true)
			return
		}
		var env hagallpb.Msg
		if proto.Unmarshal(b, &env) != nil {
			continue
		}
		var t time.Time
		if env.Timestamp != nil {
			t = env.Timestamp.AsTime()
		}
		c.l.mu.Lock()
		m := c.l.w.project(rawMsg(int32(env.Type), t, b))
		c.l.mu.Unlock()
		c.mu.Lock()
		c.got = append(c.got, m)
		c.mu.Unlock()
	}
}

func (c *L2Client) Got() []M {
	c.mu.Lock()
	defer c.mu.Unlock()
	return append([]M(nil), c.got...)
}

// a wedged server stops reading: a client write must fail then, not hang the harness
const clientWriteTimeout = 15 * time.Second

func (c *L2Client) SendBytes(b []byte) error {
	c.raw.SetWriteDeadline(time.Now().Add(clientWriteTimeout))
	return websocket.Message.Send(c.ws, b)
}
func (c *L2Client) SendText(s string) error {
	c.raw.SetWriteDeadline(time.Now().Add(clientWriteTimeout))
	return websocket.Message.Send(c.ws, s)
}

func (c *L2Client) SendReq(r M) error {
	c.l.mu.Lock()
	nr := norm(r)
	if gets(nr, "k") == "Custom" {
		nr["dig"] = c.l.w.bodies.canon(geti(nr, "len"), geti(nr, "dig"))
	}
	msg, err := c.l.w.build(nr)
	c.l.mu.Unlock()
	if err != nil {
		return err
	}
	return c.SendBytes(msgBody(msg))
}

// Barrier sends a ping and waits for its answer: everything this client sent
// before has been handled, everything relayed to it before has arrived.
func (c *L2Client) Barrier(rid int, d time.Duration) bool {
	if c.SendReq(M{"k": "Ping", "rid": rid}) != nil {
		return false
	}
	return c.WaitFor(func(m M) bool { return gets(m, "t") == "PING_RESPONSE" && geti(m, "rid") == rid }, d)
}

func (c *L2Client) WaitFor(pred func(M) bool, d time.Duration) bool {
	deadline := time.Now().Add(d)
	for time.Now().Before(deadline) {
		for _, m := range c.Got() {
			if pred(m) {
				return true
			}
		}
		if c.eof.Load() {
			for _, m := range c.Got() {
				if pred(m) {
					return true
				}
			}
			return false
		}
		time.Sleep(time.Millisecond)
	}
	return false
}

func (c *L2Client) WaitEOF(d time.Duration) bool {
	select {
	case <-c.done:
		return c.eof.Load()
	case <-time.After(d):
		return false
	}
}

// Close drops the TCP connection without a close frame (abrupt).
func (c *L2Client) Close() {
	c.eof.Store(true)
	c.raw.Close()
}

// CloseFrame sends a WebSocket close frame first (graceful); it may block on a
// stuck writer, hence the timeout.
func (c *L2Client) CloseFrame() {
	c.eof.Store(true)
	done := make(chan struct{})
	go func() { c.ws.Close(); close(done) }()
	select {
	case <-done:
	case <-time.After(time.Second):
		c.raw.Close()
	}
}

// fault frames by class
func faultFrame(class string, seed int) ([]byte, bool) {
	ts := timestamppb.New(time.Unix(tsBase+1, 0))
	switch class {
	case "garbage":
		b := make([]byte, 5+seed%60)
		rand.Read(b)
		b[0] = 0xff // invalid wire type / field
		return b, false
	case "truncated":
		full, _ := proto.Marshal(&hagallpb.EntityAddRequest{Type: hagallpb.MsgType_MSG_TYPE_ENTITY_ADD_REQUEST, Timestamp: ts, RequestId: 5, Pose: &hagallpb.Pose{Px: 1}})
		return full[:len(full)-3-seed%4], false
	case "notimestamp":
		b, _ := proto.Marshal(&hagallpb.Request{Type: hagallpb.MsgType_MSG_TYPE_PING_REQUEST, RequestId: 5})
		return b, false
	case "empty":
		return []byte{}, false
	case "text":
		return []byte("hello"), true
	case "huge":
		b, _ := proto.Marshal(&hagallpb.CustomMessage{Type: hagallpb.MsgType_MSG_TYPE_CUSTOM_MESSAGE, Timestamp: ts, Body: make([]byte, 1<<20)})
		return b, false
	}
	return nil, false
}

// goroutines of hagall packages currently alive (by stack inspection)
func hagallGoroutines() (int, []string) {
	buf := make([]byte, 1<<22)
	n := runtime.Stack(buf, true)
	var stuck []string
	cnt := 0
	for _, g := range strings.Split(string(buf[:n]), "\n\n") {
		inFrame := strings.Contains(g, "hagall-common/websocket.(*scheduler).HandleFrame")
		if strings.Contains(g, "aukilabs/hagall/websocket.(*handler)") || strings.Contains(g, "aukilabs/hagall/models.(*Session).StartDispatchFrames") || inFrame {
			cnt++
			lines := strings.Split(g, "\n")
			top := ""
			for _, ln := range lines {
				if strings.Contains(ln, "aukilabs/hagall/") && !strings.HasPrefix(ln, "\t") {
					top = strings.TrimSpace(ln)
					break
				}
			}
			if inFrame {
				// (a library function: the name survives refactorings of the repository)
				top += " @scheduler.HandleFrame"
			}
			stuck = append(stuck, lines[0]+" "+top)
		}
	}
	return cnt, stuck
}

func jsonLine(v any) string {
	b, _ := json.Marshal(v)
	return string(b)
}
