package main

import (
	"github.com/aukilabs/hagall-common/messages/hagallpb"
)

// projectLatency is refined in latency_check.go (decoding, signature recovery);
// inside relay histories only the envelope matters.
func (w *World) projectLatency(m *hagallpb.SignedLatencyResponse) M {
	rec := decodeLatency(w, m)
	w.lastLatency = rec
	return rec
}
