package main

import (
	"bufio"
	"encoding/json"
	"flag"
	"fmt"
	"os"
)

func fatal(code int, f string, a ...any) {
	fmt.Fprintf(os.Stderr, "harness: "+f+"\n", a...)
	os.Exit(code)
}

type History struct {
	HID    string `json:"hid"`
	Config Config `json:"config"`
	Steps  []M    `json:"steps"`
}

func readHistories(path string) []History {
	f, err := os.Open(path)
	if err != nil {
		fatal(2, "%v", err)
	}
	defer f.Close()
	var hs []History
	sc := bufio.NewScanner(f)
	sc.Buffer(make([]byte, 1<<20), 1<<28)
	for sc.Scan() {
		if len(sc.Bytes()) == 0 {
			continue
		}
		var h History
		if err := json.Unmarshal(sc.Bytes(), &h); err != nil {
			fatal(2, "bad history line: %v", err)
		}
		hs = append(hs, h)
	}
	return hs
}

func cmdL1(args []string) {
	fs := flag.NewFlagSet("l1", flag.ExitOnError)
	in := fs.String("in", "", "histories (ndjson, one history per line)")
	out := fs.String("out", "", "trace output (ndjson)")
	fs.Parse(args)
	hs := readHistories(*in)
	of, err := os.Create(*out)
	if err != nil {
		fatal(2, "%v", err)
	}
	defer of.Close()
	bw := bufio.NewWriterSize(of, 1<<20)
	defer bw.Flush()
	enc := json.NewEncoder(bw)
	total := 0
	for _, h := range hs {
		w := NewWorld(h.Config)
		mods := h.Config.Mods
		if mods == nil {
			mods = []string{}
		}
		flags := h.Config.Flags
		if flags == nil {
			flags = []string{}
		}
		enc.Encode(M{"k": "reset", "hid": h.HID, "mods": mods, "flags": flags})
		n := 0
		do := func(st M) M {
			n++
			rec, err := w.Step(n, st)
			if err != nil {
				fatal(2, "history %s step %d: %v", h.HID, n, err)
			}
			if rec["ret"] == "harness" {
				fatal(2, "history %s step %d: harness failure: %v", h.HID, n, rec["note"])
			}
			enc.Encode(rec)
			total++
			return rec
		}
		for _, st := range h.Steps {
			rec := do(st)
			if h.Config.AutoFlush && (gets(st, "step") == "Req" || gets(st, "step") == "Recv") && rec["ret"] == "ok" {
				if rq, ok := st["req"].(map[string]any); ok && parked(M(rq)) {
					if sid := w.sidOf(geti(st, "conn")); sid != 0 {
						do(M{"step": "Tick", "sid": sid, "like": geti(st, "conn")})
						do(M{"step": "Proc", "conn": geti(st, "conn")})
					}
				}
			}
		}
		w.Shutdown()
	}
	fmt.Printf("l1: %d histories, %d steps\n", len(hs), total)
}

func main() {
	if len(os.Args) < 2 {
		fatal(2, "usage: harness <cmd> ...")
	}
	switch os.Args[1] {
	case "l1":
		cmdL1(os.Args[2:])
	case "geom":
		cmdGeom(os.Args[2:])
	case "grid":
		cmdGrid(os.Args[2:])
	case "receipt":
		cmdReceipt(os.Args[2:])
	case "auth":
		cmdAuth(os.Args[2:])
	case "l1c":
		cmdL1c(os.Args[2:])
	case "httpsurf":
		cmdHTTPSurf(os.Args[2:])
	case "workers":
		cmdWorkers(os.Args[2:])
	case "l1m":
		cmdL1m(os.Args[2:])
	case "l2hist":
		cmdL2Hist(os.Args[2:])
	case "l2":
		cmdL2(os.Args[2:])
	case "idgen":
		cmdIdgen(os.Args[2:])
	case "idburst":
		cmdIdburst(os.Args[2:])
	default:
		fatal(2, "unknown command %q", os.Args[1])
	}
}
