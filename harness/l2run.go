package main

import (
	"bufio"
	"encoding/json"
	"flag"
	"fmt"
	"os"
	"sort"
	"time"

	"github.com/aukilabs/hagall/models"
	hw "github.com/aukilabs/hagall/websocket"
)

type Scenario struct {
	SID    string   `json:"sid"`
	Config L2Config `json:"config"`
	Ops    []M      `json:"ops"`
}

// returned: every handler started for connection id c (it may have been re-opened) has returned
func (l *L2) returned(c int) bool {
	starts, rets := 0, 0
	for _, e := range l.Events() {
		if e.Conn == c && e.Ev == "start" {
			starts++
		}
		if e.Conn == c && e.Ev == "return" {
			rets++
		}
	}
	return starts > 0 && rets >= starts
}

func (l *L2) waitReturn(c int, d time.Duration) bool {
	deadline := time.Now().Add(d)
	for time.Now().Before(deadline) {
		if l.returned(c) {
			return true
		}
		time.Sleep(2 * time.Millisecond)
	}
	return l.returned(c)
}

func runScenario(sc Scenario) M {
	gauge0 := hw.VerifConnectedClients()
	sess0 := models.VerifSessionGauge()
	gaugeL0, sessL0 := hw.VerifConnectedClientsByLabel(), models.VerifSessionGaugeByLabel()
	time.Sleep(5 * time.Millisecond)
	g0, _ := hagallGoroutines()
	l := NewL2(sc.Config)
	res := []M{}
	rid := 100000
	for i, op := range sc.Ops {
		r := M{"i": i, "op": gets(op, "op")}
		c := l.clients[geti(op, "c")]
		need := func() bool {
			if c == nil {
				r["err"] = "no such client"
				return false
			}
			return true
		}
		switch gets(op, "op") {
		case "dial":
			_, err := l.Dial(geti(op, "c"))
			if err != nil {
				r["err"] = err.Error()
			}
		case "req":
			if need() {
				if err := c.SendReq(M(op["req"].(map[string]any))); err != nil {
					r["err"] = err.Error()
				}
			}
		case "burst":
			if need() {
				n := geti(op, "n")
				sent := 0
				for j := 0; j < n; j++ {
					rq := M{}
					for k, v := range op["req"].(map[string]any) {
						rq[k] = v
					}
					rq["rid"] = 5000 + j
					if c.SendReq(rq) != nil {
						break
					}
					sent++
				}
				r["sent"] = sent
			}
		case "aburst":
			// asynchronous burst: keeps sending until n frames are out or the socket fails
			if need() {
				n := geti(op, "n")
				rq0 := op["req"].(map[string]any)
				c.bursts.Add(1)
				go func(c *L2Client) {
					defer c.bursts.Done()
					for j := 0; j < n; j++ {
						rq := M{}
						for k, v := range rq0 {
							rq[k] = v
						}
						rq["rid"] = 5000 + j
						if gets(rq, "k") == "Custom" {
							rq["dig"] = j // number the bodies so that order and multiplicity can be checked
						}
						if c.SendReq(rq) != nil {
							return
						}
					}
				}(c)
			}
		case "fault":
			if need() {
				b, text := faultFrame(gets(op, "class"), i)
				var err error
				if text {
					err = c.SendText(string(b))
				} else {
					err = c.SendBytes(b)
				}
				if err != nil {
					r["err"] = err.Error()
				}
			}
		case "barrier":
			if need() {
				rid++
				ms := geti(op, "ms")
				if ms == 0 {
					ms = 3000
				}
				r["ok"] = c.Barrier(rid, time.Duration(ms)*time.Millisecond)
			}
		case "close":
			if need() {
				c.Close()
			}
		case "closeframe":
			if need() {
				c.CloseFrame()
			}
		case "stall":
			if need() {
				c.noRd.Store(true)
			}
		case "waitburst":
			if need() {
				done := make(chan struct{})
				go func() { c.bursts.Wait(); close(done) }()
				ms := geti(op, "ms")
				if ms == 0 {
					ms = 20000
				}
				select {
				case <-done:
					r["ok"] = true
				case <-time.After(time.Duration(ms) * time.Millisecond):
					r["ok"] = false
				}
			}
		case "unstall":
			if need() {
				c.noRd.Store(false)
			}
		case "sleep":
			time.Sleep(time.Duration(geti(op, "ms")) * time.Millisecond)
		case "shutdown":
			// the operator stops the server: the PARENT context of every handler.Handle is cancelled (ConnShutdown.tla)
			l.cancel()
		case "stacks":
			// what the server's goroutines are doing right now (diagnosis of a scenario, not judged)
			_, st := hagallGoroutines()
			r["stacks"] = st
		case "waitreturn":
			ms := geti(op, "ms")
			if ms == 0 {
				ms = 3000
			}
			r["ok"] = l.waitReturn(geti(op, "c"), time.Duration(ms)*time.Millisecond)
		case "waiteof":
			if need() {
				ms := geti(op, "ms")
				if ms == 0 {
					ms = 3000
				}
				r["ok"] = c.WaitEOF(time.Duration(ms) * time.Millisecond)
			}
		default:
			r["err"] = "unknown op"
		}
		res = append(res, r)
	}
	// settle, then observe
	time.Sleep(20 * time.Millisecond)
	out := M{"k": "scenario", "sid": sc.SID, "results": res}
	clients := M{}
	for id, c := range l.clients {
		clients[fmt.Sprint(id)] = c.Got()
	}
	out["clients"] = clients
	sess := []M{}
	regs := l.store.VerifSessions()
	var keys []string
	for k := range regs {
		keys = append(keys, k)
	}
	sort.Strings(keys)
	for _, k := range keys {
		sm := l.w.projectSession(regs[k], map[*models.Participant]int{})
		sm["sid"] = sidBack(k)
		sess = append(sess, sm)
	}
	out["sessions"] = sess
	out["active_before_close"] = l.Active()
	// close every client, then everything must return to the baseline
	for _, c := range l.clients {
		c.Close()
	}
	stable := false
	var left []int
	for i := 0; i < 150; i++ {
		left = l.Active()
		if len(left) == 0 {
			stable = true
			break
		}
		time.Sleep(20 * time.Millisecond)
	}
	out["all_returned"] = stable
	out["not_returned"] = left
	time.Sleep(10 * time.Millisecond)
	out["clients_gauge_delta"] = int(hw.VerifConnectedClients() - gauge0)
	out["sessions_gauge_delta"] = int(models.VerifSessionGauge() - sess0)
	out["clients_gauge_imbalance"] = labelImbalance(gaugeL0, hw.VerifConnectedClientsByLabel())
	out["sessions_gauge_imbalance"] = labelImbalance(sessL0, models.VerifSessionGaugeByLabel())
	out["sessions_left"] = len(l.store.VerifSessions())
	g1, stacks := hagallGoroutines()
	if g1 > g0 {
		// give the frame workers a moment, then look again: a leak must be stable
		time.Sleep(300 * time.Millisecond)
		g1, stacks = hagallGoroutines()
	}
	out["goroutines_delta"] = g1 - g0
	if g1 > g0 {
		out["goroutine_stacks"] = stacks
	}
	out["events"] = l.Events()
	l.Close()
	return out
}

func cmdL2(args []string) {
	fs := flag.NewFlagSet("l2", flag.ExitOnError)
	in := fs.String("in", "", "scenarios (ndjson)")
	outp := fs.String("out", "", "results (ndjson)")
	fs.Parse(args)
	f, err := os.Open(*in)
	if err != nil {
		fatal(2, "%v", err)
	}
	defer f.Close()
	of, err := os.Create(*outp)
	if err != nil {
		fatal(2, "%v", err)
	}
	defer of.Close()
	bw := bufio.NewWriterSize(of, 1<<20)
	defer bw.Flush()
	enc := json.NewEncoder(bw)
	sc := bufio.NewScanner(f)
	sc.Buffer(make([]byte, 1<<20), 1<<28)
	n := 0
	for sc.Scan() {
		if len(sc.Bytes()) == 0 {
			continue
		}
		var s Scenario
		if err := json.Unmarshal(sc.Bytes(), &s); err != nil {
			fatal(2, "bad scenario: %v", err)
		}
		enc.Encode(runScenario(s))
		n++
	}
	fmt.Printf("l2: %d scenarios\n", n)
}
