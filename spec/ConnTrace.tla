------------------------------ MODULE ConnTrace ------------------------------
(***************************************************************************)
(* Validates the event stream the L2 observer records for ONE server-side  *)
(* connection handler (wire level: real sockets, goroutines, timers)       *)
(* against ConnLife.  Visible events (recv, recv_err, handle, send_err,    *)
(* disc, return) are matched with the ConnLife action of the same name;    *)
(* the steps the observer cannot see (idle timer, context checks, loop     *)
(* exit, drain, frame flushes, handling of messages that have no core      *)
(* handler) are composed in as silent steps.  A trace is accepted when     *)
(* some interleaving of silent steps explains every event: the highest     *)
(* position reached is recorded with TLCSet and compared in the            *)
(* postcondition.                                                          *)
(***************************************************************************)
EXTENDS ConnLife, Json, IOUtils

TraceFile == IF "VERIF_TRACE" \in DOMAIN IOEnv THEN IOEnv.VERIF_TRACE ELSE "trace.ndjson"
Trace == ndJsonDeserialize(TraceFile)

VARIABLES l,        \* next event
          parked,   \* updates parked in the scheduler (upper bound), moved to the queue by a frame
          hcls,     \* class of the message the main loop is handling ("" = none)
          ann       \* its "hbegin" event was seen (the observer logs it after the pop, which is silent)
tvars == <<ctx, dch, q, mpc, rpc, spc, sock, hd, sent, pend, l, parked, hcls, ann>>
hv == <<hcls, ann>>

CoreTypes == {"3", "8", "11", "14", "16", "18", "20", "22", "24", "27", "30", "32", "34", "36", "38", "39", "40", "42"}
ParkedTypes == {"14", "30"}

TInit == TLCSet(42, 0) /\ CInit /\ l = 1 /\ parked = 0 /\ hcls = "" /\ ann = FALSE

Ev == Trace[l]
Is(e) == l <= Len(Trace) /\ Ev.ev = e

\* --- visible steps ---------------------------------------------------------
TReset == Is("start") /\ l' = l + 1 /\ parked' = 0 /\ hcls' = "" /\ ann' = FALSE
          /\ ctx' = "live" /\ dch' = 0 /\ q' = <<>> /\ mpc' = "loop" /\ rpc' = "read" /\ spc' = "run"
          /\ sock' = "open" /\ hd' = 0 /\ sent' = 0 /\ pend' = ""

TConnect == Is("connect") /\ l' = l + 1 /\ UNCHANGED <<ctx, dch, q, mpc, rpc, spc, sock, hd, sent, pend, parked, hcls, ann>>

TRecv == /\ Is("recv") /\ l' = l + 1 /\ UNCHANGED hv
         /\ IF Ev.type \in ParkedTypes
            THEN /\ rpc = "read" /\ parked' = parked + 1
                 /\ UNCHANGED <<ctx, dch, q, mpc, rpc, spc, sock, hd, sent, pend>>
            ELSE RecvFrame(IF Ev.type \in CoreTypes THEN "f" ELSE "m") /\ parked' = parked

\* a receive error: junk on an open socket, or the socket is gone (either side)
TRecvErr == /\ Is("recv_err") /\ l' = l + 1 /\ parked' = parked /\ UNCHANGED hv
            /\ \/ RecvFrame("junk")
               \/ RecvSeesClosed          \* (the client going away is a silent step before it)

THBegin == /\ Is("hbegin") /\ l' = l + 1 /\ parked' = parked
           /\ mpc = "handling" /\ hcls = "f" /\ ~ann /\ ann' = TRUE /\ hcls' = hcls
           /\ UNCHANGED cvars

IsModuleEvent == Len(Ev.type) >= 7 /\ SubSeq(Ev.type, 1, 7) = "module:"

THandle == /\ Is("handle") /\ l' = l + 1 /\ parked' = parked
           /\ IF IsModuleEvent
              THEN \* a module failed: on a message without core handler, or after the core handler had succeeded
                   \/ (hcls = "m" /\ MainFinishes("bad") /\ hcls' = "" /\ ann' = FALSE)
                   \/ (mpc = "loop" /\ ctx = "live" /\ MainPush("loop") /\ UNCHANGED <<ctx, q, rpc, spc, sock, hd, sent, pend, hcls, ann>>)
              ELSE ann /\ MainFinishes(IF "err" \in DOMAIN Ev THEN "bad" ELSE "ok") /\ hcls' = "" /\ ann' = FALSE

TSendErr == Is("send_err") /\ l' = l + 1 /\ parked' = parked /\ UNCHANGED hv
            /\ SendFails

TDisc == Is("disc") /\ l' = l + 1 /\ parked' = parked /\ MainDisconnects /\ UNCHANGED hv
TDiscBegin == Is("disc_begin") /\ l' = l + 1 /\ UNCHANGED <<ctx, dch, q, mpc, rpc, spc, sock, hd, sent, pend, parked, hcls, ann>>
TReturn == Is("return") /\ l' = l + 1 /\ parked' = parked /\ MainReturns /\ UNCHANGED hv

\* --- silent steps (bounded: each moves a process forward or consumes a bounded resource) -----
Silent ==
  /\ l <= Len(Trace) /\ l' = l
  /\ \/ (MainIdle /\ dch = 0 /\ parked' = parked /\ UNCHANGED hv)      \* idle timeout (only while nothing is pending)
     \/ (MainLeavesLoop /\ parked' = parked /\ UNCHANGED hv)
     \/ (MainDrains /\ parked' = parked /\ UNCHANGED hv)
     \/ (RecvSeesCtx /\ parked' = parked /\ UNCHANGED hv)
     \/ (RecvUnblocksQueue /\ parked' = parked /\ UNCHANGED hv)
     \/ (SendSeesCtx /\ parked' = parked /\ UNCHANGED hv)
     \/ (SendDrainEnds /\ parked' = parked /\ UNCHANGED hv)
     \/ (ClientCloses /\ parked' = parked /\ UNCHANGED hv)
     \* the main loop takes a message off the queue (the observer sees it only when the handler is entered)
     \/ (q # <<>> /\ hcls' = Head(q) /\ ann' = FALSE /\ MainPops /\ parked' = parked)
     \* a message without a core handler is handled without any event (unless a module fails)
     \/ (hcls = "m" /\ MainFinishes("ok") /\ parked' = parked /\ hcls' = "" /\ ann' = FALSE)
     \* a frame moves a parked update into the queue
     \/ (parked > 0 /\ parked' = parked - 1 /\ Len(q) < Q /\ q' = Append(q, "f")
         /\ UNCHANGED <<ctx, dch, mpc, rpc, spc, sock, hd, sent, pend, hcls, ann>>)

TNext == TReset \/ TConnect \/ TRecv \/ TRecvErr \/ THBegin \/ THandle \/ TSendErr \/ TDisc \/ TDiscBegin \/ TReturn \/ Silent
TSpec == TInit /\ [][TNext]_tvars

\* progress bookkeeping: highest l reached
Mark == IF l > TLCGet(42) THEN TLCSet(42, l) ELSE TRUE
MarkInit == TLCSet(42, 0)
TraceAccepted == PrintT(<<"reached", TLCGet(42), "of", Len(Trace) + 1>>) /\ TLCGet(42) = Len(Trace) + 1
Reached == TLCGet(42)

\* C08 on every explained prefix
Ok_C08 == DisconnectAtMostOnce /\ ReturnedMeansDisconnected
=============================================================================
