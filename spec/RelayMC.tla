------------------------------- MODULE RelayMC -------------------------------
(***************************************************************************)
(* Exhaustive model of Relay.tla over small constants (TLC), and - with    *)
(* the history variable `hist` - the generator of behaviours that the Go   *)
(* harness replays against the real code (spec -> code direction).         *)
(*                                                                         *)
(* Every listed property is checked for EVERY reachable transition: the    *)
(* predicates of RelayProps are stated as action properties [][Ok']_v, so  *)
(* TLC evaluates them on each (state, successor) pair even when the        *)
(* successor was reached before (VIEW hides pre/ev/exp, which only         *)
(* describe the last transition).                                          *)
(***************************************************************************)
EXTENDS RelayProps, Json, Randomization, IOUtils

CONSTANTS Kinds,      \* request kinds enabled in this configuration
          MaxSid,     \* bound on the session id counter
          MaxU,       \* bound on the number of sessions ever created
          MaxPid, MaxEid, MaxTid, MaxAid,
          MaxQ,       \* bound on a connection's queue
          Names, DataVals, PxVals, ActNames, AtsVals, AssetNames, Lens,
          Opens,      \* TRUE: ended connections may be replaced by new ones
          Recvs,      \* TRUE: non-parked requests may wait in the queue (Recv and Proc as separate steps)
          FlagVals, EntPx, JoinSids, ToLists,
          GenDepth,   \* > 0: generator mode, behaviours of this length are exported
          TickW, ProcW \* generator: weights (out of 20) of frame ticks and of processing steps

ToListsNone == {<<>>}
ToListsFull == {<<>>, <<1>>, <<2>>, <<1, 2>>, <<2, 2, 3>>, <<9>>, <<1, 1, 9, 3>>, <<2, 3, 2>>, <<1, 2, 1>>, <<3, 1, 2, 3, 1>>, <<2, 1, 2, 1, 9>>}

VARIABLE hist
mvars == <<pre, cur, ev, exp, views, gh, hist>>
MCView == <<cur, views, gh>>

Ts == IF GenDepth > 0 THEN Len(hist) + 1 ELSE 0    \* request ids / timestamps

ReqsAll ==
  LET rid == Ts  ts == Ts IN
  [ Join          |-> {[k |-> "Join", rid |-> rid, sid |-> s, ts |-> ts] : s \in JoinSids},
    EntityAdd     |-> {[k |-> "EntityAdd", rid |-> rid, persist |-> p, flag |-> f, px |-> x, ts |-> ts]
                         : p \in BOOLEAN, f \in FlagVals, x \in EntPx},
    EntityDelete  |-> {[k |-> "EntityDelete", rid |-> rid, eid |-> e, ts |-> ts] : e \in 0..MaxEid},
    Pose          |-> {[k |-> "Pose", eid |-> e, px |-> x, ts |-> ts] : e \in 1..MaxEid, x \in PxVals \cup {-1}},
    Custom        |-> {[k |-> "Custom", len |-> n, dig |-> ts, to |-> t, ts |-> ts]
                         : n \in Lens, t \in ToLists},
    TypeAdd       |-> {[k |-> "TypeAdd", rid |-> rid, name |-> n] : n \in Names \cup {""}},
    GetName       |-> {[k |-> "GetName", rid |-> rid, tid |-> t] : t \in 0..MaxTid},
    GetId         |-> {[k |-> "GetId", rid |-> rid, name |-> n] : n \in Names \cup {""}},
    CompAdd       |-> {[k |-> "CompAdd", rid |-> rid, tid |-> t, eid |-> e, data |-> d, ts |-> ts]
                         : t \in 0..MaxTid, e \in 0..MaxEid, d \in DataVals},
    CompDelete    |-> {[k |-> "CompDelete", rid |-> rid, tid |-> t, eid |-> e, ts |-> ts] : t \in 0..MaxTid, e \in 0..MaxEid},
    CompUpdate    |-> {[k |-> "CompUpdate", tid |-> t, eid |-> e, data |-> d, ts |-> ts]
                         : t \in 0..MaxTid, e \in 0..MaxEid, d \in DataVals},
    CompList      |-> {[k |-> "CompList", rid |-> rid, tid |-> t] : t \in 0..MaxTid},
    Sub           |-> {[k |-> "Sub", rid |-> rid, tid |-> t] : t \in 0..MaxTid},
    Unsub         |-> {[k |-> "Unsub", rid |-> rid, tid |-> t] : t \in 0..MaxTid},
    Ping          |-> {[k |-> "Ping", rid |-> rid]},
    PingResp      |-> {[k |-> "PingResp", rid |-> rid]},
    SignedLatency |-> {[k |-> "SignedLatency", rid |-> rid, n |-> n, wallet |-> w] : n \in {0, 2, 51}, w \in {"", "0xabc"}}
                      \cup {[k |-> "SignedLatency", rid |-> rid, n |-> 3, wallet |-> ""]},
    Action        |-> {[k |-> "Action", rid |-> rid, eid |-> e, name |-> n, ats |-> a, data |-> d, has |-> TRUE, ts |-> ts]
                         : e \in 0..MaxEid, n \in ActNames \cup {""}, a \in AtsVals \cup {-1}, d \in DataVals}
                      \cup {[k |-> "Action", rid |-> rid, eid |-> 1, name |-> "x", ats |-> 1, data |-> 0, has |-> FALSE, ts |-> ts]},
    AssetAdd      |-> {[k |-> "AssetAdd", rid |-> rid, eid |-> e, asset |-> a, ts |-> ts] : e \in 0..MaxEid, a \in AssetNames \cup {""}},
    Leave         |-> {[k |-> "Leave", rid |-> rid]},
    Unknown       |-> {[k |-> "Unknown", rid |-> rid, type |-> 77]} ]

Reqs == UNION {ReqsAll[k] : k \in Kinds}

\* events enabled in state st (the abstract part: step, conn, req, sid)
Events(st) ==
     {[step |-> "Req", conn |-> c, req |-> r, sid |-> 0] : c \in {x \in Conns : st.conns[x].life # "closed"}, r \in Reqs}
  \cup (IF Recvs THEN {[step |-> "Recv", conn |-> c, req |-> r, sid |-> 0]
          : c \in {x \in Conns : st.conns[x].life # "closed" /\ Len(st.conns[x].q) < MaxQ}, r \in {x \in Reqs : ~IsParked(x)}}
        ELSE {})
  \cup {[step |-> "Proc", conn |-> c, req |-> [k |-> "none"], sid |-> 0]
          : c \in {x \in Conns : st.conns[x].life # "closed" /\ st.conns[x].q # <<>>}}
  \cup {[step |-> "Tick", conn |-> 0, req |-> [k |-> "none"], sid |-> s] : s \in DOMAIN st.sess}
  \cup {[step |-> "Disc", conn |-> c, req |-> [k |-> "none"], sid |-> 0] : c \in {x \in Conns : st.conns[x].life # "closed"}}
  \cup (IF Opens THEN {[step |-> "Open", conn |-> c, req |-> [k |-> "none"], sid |-> 0] : c \in {x \in Conns : st.conns[x].life = "closed"}}
        ELSE {})

\* the observable part of an event given the outcome
Observed(st, e, o) ==
  LET qAfterRecv == IF e.step \in {"Req", "Recv"} /\ ~IsParked(e.req) THEN Append(st.conns[e.conn].q, e.req)
                    ELSE IF e.step \in {"Proc"} THEN st.conns[e.conn].q ELSE <<>>
      proc == (e.step = "Req" /\ ~IsParked(e.req)) \/ e.step = "Proc"
  IN [ step |-> e.step, conn |-> e.conn,
       req |-> IF proc THEN Head(qAfterRecv) ELSE e.req,
       given |-> e.req, proc |-> proc, sid |-> e.sid,
       ret |-> o.ret, out |-> o.out, dead |-> {}, obsOK |-> TRUE, orphans |-> {},
       paired |-> FALSE, fl |-> {}, out0 |-> NoOut, same0 |-> TRUE, reqs |-> <<>>, rets |-> <<>> ]

Bounded(st) ==
  /\ st.cur <= MaxSid /\ st.ucur <= MaxU
  /\ \A s \in DOMAIN st.sess :
       /\ st.sess[s].pcur <= MaxPid /\ st.sess[s].ecur <= MaxEid
       /\ st.sess[s].tcur <= MaxTid /\ st.sess[s].acur <= MaxAid
  /\ \A c \in Conns : Len(st.conns[c].q) <= MaxQ

MCInit ==
  /\ pre = InitState /\ cur = InitState /\ ev = InitEv /\ exp = {}
  /\ views = [c \in Conns |-> NoView] /\ gh = NoGhost /\ hist = <<>>

MCNext ==
  /\ (GenDepth > 0 => Len(hist) < GenDepth)
  /\ \E e \in Events(cur) :
       LET outs == Step(cur, e) IN
       \E o \in outs :
          /\ Bounded(o.st)
          /\ LET e1 == Observed(cur, e, o)
                 nv == NextViews(views, e1, cur, o.st)
                 ng == NextGhost(gh, e1, cur, o.st, views, nv)
             IN \* (x = x forces TLC to materialise lazily evaluated functions before the
                \*  state is queued; with a VIEW they would otherwise reach the disk queue unevaluated)
                /\ o.st = o.st /\ nv = nv /\ ng = ng /\ e1 = e1 /\ outs = outs
                /\ pre' = cur /\ cur' = o.st /\ ev' = e1 /\ exp' = outs
                /\ views' = nv
                /\ gh' = ng
                /\ hist' = IF GenDepth > 0
                           THEN Append(hist, IF e.step = "Tick" THEN [step |-> e.step, sid |-> e.sid]
                                             ELSE IF e.step \in {"Req", "Recv"} THEN [step |-> e.step, conn |-> e.conn, req |-> e.req]
                                             ELSE [step |-> e.step, conn |-> e.conn])
                           ELSE hist

MCSpec == MCInit /\ [][MCNext]_mvars

(***************************************************************************)
(* Generator mode (tlc -simulate): one successor per step, chosen kind-    *)
(* first so that every request kind is equally likely whatever the number  *)
(* of field combinations it has; behaviours of GenDepth steps are written  *)
(* as JSON, one file each, for the Go harness to replay on the real code.  *)
(***************************************************************************)
\* bias towards ids that exist: with probability 3/4 the entity / type ids of a request are
\* replaced by ids that are live in the requester's session (the rest keeps hitting the refusal paths)
Patch(st, c, r) ==
  IF st.conns[c].sid = 0 \/ RandomElement(1..4) = 1 THEN r
  ELSE LET S == st.sess[st.conns[c].sid] IN
       [f \in DOMAIN r |->
          CASE f = "eid" /\ DOMAIN S.ents # {} -> RandomElement(DOMAIN S.ents)
            [] f = "tid" /\ Rng(S.types) # {} -> RandomElement(Rng(S.types))
            [] OTHER -> r[f]]

GenEvent(st) ==
  LET open   == {x \in Conns : st.conns[x].life # "closed"}
      closed == {x \in Conns : st.conns[x].life = "closed"}
      busy   == {x \in open : st.conns[x].q # <<>>}
      roll   == RandomElement(1..20)
  IN CASE roll <= TickW /\ DOMAIN st.sess # {} ->
            [step |-> "Tick", conn |-> 0, req |-> [k |-> "none"], sid |-> RandomElement(DOMAIN st.sess)]
       [] roll \in (TickW + 1)..(TickW + ProcW) /\ busy # {} ->
            [step |-> "Proc", conn |-> RandomElement(busy), req |-> [k |-> "none"], sid |-> 0]
       [] roll = 18 /\ open # {} ->
            [step |-> "Disc", conn |-> RandomElement(open), req |-> [k |-> "none"], sid |-> 0]
       [] roll \in 19..20 /\ closed # {} ->
            [step |-> "Open", conn |-> RandomElement(closed), req |-> [k |-> "none"], sid |-> 0]
       [] roll = 17 /\ Recvs /\ open # {} ->
            [step |-> "Recv", conn |-> RandomElement(open), req |-> RandomElement(ReqsAll[RandomElement(Kinds)]), sid |-> 0]
       [] OTHER ->
            IF open = {} THEN [step |-> "Open", conn |-> RandomElement(Conns), req |-> [k |-> "none"], sid |-> 0]
            ELSE LET c == RandomElement(open) IN
                 \* a connection that is in no session mostly tries to get into one
                 IF st.conns[c].sid = 0 /\ "Join" \in Kinds /\ RandomElement(1..10) <= 7
                 THEN LET j == RandomElement(ReqsAll["Join"]) IN
                      [step |-> "Req", conn |-> c, sid |-> 0,
                       req |-> IF RandomElement(1..10) <= 8
                               THEN [j EXCEPT !.sid = RandomElement({0} \cup DOMAIN st.sess)] ELSE j]
                 ELSE [step |-> "Req", conn |-> c, req |-> Patch(st, c, RandomElement(ReqsAll[RandomElement(Kinds)])), sid |-> 0]

GenNext ==
  /\ Len(hist) < GenDepth
  /\ \E e \in {GenEvent(cur)} :            \* (a bound variable is evaluated once; a LET would re-draw)
     LET outs == Step(cur, e) IN
     \E o \in {RandomElement(outs)} :
     LET e1 == Observed(cur, e, o)
         nv == NextViews(views, e1, cur, o.st)
     IN /\ pre' = cur /\ cur' = o.st /\ ev' = e1 /\ exp' = outs
        /\ views' = nv
        /\ gh' = NextGhost(gh, e1, cur, o.st, views, nv)
        /\ hist' = Append(hist, IF e.step = "Tick" THEN [step |-> e.step, sid |-> e.sid]
                                ELSE IF e.step \in {"Req", "Recv"} THEN [step |-> e.step, conn |-> e.conn, req |-> e.req]
                                ELSE [step |-> e.step, conn |-> e.conn])

GenSpec == MCInit /\ [][GenNext]_mvars

GenDir == IF "VERIF_GEN" \in DOMAIN IOEnv THEN IOEnv.VERIF_GEN ELSE "gen"
Export ==
  Len(hist) < GenDepth
  \/ ndJsonSerialize(GenDir \o "/b" \o ToString(TLCGet("stats").traces) \o ".ndjson", <<[steps |-> hist]>>)

(***************************************************************************)
(* The properties, for every transition                                    *)
(***************************************************************************)
P_C01  == [][Ok_C01']_mvars
P_C02  == [][Ok_C02']_mvars
P_C03  == [][Ok_C03']_mvars
P_C04  == [][Ok_C04']_mvars
P_C05  == [][Ok_C05']_mvars
P_C06  == [][Ok_C06' /\ Ok_C06b']_mvars
P_C07  == [][Ok_C07']_mvars
P_C10  == [][Ok_C10']_mvars
P_C11  == [][Ok_C11']_mvars
P_C12  == [][Ok_C12']_mvars
P_C13  == [][Ok_C13']_mvars
P_C14  == [][Ok_C14' /\ Ok_C14b']_mvars
P_C16  == [][Ok_C16']_mvars
P_C20r == [][Ok_C20r']_mvars

WellFormed == StateOK(cur)

=============================================================================
