------------------------------- MODULE Relay -------------------------------
(***************************************************************************)
(* Request-grain specification of Relay (aukilabs/hagall).                 *)
(*                                                                         *)
(* One state record `st`, one operator per handler code path of            *)
(* websocket/realtime.go + modules/{vikja,odal,dagaz}, in the order in     *)
(* which the code validates.  Every operator maps (state, connection,      *)
(* request) to the SET of allowed outcomes [st, out, ret]: the exhaustive  *)
(* model (RelayMC), the behaviour generator (RelayGen) and the trace       *)
(* specification (RelayTrace) all call the same `Step`.                    *)
(*                                                                         *)
(* Three kinds of step mirror the three goroutine roles of a connection:   *)
(*   Recv  - the receiver hands a frame to the scheduler (pose/component   *)
(*           updates are parked, latest wins; everything else is queued);  *)
(*   Tick  - the session's frame worker moves the parked updates of every  *)
(*           member into that member's queue;                              *)
(*   Proc  - the main loop pops the queue head and runs the handler, then  *)
(*           every module (the "module pass");                             *)
(* plus Disc (HandleDisconnect -> leaveSession) and Open (a new handler).  *)
(***************************************************************************)
EXTENDS Integers, Sequences, FiniteSets, TLC

CONSTANTS Conns,   \* connection ids (naturals)
          Mods,    \* subset of {"vikja","odal","dagaz"}: modules loaded
          Flags    \* set of feature-flag names set on the server

MaxBody == 10240

(***************************************************************************)
(* Generic helpers                                                         *)
(***************************************************************************)
Put(f, k, v)    == [x \in (DOMAIN f) \cup {k} |-> IF x = k THEN v ELSE f[x]]
Drop(f, S)      == [x \in (DOMAIN f) \ S |-> f[x]]
Restrict(f, S)  == [x \in S |-> f[x]]
Rng(f)          == {f[x] : x \in DOMAIN f}
MinOf(S)        == CHOOSE x \in S : \A y \in S : x <= y
MaxOf(S)        == CHOOSE x \in S : \A y \in S : y <= x

RECURSIVE SortedSeq(_)
SortedSeq(S) == IF S = {} THEN <<>>
                ELSE LET m == MinOf(S) IN <<m>> \o SortedSeq(S \ {m})

\* all orderings of a finite set, as sequences
RECURSIVE Perms(_)
Perms(S) == IF S = {} THEN {<<>>}
            ELSE UNION {{<<x>> \o p : p \in Perms(S \ {x})} : x \in S}

(***************************************************************************)
(* Error codes                                                             *)
(***************************************************************************)
BAD_REQUEST    == 400
UNAUTHORIZED   == 401
NOT_FOUND      == 404
CONFLICT       == 409
TOO_LARGE      == 413
ALREADY_JOINED == 461
INTERNAL       == 500
TOO_BUSY       == 503

(***************************************************************************)
(* Messages the server sends.  Set-like lists are sets here; the harness   *)
(* logs them sorted and the trace specification converts (and flags        *)
(* duplicates).                                                            *)
(***************************************************************************)
Err(rid, code)          == [t |-> "ERROR", rid |-> rid, code |-> code]
JoinResp(rid, s, u, p)  == [t |-> "JOIN_RESPONSE", rid |-> rid, sid |-> s, uuid |-> u, pid |-> p]
SessState(ps, es, cs)   == [t |-> "SESSION_STATE", parts |-> ps, ents |-> es, comps |-> cs]
JoinB(p, ots)           == [t |-> "JOIN_BROADCAST", pid |-> p, ots |-> ots]
LeaveB(p)               == [t |-> "LEAVE_BROADCAST", pid |-> p]
EntAddResp(rid, e)      == [t |-> "ENTITY_ADD_RESPONSE", rid |-> rid, eid |-> e]
EntAddB(row, ots)       == [t |-> "ENTITY_ADD_BROADCAST", ent |-> row, ots |-> ots]
EntDelResp(rid)         == [t |-> "ENTITY_DELETE_RESPONSE", rid |-> rid]
EntDelB(e, ots)         == [t |-> "ENTITY_DELETE_BROADCAST", eid |-> e, ots |-> ots]
PoseB(e, px, ots)       == [t |-> "POSE_BROADCAST", eid |-> e, px |-> px, ots |-> ots]
CustomB(p, len, dig, o) == [t |-> "CUSTOM_BROADCAST", pid |-> p, len |-> len, dig |-> dig, ots |-> o]
TypeAddResp(rid, tid)   == [t |-> "TYPE_ADD_RESPONSE", rid |-> rid, tid |-> tid]
GetNameResp(rid, n)     == [t |-> "GET_NAME_RESPONSE", rid |-> rid, name |-> n]
GetIdResp(rid, tid)     == [t |-> "GET_ID_RESPONSE", rid |-> rid, tid |-> tid]
CompAddResp(rid)        == [t |-> "COMP_ADD_RESPONSE", rid |-> rid]
CompAddB(row, ots)      == [t |-> "COMP_ADD_BROADCAST", comp |-> row, ots |-> ots]
CompDelResp(rid)        == [t |-> "COMP_DELETE_RESPONSE", rid |-> rid]
CompDelB(row, ots)      == [t |-> "COMP_DELETE_BROADCAST", comp |-> row, ots |-> ots]
CompUpdB(row, ots)      == [t |-> "COMP_UPDATE_BROADCAST", comp |-> row, ots |-> ots]
CompListResp(rid, cs)   == [t |-> "COMP_LIST_RESPONSE", rid |-> rid, comps |-> cs]
SubResp(rid)            == [t |-> "SUB_RESPONSE", rid |-> rid]
UnsubResp(rid)          == [t |-> "UNSUB_RESPONSE", rid |-> rid]
PingResp(rid)           == [t |-> "PING_RESPONSE", rid |-> rid]
VikjaState(as)          == [t |-> "VIKJA_STATE", acts |-> as]
ActionResp(rid)         == [t |-> "ACTION_RESPONSE", rid |-> rid]
ActionB(row, ots)       == [t |-> "ACTION_BROADCAST", act |-> row, ots |-> ots]
OdalState(as)           == [t |-> "ODAL_STATE", assets |-> as]
AssetAddResp(rid, aid)  == [t |-> "ASSET_ADD_RESPONSE", rid |-> rid, aid |-> aid]
AssetAddB(row, ots)     == [t |-> "ASSET_ADD_BROADCAST", asset |-> row, ots |-> ots]

\* Appendix C: the ten relay classes and the flag that suppresses each.
FlagOf ==
  [ SESSION_STATE         |-> "DISABLE_SESSION_STATE",
    JOIN_BROADCAST        |-> "DISABLE_PARTICIPANT_JOIN_BROADCAST",
    LEAVE_BROADCAST       |-> "DISABLE_PARTICIPANT_LEAVE_BROADCAST",
    ENTITY_ADD_BROADCAST  |-> "DISABLE_ENTITY_ADD_BROADCAST",
    ENTITY_DELETE_BROADCAST |-> "DISABLE_ENTITY_DELETE_BROADCAST",
    POSE_BROADCAST        |-> "DISABLE_ENTITY_UPDATE_POSE_BROADCAST",
    CUSTOM_BROADCAST      |-> "DISABLE_CUSTOM_MESSAGE_BROADCAST",
    COMP_ADD_BROADCAST    |-> "DISABLE_ENTITY_COMPONENT_ADD_BROADCAST",
    COMP_UPDATE_BROADCAST |-> "DISABLE_ENTITY_COMPONENT_UPDATE_BROADCAST",
    COMP_DELETE_BROADCAST |-> "DISABLE_ENTITY_COMPONENT_DELETE_BROADCAST" ]

AllFlags == Rng(FlagOf)

SuppressedBy(F, m) == m.t \in DOMAIN FlagOf /\ FlagOf[m.t] \in F
Allowed(m) == ~SuppressedBy(Flags, m)

\* what a connection receives under flag set F, given what it receives with none
FilterSeq(F, s) == SelectSeq(s, LAMBDA m : ~SuppressedBy(F, m))

(***************************************************************************)
(* Output: per recipient, the messages handed to it in this step, in order *)
(***************************************************************************)
NoOut == [c \in Conns |-> <<>>]
Send(out, c, m)  == IF Allowed(m) THEN [out EXCEPT ![c] = Append(@, m)] ELSE out
Bcast(out, S, m) == IF Allowed(m)
                    THEN [d \in DOMAIN out |-> IF d \in S THEN Append(out[d], m) ELSE out[d]]
                    ELSE out
RECURSIVE BcastSeq(_, _, _)
BcastSeq(out, S, ms) == IF ms = <<>> THEN out
                        ELSE BcastSeq(Bcast(out, S, Head(ms)), S, Tail(ms))

(***************************************************************************)
(* State                                                                   *)
(*                                                                         *)
(* st == [ cur, free   : the session id source (SequentialIDGenerator)     *)
(*         gauge       : session_count gauge (delta)                       *)
(*         ucur        : number of session UUIDs minted so far             *)
(*         sess        : sid -> session record (the registry)              *)
(*         conns       : c   -> connection record ]                        *)
(* session == [ uuid, pcur, ecur, tcur, acur, mem : pid -> c,              *)
(*              ents : eid -> [owner, persist, flag, px],                  *)
(*              types : name -> tid, comps : <<tid,eid>> -> data,          *)
(*              subs : tid -> SUBSET pid (non-empty sets only),            *)
(*              acts : <<eid,name>> -> [ts, data],                         *)
(*              assets : eid -> [id, asset, owner], mods : SUBSET names,   *)
(*              grid : Nat, fh : Nat, ticking : BOOLEAN ]                  *)
(* conn == [ life, sid, pid, own, q, pp : eid -> req, pc : <<tid,eid>> -> req ] *)
(***************************************************************************)
FreshConn == [life |-> "open", sid |-> 0, pid |-> 0, own |-> {}, q |-> <<>>, pp |-> <<>>, pc |-> <<>>]

InitState == [cur |-> 0, free |-> {}, gauge |-> 0, ucur |-> 0, gcur |-> 0, sess |-> <<>>,
              conns |-> [c \in Conns |-> FreshConn]]

NewSession(u) == [uuid |-> u, pcur |-> 0, ecur |-> 0, tcur |-> 0, acur |-> 0, mem |-> <<>>,
                  ents |-> <<>>, types |-> <<>>, comps |-> <<>>, subs |-> <<>>,
                  acts |-> <<>>, assets |-> <<>>, mods |-> {}, grid |-> 0, fh |-> 0,
                  ticking |-> TRUE]

MemConns(S)      == Rng(S.mem)
Others(S, pid)   == {S.mem[p] : p \in (DOMAIN S.mem) \ {pid}}
EntRow(S, e)     == <<e, S.ents[e].owner, S.ents[e].flag, S.ents[e].px>>
EntRows(S)       == {EntRow(S, e) : e \in DOMAIN S.ents}
CompRows(S)      == {<<k[1], k[2], S.comps[k]>> : k \in DOMAIN S.comps}
CompRowsOf(S, t) == {<<k[1], k[2], S.comps[k]>> : k \in {x \in DOMAIN S.comps : x[1] = t}}
ActRows(S)       == {<<k[1], k[2], S.acts[k].ts, S.acts[k].data>> : k \in DOMAIN S.acts}
AssetRows(S)     == {<<e, S.assets[e].id, S.assets[e].asset, S.assets[e].owner>> : e \in DOMAIN S.assets}
SubsOf(S, t)     == IF t \in DOMAIN S.subs THEN S.subs[t] ELSE {}
NormSubs(f)      == Restrict(f, {t \in DOMAIN f : f[t] # {}})
Joined(st, c)    == st.conns[c].sid # 0

Out1(st, out, ret) == {[st |-> st, out |-> out, ret |-> ret]}

(***************************************************************************)
(* leaveSession (Appendix A, L1..L10).  Deterministic: the relays for the  *)
(* removed entities are emitted in ascending id order (the code uses map   *)
(* order; the harness canonicalises a run of delete relays the same way).  *)
(***************************************************************************)
LeaveOf(st, c, out0) ==
  LET cn   == st.conns[c]
      s    == cn.sid
      S0   == st.sess[s]
      pid  == cn.pid
      \* L1: module HandleDisconnect, before anything is removed
      mdrop == {e \in cn.own : e \notin DOMAIN S0.ents \/ ~S0.ents[e].persist}
      acts1 == IF "vikja" \in Mods
               THEN Drop(S0.acts, {k \in DOMAIN S0.acts : k[1] \in mdrop}) ELSE S0.acts
      asts1 == IF "odal" \in Mods THEN Drop(S0.assets, mdrop) ELSE S0.assets
      \* L3: non-persistent own entities that still exist
      gone == {e \in cn.own : e \in DOMAIN S0.ents /\ ~S0.ents[e].persist}
      S1   == [S0 EXCEPT !.acts   = acts1,
                         !.assets = asts1,
                         !.subs   = NormSubs([t \in DOMAIN S0.subs |-> S0.subs[t] \ {pid}]),
                         !.comps  = Drop(@, {k \in DOMAIN @ : k[2] \in gone}),
                         !.ents   = Drop(@, gone),
                         !.fh     = IF @ > 0 THEN @ - 1 ELSE 0,
                         !.mem    = Drop(@, {pid})]
      rest == MemConns(S1)
      dels == [i \in 1..Cardinality(gone) |-> EntDelB(SortedSeq(gone)[i], -1)]
      out1 == Bcast(BcastSeq(out0, rest, dels), rest, LeaveB(pid))
      last == DOMAIN S1.mem = {}
      st1  == IF last
              THEN [st EXCEPT !.sess = Drop(@, {s}), !.free = @ \cup {s}, !.gauge = @ - 1]
              ELSE [st EXCEPT !.sess[s] = S1]
      st2  == [st1 EXCEPT !.conns[c] = [@ EXCEPT !.sid = 0, !.pid = 0, !.own = {}]]
  IN [st |-> st2, out |-> out1]

(***************************************************************************)
(* Module pass for one message of a joined connection (handleMessage's     *)
(* loop over GetModules()).  `kind` is the request kind; only JOIN and     *)
(* ENTITY_DELETE have module-side effects besides the modules' own kinds.  *)
(***************************************************************************)
ModJoin(st, c, out) ==
  LET S  == st.sess[st.conns[c].sid]
      o1 == IF "vikja" \in Mods THEN Send(out, c, VikjaState(ActRows(S))) ELSE out
      o2 == IF "odal" \in Mods THEN Send(o1, c, OdalState(AssetRows(S))) ELSE o1
  IN [st |-> st, out |-> o2]

ModEntityDelete(st, c, eid) ==
  LET s == st.conns[c].sid
      S == st.sess[s]
  IN IF eid \in DOMAIN S.ents THEN st
     ELSE [st EXCEPT !.sess[s] =
             [S EXCEPT !.acts   = IF "vikja" \in Mods THEN Drop(@, {k \in DOMAIN @ : k[1] = eid}) ELSE @,
                       !.assets = IF "odal" \in Mods THEN Drop(@, {eid}) ELSE @]]

(***************************************************************************)
(* Join                                                                    *)
(***************************************************************************)
ModInit(S, g) ==   \* every loaded module gets a state once per session; dagaz creates its grid with it
  [S EXCEPT !.mods = @ \cup Mods,
            !.grid = IF "dagaz" \in Mods /\ "dagaz" \notin S.mods THEN g ELSE @]

JoinInto(st, c, req, s, out0) ==   \* s is registered in st.sess
  LET S0  == st.sess[s]
      pid == S0.pcur + 1
      S1  == [S0 EXCEPT !.pcur = pid, !.mem = Put(@, pid, c), !.fh = @ + 1]
      o1  == Send(out0, c, JoinResp(req.rid, s, S1.uuid, pid))
      o2  == Send(o1, c, SessState(DOMAIN S1.mem, EntRows(S1), CompRows(S1)))
      o3  == Bcast(o2, Others(S1, pid), JoinB(pid, req.ts))
      g   == IF "dagaz" \in Mods /\ "dagaz" \notin S1.mods THEN st.gcur + 1 ELSE st.gcur
      S2  == ModInit(S1, g)
      st1 == [st EXCEPT !.sess[s] = S2, !.gcur = g,
                        !.conns[c] = [@ EXCEPT !.sid = s, !.pid = pid, !.own = {}]]
  IN ModJoin(st1, c, o3)

JoinStep(st, c, req) ==
  LET cn == st.conns[c] IN
  IF cn.sid # 0 /\ cn.sid = req.sid
  THEN \* J0: already in that session; the module pass still runs (still joined)
       LET r == ModJoin(st, c, Send(NoOut, c, Err(req.rid, ALREADY_JOINED)))
       IN Out1(r.st, r.out, "ok")
  ELSE IF req.sid # 0 /\ req.sid \notin DOMAIN st.sess
  THEN \* J3: unknown id - refused before anything is touched; a requester that is
       \* (still) in a session gets the module states again, as for ALREADY_JOINED
       IF cn.sid # 0
       THEN LET r == ModJoin(st, c, Send(NoOut, c, Err(req.rid, NOT_FOUND))) IN Out1(r.st, r.out, "ok")
       ELSE Out1(st, Send(NoOut, c, Err(req.rid, NOT_FOUND)), "ok")
  ELSE
    LET l   == IF cn.sid # 0 THEN LeaveOf(st, c, NoOut) ELSE [st |-> st, out |-> NoOut]
        st1 == l.st
    IN IF req.sid # 0
       THEN LET r == JoinInto(st1, c, req, req.sid, l.out) IN Out1(r.st, r.out, "ok")
       ELSE \* J4: create; the id source hands out any released id, else the next one
            LET cand == IF st1.free # {} THEN st1.free ELSE {st1.cur + 1} IN
            { LET st2 == [st1 EXCEPT !.free  = @ \ {s},
                                     !.cur   = IF st1.free # {} THEN @ ELSE @ + 1,
                                     !.ucur  = @ + 1,
                                     !.gauge = @ + 1,
                                     !.sess  = Put(@, s, NewSession(st1.ucur + 1))]
                  r   == JoinInto(st2, c, req, s, l.out)
              IN [st |-> r.st, out |-> r.out, ret |-> "ok"] : s \in cand }

(***************************************************************************)
(* Entities and poses                                                      *)
(***************************************************************************)
NotJoinedErr(st) == Out1(st, NoOut, "err")   \* handler error: the connection is ended

EntityAddStep(st, c, req) ==
  IF ~Joined(st, c) THEN NotJoinedErr(st) ELSE
  LET cn == st.conns[c]  s == cn.sid  S == st.sess[s]
      e  == S.ecur + 1
      px == IF req.px < 0 THEN 0 ELSE req.px
      S1 == [S EXCEPT !.ecur = e,
                      !.ents = Put(@, e, [owner |-> cn.pid, persist |-> req.persist, flag |-> req.flag, px |-> px])]
      st1 == [st EXCEPT !.sess[s] = S1, !.conns[c].own = @ \cup {e}]
      o1 == Send(NoOut, c, EntAddResp(req.rid, e))
      o2 == Bcast(o1, Others(S1, cn.pid), EntAddB(EntRow(S1, e), req.ts))
  IN Out1(st1, o2, "ok")

EntityDeleteStep(st, c, req) ==
  IF ~Joined(st, c) THEN NotJoinedErr(st) ELSE
  LET cn == st.conns[c]  s == cn.sid  S == st.sess[s]  e == req.eid IN
  IF e \notin DOMAIN S.ents
  THEN Out1(ModEntityDelete(st, c, e), Send(NoOut, c, Err(req.rid, NOT_FOUND)), "ok")
  ELSE IF S.ents[e].owner # cn.pid
  THEN Out1(st, Send(NoOut, c, Err(req.rid, UNAUTHORIZED)), "ok")
  ELSE
    LET S1  == [S EXCEPT !.comps = Drop(@, {k \in DOMAIN @ : k[2] = e}), !.ents = Drop(@, {e})]
        st1 == [st EXCEPT !.sess[s] = S1, !.conns[c].own = @ \ {e}]
        o1  == Send(NoOut, c, EntDelResp(req.rid))
        o2  == Bcast(o1, Others(S1, cn.pid), EntDelB(e, req.ts))
    IN Out1(ModEntityDelete(st1, c, e), o2, "ok")

PoseStep(st, c, req) ==
  IF ~Joined(st, c) THEN NotJoinedErr(st) ELSE
  LET cn == st.conns[c]  s == cn.sid  S == st.sess[s]  e == req.eid IN
  IF e \notin DOMAIN S.ents \/ S.ents[e].owner # cn.pid \/ req.px < 0
  THEN Out1(st, NoOut, "ok")                         \* dropped without any effect
  ELSE LET S1 == [S EXCEPT !.ents[e].px = req.px] IN
       Out1([st EXCEPT !.sess[s] = S1],
            Bcast(NoOut, Others(S1, cn.pid), PoseB(e, req.px, req.ts)), "ok")

(***************************************************************************)
(* Custom messages                                                         *)
(***************************************************************************)
CustomStep(st, c, req) ==
  IF ~Joined(st, c) THEN NotJoinedErr(st) ELSE
  LET cn == st.conns[c]  S == st.sess[cn.sid] IN
  IF req.len > MaxBody
  THEN Out1(st, Send(NoOut, c, Err(0, TOO_LARGE)), "ok")
  ELSE LET m  == CustomB(cn.pid, req.len, req.dig, req.ts)
           to == IF req.to = <<>> THEN Others(S, cn.pid)
                 ELSE {S.mem[p] : p \in (Rng(req.to) \cap DOMAIN S.mem) \ {cn.pid}}
       IN Out1(st, Bcast(NoOut, to, m), "ok")

(***************************************************************************)
(* Component types, components, subscriptions                              *)
(***************************************************************************)
TypeAddStep(st, c, req) ==
  IF req.name = "" THEN Out1(st, Send(NoOut, c, Err(req.rid, BAD_REQUEST)), "ok")
  ELSE IF ~Joined(st, c) THEN NotJoinedErr(st) ELSE
  LET s == st.conns[c].sid  S == st.sess[s] IN
  IF req.name \in DOMAIN S.types
  THEN Out1(st, Send(NoOut, c, TypeAddResp(req.rid, S.types[req.name])), "ok")
  ELSE LET tid == S.tcur + 1
           S1  == [S EXCEPT !.tcur = tid, !.types = Put(@, req.name, tid)]
       IN Out1([st EXCEPT !.sess[s] = S1], Send(NoOut, c, TypeAddResp(req.rid, tid)), "ok")

TypeIds(S) == Rng(S.types)
NameOf(S, tid) == CHOOSE n \in DOMAIN S.types : S.types[n] = tid

GetNameStep(st, c, req) ==
  IF req.tid = 0 THEN Out1(st, Send(NoOut, c, Err(req.rid, BAD_REQUEST)), "ok")
  ELSE IF ~Joined(st, c) THEN NotJoinedErr(st) ELSE
  LET S == st.sess[st.conns[c].sid] IN
  IF req.tid \notin TypeIds(S) THEN Out1(st, Send(NoOut, c, Err(req.rid, NOT_FOUND)), "ok")
  ELSE Out1(st, Send(NoOut, c, GetNameResp(req.rid, NameOf(S, req.tid))), "ok")

GetIdStep(st, c, req) ==
  IF req.name = "" THEN Out1(st, Send(NoOut, c, Err(req.rid, BAD_REQUEST)), "ok")
  ELSE IF ~Joined(st, c) THEN NotJoinedErr(st) ELSE
  LET S == st.sess[st.conns[c].sid] IN
  IF req.name \notin DOMAIN S.types THEN Out1(st, Send(NoOut, c, Err(req.rid, NOT_FOUND)), "ok")
  ELSE Out1(st, Send(NoOut, c, GetIdResp(req.rid, S.types[req.name])), "ok")

CompAddStep(st, c, req) ==
  IF req.tid = 0 \/ req.eid = 0 THEN Out1(st, Send(NoOut, c, Err(req.rid, BAD_REQUEST)), "ok")
  ELSE IF ~Joined(st, c) THEN NotJoinedErr(st) ELSE
  LET cn == st.conns[c]  s == cn.sid  S == st.sess[s]  k == <<req.tid, req.eid>> IN
  IF req.eid \notin DOMAIN S.ents THEN Out1(st, Send(NoOut, c, Err(req.rid, NOT_FOUND)), "ok")
  ELSE IF req.tid \notin TypeIds(S) THEN Out1(st, Send(NoOut, c, Err(req.rid, NOT_FOUND)), "ok")
  ELSE IF k \in DOMAIN S.comps THEN Out1(st, Send(NoOut, c, Err(req.rid, CONFLICT)), "ok")
  ELSE LET S1 == [S EXCEPT !.comps = Put(@, k, req.data)]
           o1 == Send(NoOut, c, CompAddResp(req.rid))
           o2 == IF SubsOf(S, req.tid) # {}
                 THEN Bcast(o1, Others(S, cn.pid), CompAddB(<<req.tid, req.eid, req.data>>, req.ts))
                 ELSE o1
       IN Out1([st EXCEPT !.sess[s] = S1], o2, "ok")

CompDeleteStep(st, c, req) ==
  IF req.tid = 0 \/ req.eid = 0 THEN Out1(st, Send(NoOut, c, Err(req.rid, BAD_REQUEST)), "ok")
  ELSE IF ~Joined(st, c) THEN NotJoinedErr(st) ELSE
  LET cn == st.conns[c]  s == cn.sid  S == st.sess[s]  k == <<req.tid, req.eid>> IN
  IF req.eid \notin DOMAIN S.ents THEN Out1(st, Send(NoOut, c, Err(req.rid, NOT_FOUND)), "ok")
  ELSE IF k \notin DOMAIN S.comps THEN Out1(st, Send(NoOut, c, Err(req.rid, NOT_FOUND)), "ok")
  ELSE LET S1 == [S EXCEPT !.comps = Drop(@, {k})]
           o1 == IF SubsOf(S, req.tid) # {}
                 THEN Bcast(NoOut, Others(S, cn.pid), CompDelB(<<req.tid, req.eid, 0>>, req.ts))
                 ELSE NoOut
       IN Out1([st EXCEPT !.sess[s] = S1], Send(o1, c, CompDelResp(req.rid)), "ok")

CompUpdateStep(st, c, req) ==
  IF req.tid = 0 \/ req.eid = 0 THEN Out1(st, NoOut, "ok")
  ELSE IF ~Joined(st, c) THEN NotJoinedErr(st) ELSE
  LET cn == st.conns[c]  s == cn.sid  S == st.sess[s]  k == <<req.tid, req.eid>> IN
  IF req.eid \notin DOMAIN S.ents \/ k \notin DOMAIN S.comps
  THEN Out1(st, NoOut, "ok")       \* an update of what was never added changes nothing, relays nothing
  ELSE LET S1 == [S EXCEPT !.comps[k] = req.data]
           to == {S.mem[p] : p \in (SubsOf(S, req.tid) \cap DOMAIN S.mem) \ {cn.pid}}
       IN Out1([st EXCEPT !.sess[s] = S1],
               Bcast(NoOut, to, CompUpdB(<<req.tid, req.eid, req.data>>, req.ts)), "ok")

CompListStep(st, c, req) ==
  IF req.tid = 0 THEN Out1(st, Send(NoOut, c, Err(req.rid, BAD_REQUEST)), "ok")
  ELSE IF ~Joined(st, c) THEN NotJoinedErr(st) ELSE
  LET S == st.sess[st.conns[c].sid] IN
  Out1(st, Send(NoOut, c, CompListResp(req.rid, CompRowsOf(S, req.tid))), "ok")

SubStep(st, c, req) ==
  IF req.tid = 0 THEN Out1(st, Send(NoOut, c, Err(req.rid, BAD_REQUEST)), "ok")
  ELSE IF ~Joined(st, c) THEN NotJoinedErr(st) ELSE
  LET cn == st.conns[c]  s == cn.sid  S == st.sess[s] IN
  IF req.tid \notin TypeIds(S) THEN Out1(st, Send(NoOut, c, Err(req.rid, NOT_FOUND)), "ok")
  ELSE Out1([st EXCEPT !.sess[s].subs = Put(@, req.tid, SubsOf(S, req.tid) \cup {cn.pid})],
            Send(NoOut, c, SubResp(req.rid)), "ok")

UnsubStep(st, c, req) ==
  IF req.tid = 0 THEN Out1(st, Send(NoOut, c, Err(req.rid, BAD_REQUEST)), "ok")
  ELSE IF ~Joined(st, c) THEN NotJoinedErr(st) ELSE
  LET cn == st.conns[c]  s == cn.sid  S == st.sess[s] IN
  Out1([st EXCEPT !.sess[s].subs = NormSubs(Put(@, req.tid, SubsOf(S, req.tid) \ {cn.pid}))],
       Send(NoOut, c, UnsubResp(req.rid)), "ok")

(***************************************************************************)
(* Ping and the refusal paths of the latency protocol (the protocol itself *)
(* is specified in Latency.tla)                                            *)
(***************************************************************************)
PingStep(st, c, req) == Out1(st, Send(NoOut, c, PingResp(req.rid)), "ok")

PingRespStep(st, c, req) ==
  IF ~Joined(st, c) THEN Out1(st, Send(NoOut, c, Err(req.rid, UNAUTHORIZED)), "ok")
  ELSE \* no measurement is running in relay histories: the id is unknown
       Out1(st, Send(NoOut, c, Err(req.rid, INTERNAL)), "ok")

SignedLatencyRefusedStep(st, c, req) ==   \* only the refusal classes occur in relay histories
  IF ~Joined(st, c) THEN Out1(st, Send(NoOut, c, Err(req.rid, UNAUTHORIZED)), "ok")
  ELSE Out1(st, Send(NoOut, c, Err(req.rid, BAD_REQUEST)), "ok")

(***************************************************************************)
(* vikja: entity actions.  odal: asset instances.  Only consulted for a    *)
(* joined connection and when the module is loaded; otherwise ignored.     *)
(***************************************************************************)
ActionStep(st, c, req) ==
  IF ~Joined(st, c) \/ "vikja" \notin Mods THEN Out1(st, NoOut, "ok") ELSE
  LET cn == st.conns[c]  s == cn.sid  S == st.sess[s]  k == <<req.eid, req.name>> IN
  IF ~req.has \/ req.name = "" \/ req.ats < 0
  THEN Out1(st, Send(NoOut, c, Err(req.rid, BAD_REQUEST)), "ok")
  ELSE IF req.eid \notin DOMAIN S.ents
  THEN Out1(st, Send(NoOut, c, Err(req.rid, BAD_REQUEST)), "ok")
  ELSE IF k \in DOMAIN S.acts /\ req.ats < S.acts[k].ts
  THEN Out1(st, Send(NoOut, c, Err(req.rid, BAD_REQUEST)), "ok")
  ELSE LET S1 == [S EXCEPT !.acts = Put(@, k, [ts |-> req.ats, data |-> req.data])]
           o1 == Send(NoOut, c, ActionResp(req.rid))
           o2 == Bcast(o1, Others(S, cn.pid), ActionB(<<req.eid, req.name, req.ats, req.data>>, req.ts))
       IN Out1([st EXCEPT !.sess[s] = S1], o2, "ok")

AssetAddStep(st, c, req) ==
  IF ~Joined(st, c) \/ "odal" \notin Mods THEN Out1(st, NoOut, "ok") ELSE
  LET cn == st.conns[c]  s == cn.sid  S == st.sess[s] IN
  IF req.asset = "" THEN Out1(st, Send(NoOut, c, Err(req.rid, BAD_REQUEST)), "ok")
  ELSE IF req.eid \notin DOMAIN S.ents THEN Out1(st, Send(NoOut, c, Err(req.rid, NOT_FOUND)), "ok")
  ELSE IF S.ents[req.eid].owner # cn.pid THEN Out1(st, Send(NoOut, c, Err(req.rid, UNAUTHORIZED)), "ok")
  ELSE LET id == S.acur + 1
           S1 == [S EXCEPT !.acur = id,
                           !.assets = Put(@, req.eid, [id |-> id, asset |-> req.asset, owner |-> cn.pid])]
           o1 == Send(NoOut, c, AssetAddResp(req.rid, id))
           o2 == Bcast(o1, Others(S, cn.pid), AssetAddB(<<req.eid, id, req.asset, cn.pid>>, req.ts))
       IN Out1([st EXCEPT !.sess[s] = S1], o2, "ok")

(***************************************************************************)
(* Handler dispatch: what Proc does with a popped request                  *)
(***************************************************************************)
Handle(st, c, req) ==
  CASE req.k = "Join"          -> JoinStep(st, c, req)
    [] req.k = "EntityAdd"     -> EntityAddStep(st, c, req)
    [] req.k = "EntityDelete"  -> EntityDeleteStep(st, c, req)
    [] req.k = "Pose"          -> PoseStep(st, c, req)
    [] req.k = "Custom"        -> CustomStep(st, c, req)
    [] req.k = "TypeAdd"       -> TypeAddStep(st, c, req)
    [] req.k = "GetName"       -> GetNameStep(st, c, req)
    [] req.k = "GetId"         -> GetIdStep(st, c, req)
    [] req.k = "CompAdd"       -> CompAddStep(st, c, req)
    [] req.k = "CompDelete"    -> CompDeleteStep(st, c, req)
    [] req.k = "CompUpdate"    -> CompUpdateStep(st, c, req)
    [] req.k = "CompList"      -> CompListStep(st, c, req)
    [] req.k = "Sub"           -> SubStep(st, c, req)
    [] req.k = "Unsub"         -> UnsubStep(st, c, req)
    [] req.k = "Ping"          -> PingStep(st, c, req)
    [] req.k = "PingResp"      -> PingRespStep(st, c, req)
    [] req.k = "SignedLatency" -> SignedLatencyRefusedStep(st, c, req)
    [] req.k = "Action"        -> ActionStep(st, c, req)
    [] req.k = "AssetAdd"      -> AssetAddStep(st, c, req)
    [] OTHER                   -> Out1(st, NoOut, "ok")   \* Leave (type 6), unknown types: ignored

\* a handler error marks the connection as ending (the main loop will run
\* HandleDisconnect; until then it may still consume queued messages)
AfterRet(o, c) ==
  IF o.ret = "ok" THEN o
  ELSE [o EXCEPT !.st.conns[c].life = IF @ = "open" THEN "closing" ELSE @]

IsParked(req) == req.k \in {"Pose", "CompUpdate"}

RecvOf(st, c, req) ==
  CASE req.k = "Pose"       -> [st EXCEPT !.conns[c].pp = Put(@, req.eid, req)]
    [] req.k = "CompUpdate" -> [st EXCEPT !.conns[c].pc = Put(@, <<req.tid, req.eid>>, req)]
    [] OTHER                -> [st EXCEPT !.conns[c].q = Append(@, req)]

ProcOf(st, c) ==   \* pop the head and handle it
  LET req == Head(st.conns[c].q)
      st1 == [st EXCEPT !.conns[c].q = Tail(@)]
  IN {AfterRet(o, c) : o \in Handle(st1, c, req)}

\* one frame of session s: every member's parked updates go to the tail of
\* its queue, poses first, each group in any order
TickOf(st, s) ==
  LET S  == st.sess[s]
      ms == MemConns(S)
      FlushSeqs(cn) == {a \o b : a \in {[i \in DOMAIN p |-> cn.pp[p[i]]] : p \in Perms(DOMAIN cn.pp)},
                                 b \in {[i \in DOMAIN p |-> cn.pc[p[i]]] : p \in Perms(DOMAIN cn.pc)}}
      choice == [c \in ms |-> FlushSeqs(st.conns[c])]
      picks == {f \in [ms -> UNION {choice[c] : c \in ms}] : \A c \in ms : f[c] \in choice[c]}
  IN IF ms = {} THEN {st} ELSE
     { [st EXCEPT !.conns = [c \in DOMAIN @ |->
            IF c \in ms THEN [@[c] EXCEPT !.q = @ \o f[c], !.pp = <<>>, !.pc = <<>>] ELSE @[c]]]
       : f \in picks }

DiscOf(st, c) ==
  LET l == IF st.conns[c].sid # 0 THEN LeaveOf(st, c, NoOut) ELSE [st |-> st, out |-> NoOut]
  IN [st  |-> [l.st EXCEPT !.conns[c].life = "closed"], out |-> l.out, ret |-> "ok"]

(***************************************************************************)
(* Step: the outcomes the specification allows for an event                *)
(*   ev == [step, conn, req, sid]                                          *)
(***************************************************************************)
Step(st, ev) ==
  CASE ev.step = "Open" ->      \* a new connection takes the place of one that has ended
         IF st.conns[ev.conn].life # "closed" THEN Out1(st, NoOut, "busy")
         ELSE Out1([st EXCEPT !.conns[ev.conn] = FreshConn], NoOut, "ok")
    [] ev.step = "Recv" ->
         IF st.conns[ev.conn].life = "closed" THEN Out1(st, NoOut, "closed")
         ELSE Out1(RecvOf(st, ev.conn, ev.req), NoOut, "ok")
    [] ev.step = "Req" ->     \* Recv, and for a queued message Proc of the queue head
         IF st.conns[ev.conn].life = "closed" THEN Out1(st, NoOut, "closed")
         ELSE IF IsParked(ev.req) THEN Out1(RecvOf(st, ev.conn, ev.req), NoOut, "ok")
         ELSE ProcOf(RecvOf(st, ev.conn, ev.req), ev.conn)
    [] ev.step = "Proc" ->
         IF st.conns[ev.conn].life = "closed" THEN Out1(st, NoOut, "closed")
         ELSE IF st.conns[ev.conn].q = <<>> THEN Out1(st, NoOut, "empty")
         ELSE ProcOf(st, ev.conn)
    [] ev.step = "Tick" ->
         IF ev.sid \notin DOMAIN st.sess THEN Out1(st, NoOut, "nosession")
         ELSE IF ~st.sess[ev.sid].ticking THEN Out1(st, NoOut, "stopped")
         ELSE {[st |-> x, out |-> NoOut, ret |-> "ok"] : x \in TickOf(st, ev.sid)}
    [] ev.step = "Disc" ->
         IF st.conns[ev.conn].life = "closed" THEN Out1(st, NoOut, "closed")
         ELSE {DiscOf(st, ev.conn)}
    [] ev.step = "Wire" ->
         \* wire level (real sockets, made sequential with ping barriers): the frame is received, a parked update
         \* is flushed by the next frame of the sender's session and processed; a handler error ends the connection
         \* at once (HandleDisconnect has run before the next step)
         LET c   == ev.conn
             st1 == RecvOf(st, c, ev.req)
             sts == IF IsParked(ev.req) THEN TickOf(st1, st1.conns[c].sid) ELSE {st1}
             os  == UNION {ProcOf(x, c) : x \in sts}
         IN { IF o.ret = "ok" THEN o
              ELSE LET d == DiscOf(o.st, c) IN [st |-> d.st, out |-> [x \in Conns |-> o.out[x] \o d.out[x]], ret |-> "err"]
              : o \in os }

(***************************************************************************)
(* Well-formedness of the authoritative state (sequential invariants;      *)
(* C06 NoDangling, C07 registry, C10 id discipline, C12 key discipline)    *)
(***************************************************************************)
SessOK(st, s) ==
  LET S == st.sess[s] IN
  /\ DOMAIN S.mem # {}                                    \* registered <=> non-empty
  /\ \A p \in DOMAIN S.mem : p \in 1..S.pcur
  /\ \A e \in DOMAIN S.ents : e \in 1..S.ecur
  /\ \A k \in DOMAIN S.comps : k[1] \in TypeIds(S) /\ k[2] \in DOMAIN S.ents
  /\ \A k \in DOMAIN S.acts : k[1] \in DOMAIN S.ents
  /\ \A e \in DOMAIN S.assets : e \in DOMAIN S.ents /\ S.assets[e].id \in 1..S.acur
  /\ \A e1, e2 \in DOMAIN S.assets : S.assets[e1].id = S.assets[e2].id => e1 = e2
  /\ \A t \in DOMAIN S.subs : S.subs[t] \subseteq DOMAIN S.mem /\ t \in TypeIds(S)
  /\ \A n1, n2 \in DOMAIN S.types : S.types[n1] = S.types[n2] => n1 = n2
  /\ TypeIds(S) = 1..S.tcur
  /\ S.fh = Cardinality(DOMAIN S.mem)
  /\ S.ticking
  /\ \A p \in DOMAIN S.mem : st.conns[S.mem[p]].sid = s /\ st.conns[S.mem[p]].pid = p

StateOK(st) ==
  /\ \A s \in DOMAIN st.sess : SessOK(st, s)
  /\ st.gauge = Cardinality(DOMAIN st.sess)
  /\ DOMAIN st.sess \cap st.free = {}
  /\ DOMAIN st.sess \cup st.free = 1..st.cur
  /\ \A s1, s2 \in DOMAIN st.sess : st.sess[s1].uuid = st.sess[s2].uuid => s1 = s2
  /\ \A c \in DOMAIN st.conns :
       LET cn == st.conns[c] IN
       IF cn.sid = 0 THEN cn.pid = 0 /\ cn.own = {}
       ELSE /\ cn.sid \in DOMAIN st.sess
            /\ cn.pid \in DOMAIN st.sess[cn.sid].mem
            /\ st.sess[cn.sid].mem[cn.pid] = c
            /\ cn.own = {e \in DOMAIN st.sess[cn.sid].ents : st.sess[cn.sid].ents[e].owner = cn.pid}

=============================================================================
