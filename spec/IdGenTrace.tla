------------------------------ MODULE IdGenTrace ------------------------------
(* validates recorded calls of the real SequentialIDGenerator against IdGen *)
EXTENDS IdGen, Json, IOUtils, TLC

TraceFile == IF "VERIF_TRACE" \in DOMAIN IOEnv THEN IOEnv.VERIF_TRACE ELSE "trace.ndjson"
Trace == ndJsonDeserialize(TraceFile)
VARIABLES l, ok
tv == <<cur, free, held, last, n, l, ok>>
ToSet(s) == {s[i] : i \in DOMAIN s}

TInit == IInit /\ l = 1 /\ ok = TRUE

TNext ==
  /\ l <= Len(Trace) /\ l' = l + 1 /\ n' = 0
  /\ LET r == Trace[l] IN
     CASE r.op = "reset" ->
            /\ cur' = 0 /\ free' = {} /\ held' = {} /\ last' = [op |-> "init", id |-> 0] /\ ok' = TRUE
       [] r.op = "New" ->
            \* the logged result must be one of the outcomes the specification allows from the logged pre-state
            /\ ok' = (\E o \in NewOutcomes(cur, free) : o.id = r.id /\ o.cur = r.cur /\ o.free = ToSet(r.free))
            /\ cur' = r.cur /\ free' = ToSet(r.free) /\ held' = held \cup {r.id}
            /\ last' = [op |-> "New", id |-> r.id, fresh |-> r.id \notin held]
       [] r.op = "Reuse" ->
            /\ ok' = (LET o == ReuseOutcome(cur, free, r.id) IN o.cur = r.cur /\ o.free = ToSet(r.free))
            /\ cur' = r.cur /\ free' = ToSet(r.free) /\ held' = held \ {r.id}
            /\ last' = [op |-> "Reuse", id |-> r.id, fresh |-> TRUE]

TSpec == TInit /\ [][TNext]_tv
StepAllowed == ok
TraceAccepted == TLCGet("stats").diameter - 1 = Len(Trace)
=============================================================================
