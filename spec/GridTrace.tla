------------------------------ MODULE GridTrace ------------------------------
(***************************************************************************)
(* Validates recorded states of the REAL ground-plane index (projected     *)
(* exactly to absolute integer cells by the harness) against Grid.tla:     *)
(* completeness, bounds, plane count, cover-all region query, centre ray,  *)
(* retention across joins and departures, legality of every insertion and  *)
(* - for a single merge - the registrations mergeQuads must produce        *)
(* (MergeUpdate, the transcription checked exhaustively in Grid.tla).      *)
(***************************************************************************)
EXTENDS Grid, Sequences, Json, IOUtils

TraceFile == IF "VERIF_TRACE" \in DOMAIN IOEnv THEN IOEnv.VERIF_TRACE ELSE "trace.ndjson"
Trace == ndJsonDeserialize(TraceFile)
VARIABLES l, prev, cur, chk
tv == <<o, n, l, prev, cur, chk>>
ToSet(s) == {s[i] : i \in DOMAIN s}
NoGrid == [present |-> FALSE]

PRect(p)  == Rect(p[2][1], p[2][2], p[2][3], p[2][4])       \* cells the footprint overlaps (open reading)
CRect(p)  == Rect(p[7][1], p[7][2], p[7][3], p[7][4])       \* the closed range the code registers
PCells(p) == {<<p[3][i][1], p[3][i][2]>> : i \in DOMAIN p[3]}
Ids(g)    == {g.planes[i][1] : i \in DOMAIN g.planes}
PlaneOf(g, id) == g.planes[CHOOSE i \in DOMAIN g.planes : g.planes[i][1] = id]
Bounds(g) == Rect(g.bounds[1], g.bounds[2], g.bounds[3], g.bounds[4])

StateOK(g) ==
  g.present =>
    /\ \A i \in DOMAIN g.planes :
         LET p == g.planes[i] IN
         /\ CellsOf(PRect(p)) \subseteq PCells(p)                    \* Complete
         /\ CellsOf(PRect(p)) \subseteq CellsOf(Bounds(g))            \* BoundsContain
         /\ PCells(p) \subseteq CellsOf(Bounds(g))
         /\ p[5] # 0                                                   \* a vertical ray through its centre hits a plane
    /\ g.count = Len(g.planes) /\ g.debug_planes = Len(g.planes)       \* CountMatches
    /\ g.region = [i \in DOMAIN g.planes |-> g.planes[i][1]]           \* RegionAll: each plane exactly once (ids ascending)
    /\ g.dims[1] = g.bounds[2] - g.bounds[1] + 1 /\ g.dims[2] = g.bounds[4] - g.bounds[3] + 1

StepOK(r, g0, g1) ==
  IF ~g0.present \/ ~g1.present THEN TRUE
  ELSE IF r.uuid # prev.uuid THEN TRUE                                 \* another session incarnation
  ELSE /\ g1.token = g0.token                                          \* the index lives as long as the session
       /\ IF r.op = "quad" /\ r.member /\ r.ret = "ok"
          THEN /\ Ids(g0) \subseteq Ids(g1)
               /\ g1.count \in {g0.count, g0.count + 1}
               /\ (g1.count = g0.count + 1) = (Ids(g1) # Ids(g0))
               /\ g1.merges >= g0.merges
               /\ g1.bounds[1] <= g0.bounds[1] /\ g1.bounds[2] >= g0.bounds[2]
               /\ g1.bounds[3] <= g0.bounds[3] /\ g1.bounds[4] >= g0.bounds[4]
               \* a single merge: the registrations of the plane that moved are what mergeQuads must produce
               \* (an insertion that merges counts twice: the loop of InsertQuad merges the plane once more with itself,
               \*  which moves nothing)
               /\ (g1.merges = g0.merges + 2 /\ g1.count = g0.count /\ g1.bounds[1] = g0.bounds[1] /\ g1.bounds[3] = g0.bounds[3]) =>
                     \A id \in Ids(g0) :
                        LET p0 == PlaneOf(g0, id)  p1 == PlaneOf(g1, id) IN
                        (p1[6] = p0[6] + 2) =>
                           LET want == MergeUpdate(PCells(p0), CRect(p0), CRect(p1)) IN
                           \* (a plane registered twice in a cell - allowed - survives one removal there)
                           IF p0[4] = 0 THEN PCells(p1) = want
                           ELSE want \subseteq PCells(p1) /\ PCells(p1) \subseteq (want \cup PCells(p0))
               \* planes that were not merged into keep their registrations
               /\ \A id \in Ids(g0) : PlaneOf(g1, id)[6] = PlaneOf(g0, id)[6] =>
                     LET a == PlaneOf(g0, id)  b == PlaneOf(g1, id) IN
                     /\ a[2] = b[2] /\ a[3] = b[3]
                     \* (the closed cell range the code computes for a plane is a float32 subtraction of the grid origin: it
                     \*  can move by one for an edge lying exactly on a cell border when the origin moves)
                     /\ (g1.bounds[1] = g0.bounds[1] /\ g1.bounds[3] = g0.bounds[3] => a[7] = b[7])
          ELSE /\ g1.count = g0.count /\ g1.bounds = g0.bounds /\ Ids(g1) = Ids(g0)      \* joins, departures, refused samples change nothing
               /\ \A id \in Ids(g0) : LET a == PlaneOf(g0, id)  b == PlaneOf(g1, id) IN a[2] = b[2] /\ a[3] = b[3] /\ a[6] = b[6]

TInit == o = Rect(0, 0, 0, 0) /\ n = Rect(0, 0, 0, 0) /\ l = 1 /\ prev = [grid |-> NoGrid, uuid |-> 0] /\ cur = [grid |-> NoGrid, uuid |-> 0]
         /\ chk = [state |-> TRUE, step |-> TRUE]
TNext ==
  /\ l <= Len(Trace) /\ l' = l + 1 /\ UNCHANGED <<o, n>>
  /\ LET r == Trace[l] IN
     IF r.op = "reset"
     THEN prev' = [grid |-> NoGrid, uuid |-> 0] /\ cur' = [grid |-> NoGrid, uuid |-> 0] /\ chk' = [state |-> TRUE, step |-> TRUE]
     ELSE /\ prev' = cur /\ cur' = [grid |-> r.grid, uuid |-> r.uuid]
          /\ chk' = [state |-> StateOK(r.grid), step |-> StepOK(r, cur.grid, r.grid)]
TSpec == TInit /\ [][TNext]_tv
Ok_C20 == chk.state /\ chk.step
TraceAccepted == TLCGet("stats").diameter - 1 = Len(Trace)
=============================================================================
