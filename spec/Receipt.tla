------------------------------- MODULE Receipt -------------------------------
(***************************************************************************)
(* C19: receipts (RealtimeHandler.HandleReceipt + receipt.ReceiptHandler).  *)
(* A bounded queue between the connection handlers and one worker; Submit   *)
(* never blocks (three answers); the worker verifies each payload and hands *)
(* the valid ones to the credit service, once, unchanged.                   *)
(***************************************************************************)
EXTENDS Integers, Sequences, FiniteSets, TLC

CONSTANTS Q,          \* queue capacity (128 in cmd/main.go)
          Payloads,   \* payload ids
          ValidP,     \* subset of Payloads: hash = Keccak-256(text) and the signature is recoverable
          EmptyP,     \* subset of Payloads with an empty field
          RetryOnError \* BOOLEAN: FALSE = the code (a transport error is final); TRUE = a design that posts again

VARIABLES q, accepted, fwd, answer, worker, service
rvars == <<q, accepted, fwd, answer, worker, service>>

RInit == /\ q = <<>> /\ accepted = {} /\ fwd = [p \in Payloads |-> 0] /\ answer = [kind |-> "none", p |-> 0, err |-> FALSE]
         /\ worker = FALSE /\ service \in {"up", "down", "lost"}
\* service: up = receives and answers; down = unreachable; lost = receives the receipt, the answer never arrives
\* (the worker sees a transport error although the receipt was delivered)

\* what HandleReceipt answers for payload p when the queue holds n entries
AnswerFor(p, n) == IF p \in EmptyP THEN "bad_request" ELSE IF n >= Q THEN "too_busy" ELSE "accepted"

Submit(p) ==
  /\ p \notin accepted         \* (each submission has its own id)
  /\ LET a == AnswerFor(p, Len(q)) IN
     /\ answer' = [kind |-> a, p |-> p, err |-> a # "accepted"]
     /\ IF a = "accepted" THEN q' = Append(q, p) /\ accepted' = accepted \cup {p}
        ELSE UNCHANGED <<q, accepted>>
  /\ UNCHANGED <<fwd, worker, service>>

StartWorker == ~worker /\ worker' = TRUE /\ UNCHANGED <<q, accepted, fwd, answer, service>>

Work == /\ worker /\ q # <<>>
        /\ LET p == Head(q) IN
           /\ q' = Tail(q)
           /\ fwd' = IF p \in ValidP /\ service = "up" THEN [fwd EXCEPT ![p] = @ + 1]
                     ELSE IF p \in ValidP /\ service = "lost" THEN [fwd EXCEPT ![p] = @ + (IF RetryOnError THEN 2 ELSE 1)]
                     ELSE fwd
        /\ UNCHANGED <<accepted, answer, worker, service>>

RNext == (\E p \in Payloads : Submit(p)) \/ StartWorker \/ Work
RSpec == RInit /\ [][RNext]_rvars /\ WF_rvars(Work) /\ WF_rvars(StartWorker)

AtMostOnce   == \A p \in Payloads : fwd[p] <= 1
OnlyAccepted == \A p \in Payloads : fwd[p] > 0 => p \in accepted /\ p \in ValidP
QueueBounded == Len(q) <= Q
OneAnswer    == answer.kind \in {"none", "accepted", "bad_request", "too_busy"}
EventuallyForwarded == \A p \in Payloads : (p \in accepted /\ p \in ValidP /\ service = "up") ~> (fwd[p] = 1)
=============================================================================
