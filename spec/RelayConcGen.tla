---------------------------- MODULE RelayConcGen ----------------------------
(***************************************************************************)
(* Behaviour generator for RelayConc (specification -> code): TLC in       *)
(* simulation mode walks random behaviours; the history variable `sched`   *)
(* records which connection took each step (0 = the barrier) and the       *)
(* finished behaviour is written as JSON for the harness, which forces the *)
(* same schedule on the real handlers (tools/relayconc_check.py).          *)
(* For the exhaustive runs RelayConc is used directly (no history).        *)
(***************************************************************************)
EXTENDS RelayConc, Json, IOUtils

VARIABLES sched, prog0

gvars == <<vars, sched, prog0>>

GenInit == Init /\ sched = <<>> /\ prog0 = prog

GenNext ==
  \/ \E c \in Conns : \/ Begin(c) /\ UNCHANGED <<sched, prog0>>
                      \/ Step(c) /\ sched' = Append(sched, c) /\ prog0' = prog0
  \/ Barrier /\ sched' = Append(sched, 0) /\ prog0' = prog0

GenSpec == GenInit /\ [][GenNext]_gvars

GenDir == IF "VERIF_GEN" \in DOMAIN IOEnv THEN IOEnv.VERIF_GEN ELSE "gen"
Export ==
  ~Quiescent
  \/ ndJsonSerialize(GenDir \o "/s" \o ToString(TLCGet("stats").traces) \o ".ndjson",
                     <<[prog |-> [c \in Conns |-> prog0[c]], sched |-> sched]>>)
=============================================================================
