----------------------------- MODULE ReceiptTrace -----------------------------
(* validates recorded receipt scenarios of the real code against Receipt.tla *)
EXTENDS Integers, Sequences, FiniteSets, TLC, Json, IOUtils

TraceFile == IF "VERIF_TRACE" \in DOMAIN IOEnv THEN IOEnv.VERIF_TRACE ELSE "trace.ndjson"
Trace == ndJsonDeserialize(TraceFile)
VARIABLES l, qlen, pend, Qc, mode, worker, chk
tv == <<l, qlen, pend, Qc, mode, worker, chk>>
ToSet(s) == {s[i] : i \in DOMAIN s}

AnswerFor(empty, n, cap) == IF empty THEN "bad_request" ELSE IF n >= cap THEN "too_busy" ELSE "accepted"

TInit == l = 1 /\ qlen = 0 /\ pend = {} /\ Qc = 1 /\ mode = "up" /\ worker = FALSE /\ chk = [ok |-> TRUE]

TNext ==
  /\ l <= Len(Trace) /\ l' = l + 1
  /\ LET r == Trace[l] IN
     CASE r.op = "reset" ->
            /\ qlen' = 0 /\ pend' = {} /\ Qc' = r.q /\ mode' = r.mode /\ worker' = FALSE /\ chk' = [ok |-> TRUE]
       [] r.op = "submit" ->
            LET want == AnswerFor(r.empty, qlen, Qc) IN
            /\ chk' = [ok |-> /\ r.resp = want
                              /\ r.answers = 1                       \* exactly one answer, to the submitter only
                              /\ r.ret = (IF want = "accepted" THEN "ok" ELSE "err")
                              /\ r.elapsed_ms < 5000,                \* submitting never blocks the connection (a blocked submit waits for the worker: for ever here)
                       want |-> want, got |-> r.resp, pid |-> r.pid]
            /\ qlen' = IF want = "accepted" /\ ~worker THEN qlen + 1 ELSE qlen
            /\ pend' = IF want = "accepted" THEN pend \cup {<<r.pid, r.valid>>} ELSE pend
            /\ UNCHANGED <<Qc, mode, worker>>
       [] r.op = "worker" ->
            /\ worker' = TRUE /\ qlen' = 0 /\ chk' = [ok |-> TRUE] /\ UNCHANGED <<pend, Qc, mode>>
       [] r.op = "drain" ->
            \* everything accepted so far has been looked at by the worker: the credit service has received
            \* exactly the valid ones, once each, unchanged (nothing when it is down; once each also when the service
            \* takes the receipt and its answer is lost)
            LET got == {<<r.forwarded[i][1], r.forwarded[i][2]>> : i \in DOMAIN r.forwarded}
                want == IF mode = "down" THEN {} ELSE {<<p[1], TRUE>> : p \in {x \in pend : x[2]}}
            IN /\ chk' = [ok |-> worker => (got = want /\ Len(r.forwarded) = Cardinality(got) /\ r.left = 0), want |-> want, got |-> got]
               /\ pend' = IF worker THEN {} ELSE pend
               /\ UNCHANGED <<qlen, Qc, mode, worker>>

TSpec == TInit /\ [][TNext]_tv
Ok_C19 == chk.ok
TraceAccepted == TLCGet("stats").diameter - 1 = Len(Trace)
=============================================================================
