------------------------------- MODULE FlagsMC -------------------------------
(***************************************************************************)
(* C17 at the level of the specification: the ten DISABLE_* flags map to   *)
(* ten pairwise different relay classes, no response / state / module      *)
(* message is in any class, and filtering with unknown names is the        *)
(* identity - for all 2048 subsets of the ten flags plus an unknown name.  *)
(***************************************************************************)
EXTENDS Relay

VARIABLE F
Unknown == {"DISABLE_NOTHING"}
FInit == F \in SUBSET (AllFlags \cup Unknown)
FNext == UNCHANGED F
FSpec == FInit /\ [][FNext]_F

\* one representative message of every type the server sends
Samples ==
  { Err(1, 404), JoinResp(1, 1, 1, 1), SessState({1}, {}, {}), JoinB(1, 1), LeaveB(1), EntAddResp(1, 1),
    EntAddB(<<1, 1, 0, 1>>, 1), EntDelResp(1), EntDelB(1, 1), PoseB(1, 1, 1), CustomB(1, 1, 1, 1),
    TypeAddResp(1, 1), GetNameResp(1, "a"), GetIdResp(1, 1), CompAddResp(1), CompAddB(<<1, 1, 1>>, 1),
    CompDelResp(1), CompDelB(<<1, 1, 0>>, 1), CompUpdB(<<1, 1, 1>>, 1), CompListResp(1, {}), SubResp(1),
    UnsubResp(1), PingResp(1), VikjaState({}), ActionResp(1), ActionB(<<1, "x", 1, 1>>, 1), OdalState({}),
    AssetAddResp(1, 1), AssetAddB(<<1, 1, "m", 1>>, 1) }

TenClasses   == Cardinality(DOMAIN FlagOf) = 10 /\ Cardinality(AllFlags) = 10
Injective    == \A a, b \in DOMAIN FlagOf : FlagOf[a] = FlagOf[b] => a = b
ExactlyOwn   == \A m \in Samples : SuppressedBy(F, m) <=> (m.t \in DOMAIN FlagOf /\ FlagOf[m.t] \in F)
NeverOthers  == \A m \in Samples : m.t \notin DOMAIN FlagOf => ~SuppressedBy(F, m)
UnknownInert == \A m \in Samples : SuppressedBy(F, m) = SuppressedBy(F \ Unknown, m)
AllTypes     == DOMAIN FlagOf \subseteq {m.t : m \in Samples}
FilterOK     == LET s == [i \in 1..3 |-> CHOOSE m \in Samples : m.t = <<"JOIN_BROADCAST", "PING_RESPONSE", "POSE_BROADCAST">>[i]]
                IN Len(FilterSeq(F, s)) = 3 - Cardinality({"DISABLE_PARTICIPANT_JOIN_BROADCAST", "DISABLE_ENTITY_UPDATE_POSE_BROADCAST"} \cap F)
=============================================================================
