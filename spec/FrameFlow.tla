------------------------------- MODULE FrameFlow -------------------------------
(***************************************************************************)
(* The frame path of a session and the scheduler of ONE of its members.    *)
(*                                                                         *)
(*   models/session.go   StartDispatchFrames: on every tick the session's  *)
(*                       frame worker takes frameMutex.RLock and calls the *)
(*                       frame handler of every member;                    *)
(*                       HandleFrame(h) / its cancel func: frameMutex.Lock *)
(*   hagall-common       scheduler: pose / component updates are PARKED    *)
(*                       (under scheduler.mutex); everything else goes     *)
(*                       into a bounded queue (256); scheduler.HandleFrame *)
(*                       - the member's frame handler - pushes the parked  *)
(*                       updates into the SAME queue, blocking, while it   *)
(*                       holds scheduler.mutex (and the worker holds the   *)
(*                       session's frame read lock);                       *)
(*   websocket/handler.go the member's main loop is the only consumer of   *)
(*                       that queue; when the connection ends (or switches *)
(*                       session) it calls the cancel func of its frame    *)
(*                       handler, i.e. waits for frameMutex.Lock.          *)
(*                                                                         *)
(* Question (C08, "bursts ... stalling, closing abruptly"): the member's   *)
(* queue is full (its client sent a burst faster than the main loop takes  *)
(* it - e.g. the main loop was held by back-pressure), an update is        *)
(* parked, the connection ends.  Does the handler return?                  *)
(*                                                                         *)
(* Found with this model (TLC deadlock, Flush = "queue", DiscDrain = FALSE) *)
(* and reproduced on the real server: D11.  Repaired for a connection that *)
(* ends (DiscDrain = TRUE).  With Switches = TRUE the model still has the   *)
(* same deadlock on the switch path; that one has not been reproduced on   *)
(* the real server and is recorded as a lead only.                         *)
(*                                                                         *)
(* `Flush` selects the design of the frame handler:                        *)
(*   "queue"   the code: parked updates go through the bounded queue       *)
(*   "direct"  a design in which the frame handler only marks the parked   *)
(*             updates as due and the main loop takes them from where they *)
(*             are parked (nothing blocks inside the frame worker)         *)
(*   "async"   a design in which the frame handler only signals a          *)
(*             per-connection flusher goroutine (non-blocking); the        *)
(*             flusher does the blocking push, holding no session lock,    *)
(*             and is waited for like the sender and the receiver          *)
(***************************************************************************)
EXTENDS Integers, Sequences, TLC

CONSTANTS Q,        \* capacity of the scheduler queue (256 in the code)
          N,        \* messages the client still sends
          Flush,    \* "queue" | "direct" | "async"
          DiscDrain, \* BOOLEAN: while HandleDisconnect runs, a helper keeps consuming the queue (the repaired code); FALSE:
                    \* nobody does (the code before the repair of D11)
          Switches  \* BOOLEAN: the client may also ask to switch session ("sw": the handler leaves the old session - same
                    \* cancel func, same wait for the frame lock - INSIDE handleMessage, where nothing can be discarded)

VARIABLES q,        \* scheduler queue: sequence of "n" (ordinary request), "u" (flushed update), "bad" (its handler fails)
          parked,   \* number of parked updates (0..2: the maps coalesce per entity / component)
          due,      \* ("direct" only) parked updates made due by a tick
          smx,      \* holder of scheduler.mutex: "none" | "frame" | "recv"
          fpc,      \* frame worker: "sleep" | "in" (frame read lock held) | "push" (inside the member's HandleFrame)
          reg,      \* the member's frame handler is registered
          mpc,      \* main loop: "loop" | "handling" | "unreg" (cancel func: waits for the frame write lock)
                    \*            | "cancel" | "wait" | "done"
          cur,      \* the message being handled
          rpc,      \* receiver: "read" | "qfull" (blocked in Dispatch) | "park" (waits for scheduler.mutex) | "exit"
          pend,     \* what the receiver holds
          dch,      \* a disconnect is pending
          ctx,      \* "live" | "cancelled"
          sock,     \* "open" | "closed"
          left,     \* messages the client has not sent yet
          sig,      \* ("async") a frame has been signalled to the flusher
          xpc       \* ("async") the flusher: "idle" | "push" | "exit"  ("exit" from the start in the other designs)

vars == <<q, parked, due, smx, fpc, reg, mpc, cur, rpc, pend, dch, ctx, sock, left, sig, xpc>>

Init == /\ q = <<>> /\ parked = 0 /\ due = 0 /\ smx = "none" /\ fpc = "sleep" /\ reg = TRUE /\ mpc = "loop" /\ cur = ""
        /\ rpc = "read" /\ pend = "" /\ dch = FALSE /\ ctx = "live" /\ sock = "open" /\ left = N
        /\ sig = FALSE /\ xpc = (IF Flush = "async" THEN "idle" ELSE "exit")

WriterWaiting == mpc \in {"unreg", "unregS"}
Park == IF parked < 2 THEN parked + 1 ELSE parked

(* client + receiver goroutine *)
R_Read(k) == /\ rpc = "read" /\ sock = "open" /\ ctx = "live" /\ left > 0 /\ left' = left - 1
             /\ IF k = "u"
                THEN IF smx = "none" THEN parked' = Park /\ UNCHANGED <<q, rpc, pend>>
                     ELSE rpc' = "park" /\ pend' = k /\ UNCHANGED <<q, parked>>
                ELSE IF Len(q) < Q THEN q' = Append(q, k) /\ UNCHANGED <<parked, rpc, pend>>
                     ELSE rpc' = "qfull" /\ pend' = k /\ UNCHANGED <<q, parked>>
             /\ UNCHANGED <<due, smx, fpc, reg, mpc, cur, dch, ctx, sock, sig, xpc>>
R_Unblock == /\ rpc = "qfull" /\ Len(q) < Q /\ q' = Append(q, pend) /\ pend' = "" /\ rpc' = "read"
             /\ UNCHANGED <<parked, due, smx, fpc, reg, mpc, cur, dch, ctx, sock, left, sig, xpc>>
R_Park    == /\ rpc = "park" /\ smx = "none" /\ parked' = Park /\ pend' = "" /\ rpc' = "read"
             /\ UNCHANGED <<q, due, smx, fpc, reg, mpc, cur, dch, ctx, sock, left, sig, xpc>>
R_Closed  == /\ rpc = "read" /\ (sock = "closed" \/ ctx = "cancelled") /\ rpc' = "exit" /\ dch' = (dch \/ ctx = "live")
             /\ UNCHANGED <<q, parked, due, smx, fpc, reg, mpc, cur, pend, ctx, sock, left, sig, xpc>>
C_Close   == /\ sock = "open" /\ sock' = "closed"
             /\ UNCHANGED <<q, parked, due, smx, fpc, reg, mpc, cur, rpc, pend, dch, ctx, left, sig, xpc>>

(* the session's frame worker *)
F_Tick == /\ fpc = "sleep" /\ ~WriterWaiting /\ mpc # "cancel"      \* RLock: not while a writer waits or holds
          /\ fpc' = "in" /\ UNCHANGED <<q, parked, due, smx, reg, mpc, cur, rpc, pend, dch, ctx, sock, left, sig, xpc>>
F_Call == /\ fpc = "in"
          /\ IF ~reg THEN fpc' = "sleep" /\ UNCHANGED <<smx, due, parked, sig>>
             ELSE IF Flush = "direct" THEN fpc' = "sleep" /\ due' = parked /\ UNCHANGED <<smx, parked, sig>>
             ELSE IF Flush = "async" THEN fpc' = "sleep" /\ sig' = TRUE /\ UNCHANGED <<smx, due, parked>>
             ELSE /\ smx = "none" /\ smx' = "frame" /\ fpc' = "push" /\ UNCHANGED <<due, parked, sig>>
          /\ UNCHANGED <<q, reg, mpc, cur, rpc, pend, dch, ctx, sock, left, xpc>>
F_Push == /\ fpc = "push"
          /\ IF parked = 0 THEN smx' = "none" /\ fpc' = "sleep" /\ UNCHANGED <<q, parked>>
             ELSE /\ Len(q) < Q /\ q' = Append(q, "u") /\ parked' = parked - 1 /\ UNCHANGED <<smx, fpc>>
          /\ UNCHANGED <<due, reg, mpc, cur, rpc, pend, dch, ctx, sock, left, sig, xpc>>

(* ("async") the connection's flusher goroutine: no session lock is held while it pushes *)
X_Take == /\ xpc = "idle" /\ ctx = "live" /\ sig /\ smx = "none" /\ sig' = FALSE /\ smx' = "flush" /\ xpc' = "push"
          /\ UNCHANGED <<q, parked, due, fpc, reg, mpc, cur, rpc, pend, dch, ctx, sock, left>>
X_Push == /\ xpc = "push"
          /\ IF parked = 0 THEN smx' = "none" /\ xpc' = "idle" /\ UNCHANGED <<q, parked>>
             ELSE /\ Len(q) < Q /\ q' = Append(q, "u") /\ parked' = parked - 1 /\ UNCHANGED <<smx, xpc>>
          /\ UNCHANGED <<due, fpc, reg, mpc, cur, rpc, pend, dch, ctx, sock, left, sig>>
X_Exit == /\ xpc = "idle" /\ ctx = "cancelled" /\ xpc' = "exit"
          /\ UNCHANGED <<q, parked, due, smx, fpc, reg, mpc, cur, rpc, pend, dch, ctx, sock, left, sig>>

(* the member's main loop *)
M_Pop   == /\ mpc = "loop" /\ ctx = "live" /\ q # <<>> /\ cur' = Head(q) /\ q' = Tail(q) /\ mpc' = "handling"
           /\ UNCHANGED <<parked, due, smx, fpc, reg, rpc, pend, dch, ctx, sock, left, sig, xpc>>
M_Due   == /\ mpc = "loop" /\ ctx = "live" /\ due > 0 /\ parked > 0     \* ("direct") takes a due update from where it is parked
           /\ smx = "none" /\ due' = due - 1 /\ parked' = parked - 1 /\ cur' = "u" /\ mpc' = "handling"
           /\ UNCHANGED <<q, smx, fpc, reg, rpc, pend, dch, ctx, sock, left, sig, xpc>>
M_Fin   == /\ mpc = "handling" /\ cur # "sw" /\ mpc' = "loop" /\ cur' = "" /\ dch' = (dch \/ cur = "bad")
           /\ UNCHANGED <<q, parked, due, smx, fpc, reg, rpc, pend, ctx, sock, left, sig, xpc>>
\* a switch: leaveSession inside the handler (cancel func = frame write lock), then the new session's registration
M_SwLeave == /\ mpc = "handling" /\ cur = "sw" /\ mpc' = "unregS"
             /\ UNCHANGED <<q, parked, due, smx, fpc, reg, cur, rpc, pend, dch, ctx, sock, left, sig, xpc>>
M_SwDone  == /\ mpc = "unregS" /\ fpc = "sleep" /\ mpc' = "loop" /\ cur' = ""        \* lock granted; registered again at once
             /\ UNCHANGED <<q, parked, due, smx, fpc, reg, rpc, pend, dch, ctx, sock, left, sig, xpc>>
\* (repaired code) while the connection's HandleDisconnect waits for the frame lock a helper consumes the queue
M_DiscDrain == /\ DiscDrain /\ mpc = "unreg" /\ q # <<>> /\ q' = Tail(q)
               /\ UNCHANGED <<parked, due, smx, fpc, reg, mpc, cur, rpc, pend, dch, ctx, sock, left, sig, xpc>>
M_Disc  == /\ mpc = "loop" /\ ctx = "live" /\ dch /\ dch' = FALSE /\ sock' = "closed" /\ mpc' = "unreg"   \* handleDisconnect .. leaveSession
           /\ UNCHANGED <<q, parked, due, smx, fpc, reg, cur, rpc, pend, ctx, left, sig, xpc>>
M_Unreg == /\ mpc = "unreg" /\ fpc = "sleep" /\ reg' = FALSE /\ mpc' = "cancel"                       \* frameMutex.Lock granted
           /\ UNCHANGED <<q, parked, due, smx, fpc, cur, rpc, pend, dch, ctx, sock, left, sig, xpc>>
M_Cancel == /\ mpc = "cancel" /\ ctx' = "cancelled" /\ mpc' = "wait"
            /\ UNCHANGED <<q, parked, due, smx, fpc, reg, cur, rpc, pend, dch, sock, left, sig, xpc>>
M_Drain == /\ mpc = "wait" /\ q # <<>> /\ q' = <<>>                                                   \* (D14 repair)
           /\ UNCHANGED <<parked, due, smx, fpc, reg, mpc, cur, rpc, pend, dch, ctx, sock, left, sig, xpc>>
M_Done  == /\ mpc = "wait" /\ rpc = "exit" /\ xpc = "exit" /\ mpc' = "done"
           /\ UNCHANGED <<q, parked, due, smx, fpc, reg, cur, rpc, pend, dch, ctx, sock, left, sig, xpc>>

Kinds == {"n", "u", "bad"} \cup (IF Switches THEN {"sw"} ELSE {})
Next == (\E k \in Kinds : R_Read(k)) \/ R_Unblock \/ R_Park \/ R_Closed \/ C_Close
        \/ F_Tick \/ F_Call \/ F_Push \/ X_Take \/ X_Push \/ X_Exit \/ M_Pop \/ M_Due \/ M_Fin \/ M_SwLeave \/ M_SwDone \/ M_DiscDrain \/ M_Disc \/ M_Unreg \/ M_Cancel \/ M_Drain \/ M_Done
        \/ (mpc = "done" /\ UNCHANGED vars)

MainSteps  == M_Pop \/ M_Due \/ M_Fin \/ M_SwLeave \/ M_SwDone \/ M_DiscDrain \/ M_Disc \/ M_Unreg \/ M_Cancel \/ M_Drain \/ M_Done
RecvSteps  == R_Unblock \/ R_Park \/ R_Closed
FrameSteps == F_Call \/ F_Push
FlushSteps == X_Take \/ X_Push \/ X_Exit
\* every goroutine that can move does; the client goes away in the end
\* (strong fairness for the two goroutines that wait for a mutex or a channel slot others also take: Go's mutex does
\* not starve a waiter and a channel serves blocked senders in order)
Spec == Init /\ [][Next]_vars /\ WF_vars(MainSteps) /\ SF_vars(RecvSteps) /\ SF_vars(FrameSteps) /\ SF_vars(FlushSteps) /\ WF_vars(C_Close)

TypeOK == Len(q) <= Q /\ parked \in 0..2 /\ left \in 0..N
\* the frame worker never calls the handler of a member that has left (what makes closing the queue safe)
NoCallAfterCancel == fpc = "push" => reg
\* ("async") the queue is closed (Handle returns) only after the flusher has gone
NoPushAfterReturn == mpc = "done" => xpc = "exit"
\* the client goes away in the end: the handler returns - and TLC's deadlock check: nobody is left stuck
HandlerReturns == <>(mpc = "done")
\* shortest schedule to the wedge of the code's design, for the replay on the real server
Wedged == mpc \in {"unreg", "unregS"} /\ fpc = "push" /\ parked > 0 /\ Len(q) = Q
NotWedged == ~Wedged
=============================================================================
