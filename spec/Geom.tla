--------------------------------- MODULE Geom ---------------------------------
(***************************************************************************)
(* C20, second sentence: the geometric primitives of modules/dagaz/math.go *)
(* as exact integer definitions on a small lattice (where float32          *)
(* arithmetic is exact), and the trace specification that compares every   *)
(* recorded result of the real functions with them.                        *)
(***************************************************************************)
EXTENDS Integers, Sequences, TLC, Json, IOUtils

Dot(a, b)   == a[1] * b[1] + a[2] * b[2] + a[3] * b[3]
Cross(a, b) == <<a[2] * b[3] - a[3] * b[2], a[3] * b[1] - a[1] * b[3], a[1] * b[2] - a[2] * b[1]>>
Abs(x) == IF x < 0 THEN -x ELSE x
\* horizontal quads: centre c, half extents e (e[2] = 0); open overlap on x and z
Overlap(c1, e1, c2, e2) ==
  /\ c1[1] - e1[1] < c2[1] + e2[1] /\ c1[1] + e1[1] > c2[1] - e2[1]
  /\ c1[3] - e1[3] < c2[3] + e2[3] /\ c1[3] + e1[3] > c2[3] - e2[3]
\* normal direction of a horizontal quad with positive extents: +y
NormalDir(e) == IF e[1] * e[3] > 0 THEN <<0, 1, 0>> ELSE IF e[1] * e[3] < 0 THEN <<0, -1, 0>> ELSE <<0, 0, 0>>
\* vertical ray from (x, y0, z) to (x, y1, z), y0 > y1, against a horizontal quad: hit iff the plane height lies on the
\* segment and the point is inside the footprint (borders included)
RayHit(x, z, y0, y1, c, e) ==
  /\ e[1] * e[3] # 0 /\ y1 <= c[2] /\ c[2] <= y0
  /\ Abs(x - c[1]) <= e[1] /\ Abs(z - c[3]) <= e[3]

TraceFile == IF "VERIF_TRACE" \in DOMAIN IOEnv THEN IOEnv.VERIF_TRACE ELSE "trace.ndjson"
Trace == ndJsonDeserialize(TraceFile)
VARIABLES l, ok
TInit == l = 1 /\ ok = TRUE
Good(r) ==
  CASE r.f = "dot"     -> r.r = Dot(r.a, r.b)
    [] r.f = "cross"   -> r.r = Cross(r.a, r.b)
    [] r.f = "overlap" -> r.r = Overlap(r.c1, r.e1, r.c2, r.e2)
    [] r.f = "normal"  -> r.r = NormalDir(r.e)
    [] r.f = "ray"     -> /\ r.hit = RayHit(r.x, r.z, r.y0, r.y1, r.c, r.e)
                          /\ r.hit => r.tnum = r.y0 - r.c[2]        \* t = (y0 - cy) / (y0 - y1), logged as its numerator
    [] OTHER -> FALSE
TNext == l <= Len(Trace) /\ l' = l + 1 /\ ok' = Good(Trace[l])
TSpec == TInit /\ [][TNext]_<<l, ok>>
Ok_Geom == ok
TraceAccepted == TLCGet("stats").diameter - 1 = Len(Trace)
=============================================================================
