------------------------------ MODULE AuthTrace ------------------------------
(* validates recorded admissions of the real handshake / middleware against Auth.tla *)
EXTENDS Auth, Json, IOUtils

TraceFile == IF "VERIF_TRACE" \in DOMAIN IOEnv THEN IOEnv.VERIF_TRACE ELSE "trace.ndjson"
Trace == ndJsonDeserialize(TraceFile)
VARIABLES l, row
tv == <<secret, entered, last, l, row>>

TInit == AInit /\ l = 1 /\ row = [ok |-> TRUE]
TNext == /\ l <= Len(Trace) /\ l' = l + 1
         /\ LET r == Trace[l]
                req == [header |-> r.header, query |-> r.query, cookie |-> r.cookie, bearer |-> r.bearer, endpoint |-> r.endpoint]
                a == Admit(r.secret, req)
            IN /\ row' = [ok |-> (r.admitted = a) /\ (r.entered = a), want |-> a, got |-> r.admitted, entered |-> r.entered, req |-> req, secret |-> r.secret]
               /\ secret' = r.secret /\ UNCHANGED <<entered, last>>
TSpec == TInit /\ [][TNext]_tv
Ok_C15 == row.ok
TraceAccepted == TLCGet("stats").diameter - 1 = Len(Trace)
=============================================================================
