----------------------------- MODULE RelayTrace -----------------------------
(***************************************************************************)
(* Trace specification: validates executions of the REAL code (recorded by *)
(* the L1 harness as ndjson) against Relay.tla.                            *)
(*                                                                         *)
(* Every record carries the event, the messages handed to every            *)
(* connection during the step and the projected authoritative state after  *)
(* it.  The state before step l is the logged state after step l-1, so a   *)
(* deviation at one step does not cascade.  `exp` holds the outcomes       *)
(* Step(pre, ev) the specification allows; each property has its own       *)
(* invariant Ok_Cxx over (pre, ev, exp, cur) and the history variables.    *)
(***************************************************************************)
EXTENDS Relay, Json, IOUtils

TraceFile == IF "VERIF_TRACE" \in DOMAIN IOEnv THEN IOEnv.VERIF_TRACE ELSE "trace.ndjson"
Trace == ndJsonDeserialize(TraceFile)

VARIABLES l,      \* next record
          pre,    \* state before the last event
          cur,    \* state after it (as logged)
          ev,     \* the last event, parsed: [step, conn, req, sid, ret, out, popped]
          exp,    \* Step(pre, ev)
          views,  \* c -> what client c believes (Appendix D), from the logged messages only
          gh      \* ghosts: ids ever issued, etc.

tvars == <<l, pre, cur, ev, exp, views, gh>>

(***************************************************************************)
(* JSON -> specification values                                            *)
(***************************************************************************)
ToSet(s)  == {s[i] : i \in DOMAIN s}
RowOf(s, key(_), k) == s[CHOOSE i \in DOMAIN s : key(s[i]) = k]
FunOf(s, key(_), val(_)) == [k \in {key(s[i]) : i \in DOMAIN s} |-> val(RowOf(s, key, k))]
NoDup(s)  == Cardinality(ToSet(s)) = Len(s)

K1(r) == r[1]
K12(r) == <<r[1], r[2]>>
V2(r) == r[2]

ParseReq(j) == j      \* requests are logged exactly in the shape the specification reads

ParseSession(j) ==
  [ uuid |-> j.uuid, pcur |-> j.pcur, ecur |-> j.ecur, tcur |-> j.tcur, acur |-> j.acur,
    mem    |-> FunOf(j.mem, K1, V2),
    ents   |-> FunOf(j.ents, K1, LAMBDA r : [owner |-> r[2], persist |-> (r[3] = 1), flag |-> r[4], px |-> r[5]]),
    types  |-> FunOf(j.types, K1, V2),
    comps  |-> FunOf(j.comps, K12, LAMBDA r : r[3]),
    subs   |-> FunOf(j.subs, K1, LAMBDA r : ToSet(r[2])),
    acts   |-> FunOf(j.acts, K12, LAMBDA r : [ts |-> r[3], data |-> r[4]]),
    assets |-> FunOf(j.assets, K1, LAMBDA r : [id |-> r[2], asset |-> r[3], owner |-> r[4]]),
    mods   |-> ToSet(j.mods), grid |-> j.grid, fh |-> j.fh, ticking |-> j.ticking ]

ParseConn(j) ==
  [ life |-> j.life, sid |-> j.sid, pid |-> j.pid, own |-> ToSet(j.own),
    q  |-> [i \in DOMAIN j.q |-> ParseReq(j.q[i])],
    pp |-> FunOf(j.pp, K1, V2),
    pc |-> FunOf(j.pc, LAMBDA r : <<r[1][1], r[1][2]>>, V2) ]

ParseState(j) ==
  [ cur |-> j.cur, free |-> ToSet(j.free), gauge |-> j.gauge, ucur |-> j.ucur, gcur |-> j.gcur,
    sess  |-> FunOf(j.sess, LAMBDA r : r.sid, ParseSession),
    conns |-> [c \in Conns |->
                 IF \E i \in DOMAIN j.conns : j.conns[i].c = c
                 THEN ParseConn(RowOf(j.conns, LAMBDA r : r.c, c))
                 ELSE FreshConn] ]

\* set-like lists become sets; a duplicate makes the message unequal to anything the spec emits
ParseMsg(m) ==
  CASE m.t = "SESSION_STATE" ->
         IF NoDup(m.parts) /\ NoDup(m.ents) /\ NoDup(m.comps)
         THEN SessState(ToSet(m.parts), ToSet(m.ents), ToSet(m.comps))
         ELSE [t |-> "SESSION_STATE", dup |-> TRUE]
    [] m.t = "COMP_LIST_RESPONSE" ->
         IF NoDup(m.comps) THEN CompListResp(m.rid, ToSet(m.comps)) ELSE [t |-> m.t, dup |-> TRUE]
    [] m.t = "VIKJA_STATE" ->
         IF NoDup(m.acts) THEN VikjaState(ToSet(m.acts)) ELSE [t |-> m.t, dup |-> TRUE]
    [] m.t = "ODAL_STATE" ->
         IF NoDup(m.assets) THEN OdalState(ToSet(m.assets)) ELSE [t |-> m.t, dup |-> TRUE]
    [] OTHER -> m

ParseOut(j) ==
  [c \in Conns |->
     IF \E i \in DOMAIN j : j[i][1] = c
     THEN LET ms == RowOf(j, K1, c)[2] IN [i \in DOMAIN ms |-> ParseMsg(ms[i])]
     ELSE <<>>]

ParseEvent(r) ==
  [ step |-> r.step, conn |-> r.conn, req |-> ParseReq(r.req),
    sid |-> IF "sid" \in DOMAIN r THEN r.sid ELSE 0,
    ret |-> r.ret, out |-> ParseOut(r.out) ]

(***************************************************************************)
(* Client views (Appendix D), computed from the logged messages only       *)
(***************************************************************************)
NoView == [joined |-> FALSE, sid |-> 0, pid |-> 0, parts |-> {}, ents |-> <<>>,
           comps |-> <<>>, unsynced |-> {}, acts |-> <<>>, assets |-> <<>>, bad |-> <<>>]

EntOfRow(r) == [owner |-> r[2], flag |-> r[3], px |-> r[4]]
Bad(v, m)   == [v EXCEPT !.bad = Append(@, m)]

\* apply one message to a view; `isOwn` marks messages that answer the client's own request
ApplyMsg(v, m, req) ==
  CASE m.t = "JOIN_RESPONSE" ->
         [NoView EXCEPT !.joined = TRUE, !.sid = m.sid, !.pid = m.pid, !.parts = {m.pid}, !.bad = v.bad]
    [] m.t = "SESSION_STATE" /\ "dup" \notin DOMAIN m ->
         [v EXCEPT !.parts = m.parts,
                   !.ents  = [e \in {r[1] : r \in m.ents} |-> EntOfRow(CHOOSE r \in m.ents : r[1] = e)],
                   !.comps = [k \in {<<r[1], r[2]>> : r \in m.comps} |-> (CHOOSE r \in m.comps : <<r[1], r[2]>> = k)[3]],
                   !.unsynced = {}]
    [] m.t = "VIKJA_STATE" /\ "dup" \notin DOMAIN m ->
         [v EXCEPT !.acts = [k \in {<<r[1], r[2]>> : r \in m.acts} |->
                               LET r == CHOOSE x \in m.acts : <<x[1], x[2]>> = k IN [ts |-> r[3], data |-> r[4]]]]
    [] m.t = "ODAL_STATE" /\ "dup" \notin DOMAIN m ->
         [v EXCEPT !.assets = [e \in {r[1] : r \in m.assets} |->
                               LET r == CHOOSE x \in m.assets : x[1] = e IN [id |-> r[2], asset |-> r[3], owner |-> r[4]]]]
    [] m.t = "JOIN_BROADCAST" ->
         IF m.pid \in v.parts THEN Bad(v, m) ELSE [v EXCEPT !.parts = @ \cup {m.pid}]
    [] m.t = "LEAVE_BROADCAST" ->
         IF m.pid \notin v.parts THEN Bad(v, m) ELSE [v EXCEPT !.parts = @ \ {m.pid}]
    [] m.t = "ENTITY_ADD_BROADCAST" ->
         IF m.ent[1] \in DOMAIN v.ents THEN Bad(v, m)
         ELSE [v EXCEPT !.ents = Put(@, m.ent[1], EntOfRow(m.ent))]
    [] m.t = "ENTITY_ADD_RESPONSE" ->
         IF m.eid \in DOMAIN v.ents THEN Bad(v, m)
         ELSE [v EXCEPT !.ents = Put(@, m.eid, [owner |-> v.pid, flag |-> req.flag,
                                               px |-> IF req.px < 0 THEN 0 ELSE req.px])]
    [] m.t = "ENTITY_DELETE_BROADCAST" ->
         IF m.eid \notin DOMAIN v.ents THEN Bad(v, m)
         ELSE [v EXCEPT !.ents = Drop(@, {m.eid}),
                        !.comps = Drop(@, {k \in DOMAIN @ : k[2] = m.eid}),
                        !.acts = Drop(@, {k \in DOMAIN @ : k[1] = m.eid}),
                        !.assets = Drop(@, {m.eid})]
    [] m.t = "ENTITY_DELETE_RESPONSE" ->
         IF req.eid \notin DOMAIN v.ents THEN Bad(v, m)
         ELSE [v EXCEPT !.ents = Drop(@, {req.eid}),
                        !.comps = Drop(@, {k \in DOMAIN @ : k[2] = req.eid}),
                        !.acts = Drop(@, {k \in DOMAIN @ : k[1] = req.eid}),
                        !.assets = Drop(@, {req.eid})]
    [] m.t = "POSE_BROADCAST" ->
         IF m.eid \notin DOMAIN v.ents THEN Bad(v, m) ELSE [v EXCEPT !.ents[m.eid].px = m.px]
    [] m.t = "COMP_ADD_BROADCAST" ->
         LET k == <<m.comp[1], m.comp[2]>> IN
         IF k[1] \notin v.unsynced /\ k \in DOMAIN v.comps THEN Bad(v, m)
         ELSE [v EXCEPT !.comps = Put(@, k, m.comp[3])]
    [] m.t = "COMP_ADD_RESPONSE" ->
         [v EXCEPT !.comps = Put(@, <<req.tid, req.eid>>, req.data)]
    [] m.t = "COMP_UPDATE_BROADCAST" ->
         LET k == <<m.comp[1], m.comp[2]>> IN
         IF k[1] \notin v.unsynced /\ k \notin DOMAIN v.comps THEN Bad(v, m)
         ELSE [v EXCEPT !.comps = Put(@, k, m.comp[3])]
    [] m.t = "COMP_DELETE_BROADCAST" ->
         LET k == <<m.comp[1], m.comp[2]>> IN
         IF k[1] \notin v.unsynced /\ k \notin DOMAIN v.comps THEN Bad(v, m)
         ELSE [v EXCEPT !.comps = Drop(@, {k})]
    [] m.t = "COMP_DELETE_RESPONSE" ->
         [v EXCEPT !.comps = Drop(@, {<<req.tid, req.eid>>})]
    [] m.t = "COMP_LIST_RESPONSE" /\ "dup" \notin DOMAIN m ->
         [v EXCEPT !.comps = [k \in ({x \in DOMAIN @ : x[1] # req.tid} \cup {<<r[1], r[2]>> : r \in m.comps}) |->
                                IF k[1] = req.tid THEN (CHOOSE r \in m.comps : <<r[1], r[2]>> = k)[3] ELSE @[k]],
                   !.unsynced = @ \ {req.tid}]
    [] m.t = "ACTION_BROADCAST" ->
         IF m.act[1] \notin DOMAIN v.ents THEN Bad(v, m)
         ELSE [v EXCEPT !.acts = Put(@, <<m.act[1], m.act[2]>>, [ts |-> m.act[3], data |-> m.act[4]])]
    [] m.t = "ACTION_RESPONSE" ->
         [v EXCEPT !.acts = Put(@, <<req.eid, req.name>>, [ts |-> req.ats, data |-> req.data])]
    [] m.t = "ASSET_ADD_BROADCAST" ->
         IF m.asset[1] \notin DOMAIN v.ents THEN Bad(v, m)
         ELSE [v EXCEPT !.assets = Put(@, m.asset[1], [id |-> m.asset[2], asset |-> m.asset[3], owner |-> m.asset[4]])]
    [] m.t = "ASSET_ADD_RESPONSE" ->
         [v EXCEPT !.assets = Put(@, req.eid, [id |-> m.aid, asset |-> req.asset, owner |-> v.pid])]
    [] OTHER -> v

RECURSIVE ApplySeq(_, _, _)
ApplySeq(v, ms, req) == IF ms = <<>> THEN v ELSE ApplySeq(ApplyMsg(v, Head(ms), req), Tail(ms), req)

\* The request a client's own responses answer: for Req it is ev.req, for Proc the popped one.
ReqOf(r) == IF "popped" \in DOMAIN r THEN ParseReq(r.popped) ELSE ParseReq(r.req)

\* An accepted pose / component update of the client's own is applied locally
\* (nothing is sent back to the sender).
OwnSilent(v, req, preS, postS, pid) ==
  CASE req.k = "Pose" /\ req.eid \in DOMAIN v.ents /\ req.eid \in DOMAIN postS.ents
         /\ postS.ents[req.eid].owner = pid /\ req.px >= 0 /\ postS.ents[req.eid].px = req.px ->
         [v EXCEPT !.ents[req.eid].px = req.px]
    [] req.k = "CompUpdate" /\ <<req.tid, req.eid>> \in DOMAIN postS.comps
         /\ <<req.tid, req.eid>> \in DOMAIN preS.comps /\ postS.comps[<<req.tid, req.eid>>] = req.data ->
         [v EXCEPT !.comps = Put(@, <<req.tid, req.eid>>, req.data)]
    [] OTHER -> v

\* Component types whose content changed in this step without c being told.
Missed(c, preS, postS, msgs) ==
  LET told == {msgs[i].comp[1] : i \in {j \in DOMAIN msgs : msgs[j].t \in {"COMP_ADD_BROADCAST", "COMP_UPDATE_BROADCAST", "COMP_DELETE_BROADCAST"}}}
      tids == {k[1] : k \in (DOMAIN preS.comps) \cup (DOMAIN postS.comps)}
      \* changes caused by an entity disappearing are told through the entity-delete relay
      live(k) == k[2] \in DOMAIN postS.ents
      changed(t) == \E k \in (DOMAIN preS.comps) \cup (DOMAIN postS.comps) :
                      /\ k[1] = t /\ live(k)
                      /\ \/ (k \in DOMAIN preS.comps) # (k \in DOMAIN postS.comps)
                         \/ (k \in DOMAIN preS.comps /\ k \in DOMAIN postS.comps /\ preS.comps[k] # postS.comps[k])
  IN {t \in tids : changed(t) /\ t \notin told}

NextViews(r, e, st0, st1) ==
  [c \in Conns |->
     LET v0 == views[c]
         rq == ReqOf(r)
         v1 == ApplySeq(v0, e.out[c], rq)
         sid0 == st0.conns[c].sid
         \* own silent updates
         v2 == IF c = e.conn /\ e.step \in {"Req", "Proc"} /\ e.ret = "ok" /\ "popped" \in DOMAIN r
                  /\ sid0 # 0 /\ sid0 \in DOMAIN st1.sess /\ st1.conns[c].sid = sid0
               THEN OwnSilent(v1, rq, st0.sess[sid0], st1.sess[sid0], st0.conns[c].pid) ELSE v1
         \* missed component changes (member before and after, not the actor)
         v3 == IF sid0 # 0 /\ st1.conns[c].sid = sid0 /\ sid0 \in DOMAIN st1.sess /\ sid0 \in DOMAIN st0.sess
                  /\ ~(c = e.conn /\ e.step \in {"Req", "Proc"})
               THEN [v2 EXCEPT !.unsynced = @ \cup Missed(c, st0.sess[sid0], st1.sess[sid0], e.out[c])]
               ELSE v2
         \* a connection that is in no session any more holds no view
         v4 == IF st1.conns[c].sid = 0 THEN [NoView EXCEPT !.bad = v3.bad] ELSE v3
     IN v4]

(***************************************************************************)
(* Ghosts: ids ever issued per session incarnation (keyed by uuid)         *)
(***************************************************************************)
NoGhost == [pids |-> <<>>, eids |-> <<>>, uuids |-> {}, aids |-> <<>>]
GetOr(f, k, d) == IF k \in DOMAIN f THEN f[k] ELSE d

NextGhost(e, st0, st1) ==
  LET us == {st1.sess[s].uuid : s \in DOMAIN st1.sess} IN
  [ uuids |-> gh.uuids \cup us,
    pids  |-> [u \in (DOMAIN gh.pids) \cup us |->
                 GetOr(gh.pids, u, {}) \cup
                 UNION {DOMAIN st1.sess[s].mem : s \in {x \in DOMAIN st1.sess : st1.sess[x].uuid = u}}],
    eids  |-> [u \in (DOMAIN gh.eids) \cup us |->
                 GetOr(gh.eids, u, {}) \cup
                 UNION {DOMAIN st1.sess[s].ents : s \in {x \in DOMAIN st1.sess : st1.sess[x].uuid = u}}],
    aids  |-> [u \in (DOMAIN gh.aids) \cup us |->
                 GetOr(gh.aids, u, {}) \cup
                 UNION {{st1.sess[s].assets[x].id : x \in DOMAIN st1.sess[s].assets} : s \in {x \in DOMAIN st1.sess : st1.sess[x].uuid = u}}] ]

(***************************************************************************)
(* Behaviour                                                               *)
(***************************************************************************)
InitEv == [step |-> "Init", conn |-> 0, req |-> [k |-> "none"], sid |-> 0, ret |-> "ok", out |-> NoOut]

TraceInit ==
  /\ l = 1 /\ pre = InitState /\ cur = InitState /\ ev = InitEv /\ exp = {}
  /\ views = [c \in Conns |-> NoView] /\ gh = NoGhost

TraceNext ==
  /\ l <= Len(Trace)
  /\ l' = l + 1
  /\ LET r == Trace[l] IN
     IF r.k = "reset"
     THEN /\ pre' = InitState /\ cur' = InitState /\ ev' = InitEv /\ exp' = {}
          /\ views' = [c \in Conns |-> NoView] /\ gh' = NoGhost
     ELSE LET e    == ParseEvent(r)
              post == ParseState(r.post)
          IN /\ pre' = cur /\ cur' = post
             /\ ev' = [e EXCEPT !.req = ReqOf(r)] @@ [given |-> e.req]
             /\ exp' = Step(cur, e)
             /\ views' = NextViews(r, e, cur, post)
             /\ gh' = NextGhost(e, cur, post)

TraceSpec == TraceInit /\ [][TraceNext]_tvars

\* the whole file was consumed
TraceDone == l = Len(Trace) + 1
Finished  == TLCGet("queue") > 0 \/ TraceDone

(***************************************************************************)
(* Exact conformance (spec fidelity): the logged outcome is one of the     *)
(* outcomes the specification allows.  Not a property check - it shows,    *)
(* on the unchanged tree, that Relay.tla describes the code.               *)
(***************************************************************************)
TraceAccepted == TLCGet("stats").diameter - 1 = Len(Trace)

IsStep == ev.step # "Init"
Conforms == IsStep => \E o \in exp : o.st = cur /\ o.out = ev.out /\ o.ret = ev.ret
=============================================================================
