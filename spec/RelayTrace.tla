----------------------------- MODULE RelayTrace -----------------------------
(***************************************************************************)
(* Trace specification: validates executions of the REAL code (recorded by *)
(* the L1 harness as ndjson) against Relay.tla.                            *)
(*                                                                         *)
(* Every record carries the event, the messages handed to every            *)
(* connection during the step and the projected authoritative state after  *)
(* it.  The state before step l is the logged state after step l-1, so a   *)
(* deviation at one step does not cascade.  `exp` holds the outcomes       *)
(* Step(pre, ev) the specification allows; each property has its own       *)
(* invariant Ok_Cxx over (pre, ev, exp, cur) and the history variables.    *)
(***************************************************************************)
EXTENDS RelayProps, Json, IOUtils

TraceFile == IF "VERIF_TRACE" \in DOMAIN IOEnv THEN IOEnv.VERIF_TRACE ELSE "trace.ndjson"
Trace == ndJsonDeserialize(TraceFile)

VARIABLES l       \* next record

tvars == <<l, pre, cur, ev, exp, views, gh>>

(***************************************************************************)
(* JSON -> specification values                                            *)
(***************************************************************************)
ToSet(s)  == {s[i] : i \in DOMAIN s}
RowOf(s, key(_), k) == s[CHOOSE i \in DOMAIN s : key(s[i]) = k]
FunOf(s, key(_), val(_)) == [k \in {key(s[i]) : i \in DOMAIN s} |-> val(RowOf(s, key, k))]
NoDup(s)  == Cardinality(ToSet(s)) = Len(s)

K1(r) == r[1]
K12(r) == <<r[1], r[2]>>
V2(r) == r[2]

ParseReq(j) == j      \* requests are logged exactly in the shape the specification reads

ParseSession(j) ==
  [ uuid |-> j.uuid, pcur |-> j.pcur, ecur |-> j.ecur, tcur |-> j.tcur, acur |-> j.acur,
    mem    |-> FunOf(j.mem, K1, V2),
    ents   |-> FunOf(j.ents, K1, LAMBDA r : [owner |-> r[2], persist |-> (r[3] = 1), flag |-> r[4], px |-> r[5]]),
    types  |-> FunOf(j.types, K1, V2),
    comps  |-> FunOf(j.comps, K12, LAMBDA r : r[3]),
    subs   |-> FunOf(j.subs, K1, LAMBDA r : ToSet(r[2])),
    acts   |-> FunOf(j.acts, K12, LAMBDA r : [ts |-> r[3], data |-> r[4]]),
    assets |-> FunOf(j.assets, K1, LAMBDA r : [id |-> r[2], asset |-> r[3], owner |-> r[4]]),
    mods   |-> ToSet(j.mods), grid |-> j.grid, fh |-> j.fh, ticking |-> j.ticking ]

ParseConn(j) ==
  [ life |-> j.life, sid |-> j.sid, pid |-> j.pid, own |-> ToSet(j.own),
    q  |-> [i \in DOMAIN j.q |-> ParseReq(j.q[i])],
    pp |-> FunOf(j.pp, K1, V2),
    pc |-> FunOf(j.pc, LAMBDA r : <<r[1][1], r[1][2]>>, V2) ]

ParseState(j) ==
  [ cur |-> j.cur, free |-> ToSet(j.free), gauge |-> j.gauge, ucur |-> j.ucur, gcur |-> j.gcur,
    sess  |-> FunOf(j.sess, LAMBDA r : r.sid, ParseSession),
    conns |-> [c \in Conns |->
                 IF \E i \in DOMAIN j.conns : j.conns[i].c = c
                 THEN ParseConn(RowOf(j.conns, LAMBDA r : r.c, c))
                 ELSE FreshConn] ]

\* set-like lists become sets; a duplicate makes the message unequal to anything the spec emits
ParseMsg(m) ==
  CASE m.t = "SESSION_STATE" ->
         IF NoDup(m.parts) /\ NoDup(m.ents) /\ NoDup(m.comps)
         THEN SessState(ToSet(m.parts), ToSet(m.ents), ToSet(m.comps))
         ELSE [t |-> "SESSION_STATE", dup |-> TRUE]
    [] m.t = "COMP_LIST_RESPONSE" ->
         IF NoDup(m.comps) THEN CompListResp(m.rid, ToSet(m.comps)) ELSE [t |-> m.t, dup |-> TRUE]
    [] m.t = "VIKJA_STATE" ->
         IF NoDup(m.acts) THEN VikjaState(ToSet(m.acts)) ELSE [t |-> m.t, dup |-> TRUE]
    [] m.t = "ODAL_STATE" ->
         IF NoDup(m.assets) THEN OdalState(ToSet(m.assets)) ELSE [t |-> m.t, dup |-> TRUE]
    [] OTHER -> m

ParseOut(j) ==
  [c \in Conns |->
     IF \E i \in DOMAIN j : j[i][1] = c
     THEN LET ms == RowOf(j, K1, c)[2] IN [i \in DOMAIN ms |-> ParseMsg(ms[i])]
     ELSE <<>>]

\* redundancy in the log: type names <-> ids inverse, objects filed under their own id
ObsOK(j) ==
  \A i \in DOMAIN j.sess :
     LET S == j.sess[i] IN
     /\ S.sid = S.rid
     /\ \A x \in DOMAIN S.ents : S.ents[x][1] = S.ents[x][6]
     /\ {<<S.types[x][2], S.types[x][1]>> : x \in DOMAIN S.types} = {<<S.names[x][1], S.names[x][2]>> : x \in DOMAIN S.names}

ParseEvent(r) ==
  LET proc == "popped" \in DOMAIN r IN
  [ step |-> r.step, conn |-> r.conn,
    req |-> IF proc THEN ParseReq(r.popped) ELSE ParseReq(r.req),
    given |-> ParseReq(r.req), proc |-> proc,
    sid |-> IF "sid" \in DOMAIN r THEN r.sid ELSE 0,
    ret |-> r.ret, out |-> ParseOut(r.out),
    dead |-> ToSet(r.post.dead), obsOK |-> ObsOK(r.post),
    \* connections whose session object is not the one registered under its id
    orphans |-> {r.post.conns[i].c : i \in {j \in DOMAIN r.post.conns : "orphan" \in DOMAIN r.post.conns[j]}},
    \* paired runs (C17): the same history under no flag
    paired |-> "fl" \in DOMAIN r,
    fl     |-> IF "fl" \in DOMAIN r THEN ToSet(r.fl) ELSE {},
    out0   |-> IF "fl" \in DOMAIN r THEN ParseOut(r.out0) ELSE NoOut,
    same0  |-> IF "fl" \in DOMAIN r THEN (r.post = r.post0 /\ r.ret = r.ret0) ELSE TRUE,
    \* concurrent blocks: the requests issued concurrently and how each handler returned
    reqs   |-> IF "reqs" \in DOMAIN r THEN r.reqs ELSE <<>>,
    rets   |-> IF "rets" \in DOMAIN r THEN r.rets ELSE <<>> ]

(***************************************************************************)
(* Behaviour                                                               *)
(***************************************************************************)
TraceInit ==
  /\ l = 1 /\ pre = InitState /\ cur = InitState /\ ev = InitEv /\ exp = {}
  /\ views = [c \in Conns |-> NoView] /\ gh = NoGhost

TraceNext ==
  /\ l <= Len(Trace)
  /\ l' = l + 1
  /\ LET r == Trace[l] IN
     IF r.k = "reset"
     THEN /\ pre' = InitState /\ cur' = InitState /\ ev' = InitEv /\ exp' = {}
          /\ views' = [c \in Conns |-> NoView] /\ gh' = NoGhost
     ELSE LET e    == ParseEvent(r)
              post == ParseState(r.post)
              nv   == IF e.step = "Block" THEN NextViewsBlock(views, e, post) ELSE NextViews(views, e, cur, post)
          IN /\ pre' = cur /\ cur' = post
             /\ ev' = e
             /\ exp' = IF e.step = "Block" THEN {} ELSE Step(cur, [e EXCEPT !.req = e.given])
             /\ views' = nv
             /\ gh' = NextGhost(gh, e, cur, post, views, nv)

TraceSpec == TraceInit /\ [][TraceNext]_tvars

\* the whole file was consumed
TraceDone == l = Len(Trace) + 1
Finished  == TLCGet("queue") > 0 \/ TraceDone

TraceAccepted == TLCGet("stats").diameter - 1 = Len(Trace)

=============================================================================
