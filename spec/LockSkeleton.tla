---------------------------- MODULE LockSkeleton ----------------------------
(***************************************************************************)
(* Lock-grain skeleton of Relay (C09, "never block one another forever").  *)
(*                                                                         *)
(* Every request handler is, at lock grain, a straight-line program of     *)
(* acquire / release operations on the mutexes of the shared structures    *)
(* (session registry, session, component store, module states, id          *)
(* sources; Appendix A of DESIGN.md).  The programs are NOT written by     *)
(* hand: the check extracts them from executions of the code under test    *)
(* (every lock operation of the hagall packages is recorded through the    *)
(* sync shim, per request) and writes them into LockPrograms.tla.  TLC     *)
(* then explores ALL interleavings of Procs processes, each running any of *)
(* the observed programs, with Go's RWMutex semantics (a waiting writer    *)
(* blocks new readers), and checks that no state is reached in which       *)
(* unfinished processes exist and none can move.                           *)
(*                                                                         *)
(* Mutexes are identified by class (type.field); instances of one class    *)
(* are merged, which can only add behaviours (conservative for deadlock).  *)
(***************************************************************************)
EXTENDS Integers, Sequences, FiniteSets, TLC, LockPrograms

CONSTANTS Procs        \* number of concurrent handlers

VARIABLES prog,    \* process -> index into Programs (0 = not started)
          pc,      \* process -> position in its program
          wlock,   \* lock class -> writer process (0 = none)
          rlock,   \* lock class -> bag of readers: process -> count
          waitw    \* lock class -> set of processes waiting for the write lock

svars == <<prog, pc, wlock, rlock, waitw>>
P == 1..Procs

SInit == /\ prog = [p \in P |-> 0] /\ pc = [p \in P |-> 1]
         /\ wlock = [c \in Classes |-> 0]
         /\ rlock = [c \in Classes |-> [p \in P |-> 0]]
         /\ waitw = [c \in Classes |-> {}]

Start(p) == /\ prog[p] = 0
            /\ \E i \in DOMAIN Programs : prog' = [prog EXCEPT ![p] = i]
            /\ UNCHANGED <<pc, wlock, rlock, waitw>>

Cur(p) == Programs[prog[p]][pc[p]]
Running(p) == prog[p] # 0 /\ pc[p] <= Len(Programs[prog[p]])
NoReaders(c) == \A q \in P : rlock[c][q] = 0

Step(p) ==
  /\ Running(p)
  /\ LET op == Cur(p)[1]  c == Cur(p)[2] IN
     CASE op = "Lock" ->
            IF wlock[c] = 0 /\ NoReaders(c)
            THEN /\ wlock' = [wlock EXCEPT ![c] = p] /\ waitw' = [waitw EXCEPT ![c] = @ \ {p}]
                 /\ pc' = [pc EXCEPT ![p] = @ + 1] /\ UNCHANGED <<prog, rlock>>
            ELSE \* announce the waiting writer (it blocks readers that arrive later)
                 /\ p \notin waitw[c] /\ waitw' = [waitw EXCEPT ![c] = @ \cup {p}]
                 /\ UNCHANGED <<prog, pc, wlock, rlock>>
       [] op = "RLock" ->
            /\ wlock[c] = 0 /\ waitw[c] = {}
            /\ rlock' = [rlock EXCEPT ![c][p] = @ + 1]
            /\ pc' = [pc EXCEPT ![p] = @ + 1] /\ UNCHANGED <<prog, wlock, waitw>>
       [] op = "Unlock" ->
            /\ wlock' = [wlock EXCEPT ![c] = 0]
            /\ pc' = [pc EXCEPT ![p] = @ + 1] /\ UNCHANGED <<prog, rlock, waitw>>
       [] op = "RUnlock" ->
            /\ rlock' = [rlock EXCEPT ![c][p] = IF @ > 0 THEN @ - 1 ELSE 0]
            /\ pc' = [pc EXCEPT ![p] = @ + 1] /\ UNCHANGED <<prog, wlock, waitw>>

AllDone == \A p \in P : prog[p] # 0 /\ ~Running(p)
Finish == AllDone /\ UNCHANGED svars

SNext == (\E p \in P : Start(p) \/ Step(p)) \/ Finish
SSpec == SInit /\ [][SNext]_svars

\* every program releases what it acquired
Balanced == AllDone => /\ \A c \in Classes : wlock[c] = 0 /\ NoReaders(c)
=============================================================================
