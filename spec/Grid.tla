--------------------------------- MODULE Grid ---------------------------------
(***************************************************************************)
(* C20: the ground-plane index (modules/dagaz/grid_spatial_partition.go)   *)
(* on an integer lattice of ABSOLUTE cell coordinates.                     *)
(*                                                                         *)
(* A plane occupies a rectangle of cells [x0..x1] x [y0..y1]; `cells` maps *)
(* a cell to the planes registered in it.  Insertion grows the bounds,     *)
(* then either appends a new plane or merges into an existing one, whose   *)
(* rectangle moves from Old to New; mergeQuads updates the registrations   *)
(* edge by edge - MergeUpdate below is a transcription of its four loops.  *)
(***************************************************************************)
EXTENDS Integers, FiniteSets, TLC

Rect(x0, x1, y0, y1) == [x0 |-> x0, x1 |-> x1, y0 |-> y0, y1 |-> y1]
CellsOf(r) == {<<x, y>> : x \in r.x0..r.x1, y \in r.y0..r.y1}
Min2(a, b) == IF a < b THEN a ELSE b
Max2(a, b) == IF a > b THEN a ELSE b

\* mergeQuads: `reg` = cells where the plane is registered before (a set; duplicates are not modelled),
\* o = rectangle before, n = rectangle after the centre/extents moved
MergeUpdate(reg, o, n) ==
  LET expandLeft   == n.x0 < o.x0
      minMinX      == Min2(o.x0, n.x0)
      maxMinX      == Max2(o.x0, n.x0)
      expandRight  == ~(n.x1 < o.x1)
      minMaxX      == Min2(o.x1, n.x1)
      maxMaxX      == Max2(o.x1, n.x1)
      expandTop    == n.y0 < o.y0
      minMinY      == Min2(o.y0, n.y0)
      maxMinY      == Max2(o.y0, n.y0)
      expandBottom == ~(n.y1 < o.y1)
      minMaxY      == Min2(o.y1, n.y1)
      maxMaxY      == Max2(o.y1, n.y1)
      left   == {<<x, y>> : x \in minMinX..(maxMinX - 1), y \in minMinY..maxMaxY}
      right  == {<<x, y>> : x \in (minMaxX + 1)..maxMaxX, y \in minMinY..maxMaxY}
      top    == {<<x, y>> : x \in maxMinX..minMaxX, y \in minMinY..(maxMinY - 1)}
      bottom == {<<x, y>> : x \in maxMinX..minMaxX, y \in (minMaxY + 1)..maxMaxY}
      r1 == IF expandLeft THEN reg \cup left ELSE reg \ left
      r2 == IF expandRight THEN r1 \cup right ELSE r1 \ right
      r3 == IF expandTop THEN r2 \cup top ELSE r2 \ top
      r4 == IF expandBottom THEN r3 \cup bottom ELSE r3 \ bottom
  IN r4

(***************************************************************************)
(* Exhaustive check of the transcription: for every pair of rectangles on  *)
(* an N x N lattice, a plane registered exactly in CellsOf(old) ends up    *)
(* registered in every cell of CellsOf(new) (completeness) and in no cell  *)
(* outside the bounding box of both.                                       *)
(***************************************************************************)
CONSTANT N
VARIABLES o, n
gvars == <<o, n>>
Rects == {Rect(a, b, c, d) : a \in 0..N, b \in 0..N, c \in 0..N, d \in 0..N}
Valid(r) == r.x0 <= r.x1 /\ r.y0 <= r.y1
GInit == o \in {r \in Rects : Valid(r)} /\ n \in {r \in Rects : Valid(r)}
GNext == UNCHANGED gvars
GSpec == GInit /\ [][GNext]_gvars
MergeComplete == CellsOf(n) \subseteq MergeUpdate(CellsOf(o), o, n)
MergeBounded  == MergeUpdate(CellsOf(o), o, n) \subseteq CellsOf(Rect(Min2(o.x0, n.x0), Max2(o.x1, n.x1), Min2(o.y0, n.y0), Max2(o.y1, n.y1)))
=============================================================================
