----------------------------- MODULE ConnShutdown -----------------------------
(***************************************************************************)
(* Server shutdown seen from one connection: the PARENT context handed to  *)
(* handler.Handle (cmd/main.go: the process context) is cancelled while    *)
(* the connection is open.  Beyond the listed properties (C08 quantifies   *)
(* over CLIENT behaviour; a shutdown is an operator action), kept because  *)
(* it is behaviour of the same three goroutines and the specification is   *)
(* meant to say what the code does, deviations included.                   *)
(*                                                                         *)
(* What the code does (websocket/handler.go):                              *)
(*   - the main loop's `for ctx.Err() == nil` is left WITHOUT              *)
(*     handleDisconnect: the select may take `<-ctx.Done()` and queue an   *)
(*     error on disconnectChan, but the loop condition is false before the *)
(*     channel is read again.  Conn.Close and RealtimeHandler.             *)
(*     HandleDisconnect do not run: the participant stays in its session;  *)
(*   - the sender sees the context and returns;                            *)
(*   - the receiver looks at the context only BETWEEN two reads: blocked   *)
(*     in the socket read it stays there until the client sends a frame or *)
(*     goes away - nobody closes the socket, Handle waits in wg.Wait().    *)
(*                                                                         *)
(* ConnLife's receiver may leave "read" as soon as the context is          *)
(* cancelled (sound there: every cancellation in ConnLife comes with       *)
(* Conn.Close, which fails the read).  Here the receiver is refined with   *)
(* `insel`: TRUE at the select of startReceiving, FALSE inside the         *)
(* blocking read.                                                          *)
(***************************************************************************)
EXTENDS ConnLife

VARIABLES shut,    \* the parent context has been cancelled
          insel    \* receiver: at `select { case <-ctx.Done() ... default:` (TRUE) or inside h.receiver() (FALSE)
svars == <<ctx, dch, q, mpc, rpc, spc, sock, hd, sent, pend, shut, insel>>

SInit == CInit /\ shut = FALSE /\ insel = TRUE

\* the operator stops the server: the parent context is cancelled, nothing else happens at this instant
ParentCancel ==
  /\ ~shut /\ ctx = "live" /\ shut' = TRUE /\ ctx' = "cancelled"
  /\ UNCHANGED <<dch, q, mpc, rpc, spc, sock, hd, sent, pend, insel>>

\* the main loop takes `case <-ctx.Done(): h.disconnect(ctx.Err())` once more before the loop condition is evaluated
MainSeesDone ==
  /\ shut /\ mpc = "loop" /\ ctx = "cancelled" /\ Push
  /\ dch' = dch + 1
  /\ UNCHANGED <<ctx, q, mpc, rpc, spc, sock, hd, sent, pend, shut, insel>>

\* receiver, refined
SRecvEnters == /\ rpc = "read" /\ insel /\ ctx = "live" /\ insel' = FALSE
               /\ UNCHANGED <<ctx, dch, q, mpc, rpc, spc, sock, hd, sent, pend, shut>>
SRecvFrame(cls) == /\ ~insel /\ ClientSends(cls) /\ insel' = (rpc' = "read") /\ shut' = shut
SRecvUnblocksQueue == RecvUnblocksQueue /\ insel' = TRUE /\ shut' = shut
SRecvSeesClosed == /\ ~insel /\ RecvSeesClosed /\ UNCHANGED <<shut, insel>>
SRecvSeesCtx == /\ insel /\ RecvSeesCtx /\ UNCHANGED <<shut, insel>>
\* Dispatch(ctx, msg) of a frame read after the cancellation: the scheduler refuses it, disconnect, return
\* (abstracted: the frame is counted, the receiver ends; the error goes to disconnectChan if there is room)
SRecvAfterCancel ==
  /\ ~insel /\ rpc = "read" /\ ctx = "cancelled" /\ sock = "open" /\ sent < MaxFrames
  /\ sent' = sent + 1 /\ rpc' = "exit" /\ dch' = (IF Push THEN dch + 1 ELSE dch)
  /\ UNCHANGED <<ctx, q, mpc, spc, sock, hd, pend, shut, insel>>

Keep(A) == A /\ UNCHANGED <<shut, insel>>

SServer == SRecvEnters \/ SRecvUnblocksQueue \/ SRecvSeesClosed \/ SRecvSeesCtx \/ Keep(RecvUnblocks)
           \/ Keep(SendSeesCtx) \/ Keep(SendFails) \/ Keep(SendUnblocks) \/ Keep(SendDrainEnds)
           \/ Keep(MainPops) \/ (\E res \in {"ok", "bad"} : Keep(MainFinishes(res))) \/ Keep(MainDisconnects)
           \/ Keep(MainLeavesLoop) \/ Keep(MainDrains) \/ Keep(MainReturns) \/ MainSeesDone
SClient == (\E cls \in {"f", "junk"} : (ctx = "live" /\ SRecvFrame(cls))) \/ SRecvAfterCancel \/ Keep(ClientCloses)
SNext == SServer \/ SClient \/ ParentCancel \/ (Done /\ UNCHANGED <<shut, insel>>)

SSpec == SInit /\ [][SNext]_svars /\ WF_svars(SServer)

(***************************************************************************)
(* What holds, and what does not                                           *)
(***************************************************************************)
\* holds: the departure path never runs twice, nothing blocks on disconnectChan
S_AtMostOnce == hd <= 1
S_NeverStuck == NeverStuck
\* holds: without a shutdown the refinement changes nothing (ConnLife's guarantee)
S_ReturnedMeansDisconnectedUnlessShut == (mpc = "done" /\ ~shut) => hd = 1
\* holds: a shutdown never RUNS the departure path afterwards (the loop is left first)
S_NoDepartureAfterShutdown == [][shut => hd' = hd]_svars
\* holds: once the client is gone (or sends anything) after the shutdown, Handle returns
S_ReturnsOnceClientActs == (shut /\ (sock # "open" \/ rpc = "exit")) ~> (mpc = "done")

\* REFUTED (deviation D22, named): the departure path is skipped - Handle can return with hd = 0
S_ReturnedMeansDisconnected == mpc = "done" => hd = 1
\* REFUTED (deviation D23, named): with a client that stays connected and silent Handle never returns
S_ShutdownReturns == shut ~> (mpc = "done")
=============================================================================
