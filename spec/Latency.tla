------------------------------- MODULE Latency -------------------------------
(***************************************************************************)
(* The signed latency measurement of one joined participant                *)
(* (models/signed_latency.go + HandleSignedLatency / HandlePingResponse).  *)
(*                                                                         *)
(* A measurement of n rounds: the server issues one ping at a time; the    *)
(* client answers it; after n answers one signed response is sent.  A ping *)
(* response naming an id that is not outstanding - unknown, answered       *)
(* before, or after completion - is refused and advances nothing (C18).    *)
(* Latencies are whole microseconds (the harness drives a virtual clock).  *)
(***************************************************************************)
EXTENDS Integers, Sequences, FiniteSets, TLC

Idle == [n |-> 0, left |-> 0, open |-> {}, ans |-> <<>>, rid |-> 0, wallet |-> "", next |-> 0, order |-> <<>>]

Put(f, k, v) == [x \in (DOMAIN f) \cup {k} |-> IF x = k THEN v ELSE f[x]]
MinS(S) == CHOOSE x \in S : \A y \in S : x <= y
MaxS(S) == CHOOSE x \in S : \A y \in S : y <= x
RECURSIVE SumF(_, _)
SumF(f, D) == IF D = {} THEN 0 ELSE LET k == CHOOSE x \in D : TRUE IN f[k] + SumF(f, D \ {k})
RECURSIVE SortedVals(_, _)
SortedVals(f, D) ==   \* the values of f over D, ascending, with multiplicity
  IF D = {} THEN <<>>
  ELSE LET k == CHOOSE x \in D : \A y \in D : f[x] <= f[y] IN <<f[k]>> \o SortedVals(f, D \ {k})

\* round half away from zero of a / b for a >= 0, b > 0  (math.Round)
RoundDiv(a, b) == (2 * a + b) \div (2 * b)

Stats(ans, order) ==
  LET D == DOMAIN ans
      n == Cardinality(D)
      srt == SortedVals(ans, D)
      idx == (n * 95) \div 100
  IN [ min  |-> MinS({ans[k] : k \in D}),
       max  |-> MaxS({ans[k] : k \in D}),
       mean |-> RoundDiv(SumF(ans, D), n),
       p95  |-> IF idx > 0 /\ idx < n THEN srt[idx] ELSE 0,
       last |-> ans[order[Len(order)]],       \* the latency of the final round
       n    |-> n, ids |-> D ]

Consistent(s) == /\ 0 <= s.min /\ s.min <= s.mean /\ s.mean <= s.max
                 /\ s.min <= s.p95 /\ s.p95 <= s.max /\ s.min <= s.last /\ s.last <= s.max

\* outcomes: [st, out] where out is the sequence of messages sent to the client
StartOf(st, rid, n, wallet, nextPing) ==
  IF n < 3 \/ n > 50 \/ wallet = "" THEN [st |-> st, out |-> <<[t |-> "ERROR", rid |-> rid, code |-> 400]>>]
  ELSE [st |-> [n |-> n, left |-> n, open |-> {nextPing}, ans |-> <<>>, rid |-> rid, wallet |-> wallet,
                next |-> nextPing, order |-> <<>>],
        out |-> <<[t |-> "PING_REQUEST", rid |-> nextPing]>>]

OnPingOf(st, id, lat, nextPing) ==
  IF id \notin st.open
  THEN [st |-> st, out |-> <<[t |-> "ERROR", rid |-> id, code |-> 500]>>]
  ELSE LET ans1 == Put(st.ans, id, lat)
           ord1 == Append(st.order, id)
       IN IF st.left > 1
          THEN [st |-> [st EXCEPT !.left = @ - 1, !.open = {nextPing}, !.ans = ans1, !.order = ord1, !.next = nextPing],
                out |-> <<[t |-> "PING_REQUEST", rid |-> nextPing]>>]
          ELSE [st |-> [st EXCEPT !.left = 0, !.open = {}, !.ans = ans1, !.order = ord1],
                out |-> <<[t |-> "SIGNED_LATENCY_RESPONSE", rid |-> st.rid, stats |-> Stats(ans1, ord1), wallet |-> st.wallet]>>]

(***************************************************************************)
(* Exhaustive model: all orders of answers incl. unknown / answered /      *)
(* replayed ids and restarts, latencies from Lats, round counts from Ns    *)
(***************************************************************************)
CONSTANTS Ns, Lats, MaxSteps
VARIABLES st, out, steps, issued
lvars == <<st, out, steps, issued>>

LInit == st = Idle /\ out = <<>> /\ steps = 0 /\ issued = 0

LStart == /\ steps < MaxSteps
          /\ \E n \in Ns, w \in {"", "w"} :
               LET o == StartOf(st, 7, n, w, issued + 1) IN
               /\ st' = o.st /\ out' = o.out
               /\ issued' = IF o.out[1].t = "PING_REQUEST" THEN issued + 1 ELSE issued
          /\ steps' = steps + 1

LAnswer == /\ steps < MaxSteps
           /\ \E id \in 0..issued, lat \in Lats :
                LET o == OnPingOf(st, id, lat, issued + 1) IN
                /\ st' = o.st /\ out' = o.out
                /\ issued' = IF o.out[1].t = "PING_REQUEST" THEN issued + 1 ELSE issued
           /\ steps' = steps + 1

LNext == LStart \/ LAnswer
LSpec == LInit /\ [][LNext]_lvars

\* C18 on the model
CompletesWithN == (out # <<>> /\ out[1].t = "SIGNED_LATENCY_RESPONSE") =>
                     /\ out[1].stats.n = st.n /\ Cardinality(out[1].stats.ids) = st.n
                     /\ Consistent(out[1].stats)
                     /\ out[1].stats.last = st.ans[st.order[Len(st.order)]]
OneOutstanding == Cardinality(st.open) <= 1
LeftMatches    == st.left + Cardinality(DOMAIN st.ans) = st.n
RefusalInert   == [][(out' # <<>> /\ out'[1].t = "ERROR") => st' = st]_lvars
ExactlyNRounds == st.left = 0 => Cardinality(DOMAIN st.ans) = st.n
=============================================================================
