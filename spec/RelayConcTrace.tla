--------------------------- MODULE RelayConcTrace ---------------------------
(***************************************************************************)
(* Trace validation for RelayConc: a run of the real handlers under the    *)
(* cooperative scheduler (harness l1m) is a behaviour of RelayConc.        *)
(*                                                                         *)
(* The harness logs, per phase, the sequence of decisions <connection,     *)
(* Lock/RLock call it was released into>, and at the end of the phase what *)
(* every connection was sent and the state of the real objects.  Events:   *)
(*   reset  - a new world, with the program                                *)
(*   step   - connection c was released into the call labelled lbl         *)
(*   phase  - all requests of the phase have returned: outputs and state   *)
(* A step is the specification's step of that connection when the label is *)
(* the call its location waits for; a label without location (Unmodelled)  *)
(* is a stuttering step; anything else has no successor and the trace is   *)
(* rejected.  Identifier choices the code makes from Go map iteration are  *)
(* left to TLC; the phase event prunes by the logged state.                *)
(* The invariants of RelayConc are evaluated in every state of the trace.  *)
(***************************************************************************)
EXTENDS RelayConc, Json, IOUtils

Trace == ndJsonDeserialize(IOEnv.VERIF_TRACE)

VARIABLE l

tvars == <<vars, l>>

ToSet(s) == {s[i] : i \in 1..Len(s)}

Ev == Trace[l]
IsEv(e) == l <= Len(Trace) /\ Ev.ev = e /\ l' = l + 1

\* the requests of a phase begin together (Begin of every connection that has one)
HasReq(p, c)  == p[c] # <<>> /\ Head(p[c]).k # "Barrier"
BeginAll(p) ==
  /\ prog' = [c \in Conns |-> IF HasReq(p, c) THEN Tail(p[c]) ELSE p[c]]
  /\ pc'   = [c \in Conns |-> IF HasReq(p, c) THEN "start" ELSE "idle"]
  /\ loc'  = [c \in Conns |-> IF HasReq(p, c) THEN [NoLoc EXCEPT !.req = Head(p[c]), !.rid = Head(p[c]).rid] ELSE NoLoc]

ProgOf(e) == [c \in Conns |-> e.prog[c]]

TraceInit ==
  /\ l = 1
  /\ reg = Empty /\ sidgen = NewGen /\ gauge = 0 /\ objs = <<>> /\ mst = <<>>
  /\ conn = [c \in Conns |-> [sess |-> 0, pid |-> 0, own |-> {}, fid |-> 0, ms |-> 0]]
  /\ pc = [c \in Conns |-> "idle"]
  /\ loc = [c \in Conns |-> NoLoc]
  /\ held = [c \in Conns |-> {}]
  /\ out = [c \in Conns |-> <<>>]
  /\ prog = [c \in Conns |-> <<>>]

ResetEv ==
  /\ IsEv("reset")
  /\ reg' = Empty /\ sidgen' = NewGen /\ gauge' = 0 /\ objs' = <<>> /\ mst' = <<>>
  /\ conn' = [c \in Conns |-> [sess |-> 0, pid |-> 0, own |-> {}, fid |-> 0, ms |-> 0]]
  /\ held' = [c \in Conns |-> {}]
  /\ out' = [c \in Conns |-> <<>>]
  /\ BeginAll(ProgOf(Ev))

StepEv ==
  /\ IsEv("step")
  /\ LET c == Ev.c IN
     /\ c \in Conns /\ ~Idle(c)
     /\ IF GateOf(c).fn = Ev.lbl
        THEN CanAcquire(c) /\ Body(c) /\ prog' = prog
        ELSE Ev.lbl \in Unmodelled /\ UNCHANGED vars

(***************************************************************************)
(* what the harness saw at the end of a phase                              *)
(***************************************************************************)
NormMsg(m) == IF m.t = "SESSION_STATE" THEN [m EXCEPT !.parts = ToSet(@), !.ents = ToSet(@)]
              ELSE IF m.t = "VIKJA_STATE" THEN [m EXCEPT !.acts = ToSet(@)]
              ELSE m
NormOut(s) == [i \in 1..Len(s) |-> NormMsg(s[i])]

SessView(sid) ==
  LET s == reg[sid] IN
  [sid |-> sid, pcur |-> objs[s].pgen.cur, ecur |-> objs[s].egen.cur, fh |-> Cardinality(DOMAIN objs[s].fh),
   mem  |-> {<<p, objs[s].parts[p]>> : p \in DOMAIN objs[s].parts},
   ents |-> {<<e, objs[s].ents[e].owner, IF objs[s].ents[e].persist THEN 1 ELSE 0>> : e \in DOMAIN objs[s].ents},
   acts |-> IF Vikja /\ objs[s].ms # 0 THEN {<<e, mst[objs[s].ms][e]>> : e \in DOMAIN mst[objs[s].ms]} ELSE {}]
LoggedSess(r) == [sid |-> r.sid, pcur |-> r.pcur, ecur |-> r.ecur, fh |-> r.fh,
                  mem |-> ToSet(r.mem), ents |-> ToSet(r.ents), acts |-> ToSet(r.acts)]

ConnView(c) == <<c, IF conn[c].sess = 0 THEN 0 ELSE objs[conn[c].sess].id, conn[c].pid, conn[c].own>>
LoggedConn(r) == <<r[1], r[2], r[3], ToSet(r[4])>>

Matches(e) ==
  /\ \A c \in Conns : Idle(c)
  /\ sidgen.cur = e.cur /\ sidgen.free = ToSet(e.free) /\ gauge = e.gauge
  /\ {SessView(sid) : sid \in DOMAIN reg} = {LoggedSess(r) : r \in ToSet(e.sess)}
  /\ {ConnView(c) : c \in Conns} = {LoggedConn(r) : r \in ToSet(e.conns)}
  /\ \A c \in Conns : out[c] = NormOut(e.outs[c])

\* a connection whose request was refused as "session not joined" is closed by the server: nothing follows
PopBarrier(p) == [c \in Conns |-> IF p[c] # <<>> /\ Head(p[c]).k = "Barrier" THEN Tail(p[c]) ELSE p[c]]

PhaseEv ==
  /\ IsEv("phase")
  /\ Matches(Ev)
  /\ UNCHANGED <<reg, sidgen, gauge, objs, mst, conn, held, out>>
  /\ BeginAll(PopBarrier(prog))

TraceNext == ResetEv \/ StepEv \/ PhaseEv

TraceSpec == TraceInit /\ [][TraceNext]_tvars

TraceAccepted == TLCGet("stats").diameter - 1 = Len(Trace)

=============================================================================
