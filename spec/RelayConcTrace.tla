--------------------------- MODULE RelayConcTrace ---------------------------
(***************************************************************************)
(* Trace validation for RelayConc: a run of the real handlers under the    *)
(* cooperative scheduler (harness l1m) is a behaviour of RelayConc.        *)
(*                                                                         *)
(* The harness logs, per phase, the sequence of decisions <connection,     *)
(* Lock/RLock call it was released into>, and at the end of the phase what *)
(* every connection was sent and the state of the real objects.  Events:   *)
(*   reset  - a new world, with the program                                *)
(*   step   - connection c was released into the call labelled lbl         *)
(*   phase  - all requests of the phase have returned: outputs and state   *)
(* A step is the specification's step of that connection when the label is *)
(* the call its location waits for; a label without location (Unmodelled)  *)
(* is a stuttering step.  Identifier choices the code makes from Go map    *)
(* iteration are left to TLC; the phase event prunes by the logged state.  *)
(*                                                                         *)
(* Two kinds of verdict are kept apart:                                    *)
(*  - conformance: when no branch can take an event, the run is `lost`     *)
(*    until the next reset (the specification does not describe what the   *)
(*    code did: reported as such, not as a violation of a property);       *)
(*  - properties: the L_* invariants are predicates of the LOGGED outputs  *)
(*    and state only, so they judge the real execution whether or not the  *)
(*    specification explains it; the model-state invariants of RelayConc   *)
(*    are evaluated while the run is not lost.                             *)
(***************************************************************************)
EXTENDS RelayConc, Json, IOUtils

Trace == ndJsonDeserialize(IOEnv.VERIF_TRACE)

VARIABLES l,      \* next event
          lost    \* the specification lost track of the current run

tvars == <<vars, l, lost>>

ToSet(s) == {s[i] : i \in 1..Len(s)}

Ev == Trace[l]
IsEv(e) == l <= Len(Trace) /\ Ev.ev = e /\ l' = l + 1

\* the requests of a phase begin together (Begin of every connection that has one)
HasReq(p, c)  == p[c] # <<>> /\ Head(p[c]).k # "Barrier"
BeginAll(p) ==
  /\ prog' = [c \in Conns |-> IF HasReq(p, c) THEN Tail(p[c]) ELSE p[c]]
  /\ pc'   = [c \in Conns |-> IF HasReq(p, c) THEN "start" ELSE "idle"]
  /\ loc'  = [c \in Conns |-> IF HasReq(p, c) THEN [NoLoc EXCEPT !.req = Head(p[c]), !.rid = Head(p[c]).rid] ELSE NoLoc]

ProgOf(e) == [c \in Conns |-> e.prog[c]]

TraceInit ==
  /\ l = 1 /\ lost = FALSE
  /\ reg = Empty /\ sidgen = NewGen /\ gauge = 0 /\ objs = <<>> /\ mst = <<>>
  /\ conn = [c \in Conns |-> [sess |-> 0, pid |-> 0, own |-> {}, fid |-> 0, ms |-> 0]]
  /\ pc = [c \in Conns |-> "idle"]
  /\ loc = [c \in Conns |-> NoLoc]
  /\ held = [c \in Conns |-> {}]
  /\ out = [c \in Conns |-> <<>>]
  /\ prog = [c \in Conns |-> <<>>]

ResetEv ==
  /\ IsEv("reset")
  /\ lost' = FALSE
  /\ reg' = Empty /\ sidgen' = NewGen /\ gauge' = 0 /\ objs' = <<>> /\ mst' = <<>>
  /\ conn' = [c \in Conns |-> [sess |-> 0, pid |-> 0, own |-> {}, fid |-> 0, ms |-> 0]]
  /\ held' = [c \in Conns |-> {}]
  /\ out' = [c \in Conns |-> <<>>]
  /\ BeginAll(ProgOf(Ev))

StepOk ==
  LET c == Ev.c IN
  /\ c \in Conns /\ ~Idle(c)
  /\ IF GateOf(c).fn = Ev.lbl
     THEN CanAcquire(c) /\ Body(c) /\ prog' = prog
     ELSE Ev.lbl \in Unmodelled /\ UNCHANGED vars

StepEv == IsEv("step") /\ ~lost /\ StepOk /\ lost' = lost

(***************************************************************************)
(* what the harness saw at the end of a phase                              *)
(***************************************************************************)
NormMsg(m) == IF m.t = "SESSION_STATE" THEN [m EXCEPT !.parts = ToSet(@), !.ents = ToSet(@)]
              ELSE IF m.t \in {"VIKJA_STATE", "ODAL_STATE"} THEN [m EXCEPT !.acts = ToSet(@)]
              ELSE m
NormOut(s) == [i \in 1..Len(s) |-> NormMsg(s[i])]

SessView(sid) ==
  LET s == reg[sid] IN
  [sid |-> sid, pcur |-> objs[s].pgen.cur, ecur |-> objs[s].egen.cur, fh |-> Cardinality(DOMAIN objs[s].fh),
   mem  |-> {<<p, objs[s].parts[p]>> : p \in DOMAIN objs[s].parts},
   ents |-> {<<e, objs[s].ents[e].owner, IF objs[s].ents[e].persist THEN 1 ELSE 0>> : e \in DOMAIN objs[s].ents},
   acts |-> IF HasMod /\ objs[s].ms # 0 THEN {<<e, mst[objs[s].ms][e]>> : e \in (DOMAIN mst[objs[s].ms]) \ {0}} ELSE {}]
LoggedSess(r) == [sid |-> r.sid, pcur |-> r.pcur, ecur |-> r.ecur, fh |-> r.fh,
                  mem |-> ToSet(r.mem), ents |-> ToSet(r.ents), acts |-> ToSet(r.acts)]

ConnView(c) == <<c, IF conn[c].sess = 0 THEN 0 ELSE objs[conn[c].sess].id, conn[c].pid, conn[c].own>>
LoggedConn(r) == <<r[1], r[2], r[3], ToSet(r[4])>>

Matches(e) ==
  /\ \A c \in Conns : Idle(c)
  /\ sidgen.cur = e.cur /\ sidgen.free = ToSet(e.free) /\ gauge = e.gauge
  /\ {SessView(sid) : sid \in DOMAIN reg} = {LoggedSess(r) : r \in ToSet(e.sess)}
  /\ {ConnView(c) : c \in Conns} = {LoggedConn(r) : r \in ToSet(e.conns)}
  /\ \A c \in Conns : out[c] = NormOut(e.outs[c])

PopBarrier(p) == [c \in Conns |-> IF p[c] # <<>> /\ Head(p[c]).k = "Barrier" THEN Tail(p[c]) ELSE p[c]]

PhaseOk ==
  /\ Matches(Ev)
  /\ UNCHANGED <<reg, sidgen, gauge, objs, mst, conn, held, out>>
  /\ BeginAll(PopBarrier(prog))

PhaseEv == IsEv("phase") /\ ~lost /\ PhaseOk /\ lost' = lost
                         /\ (Ev.last => PrintT(<<"EXPLAINED", Ev.cid>>))

\* no branch explains the event: the run is lost until the next reset
LoseEv ==
  /\ l <= Len(Trace) /\ Ev.ev \in {"step", "phase"} /\ l' = l + 1
  /\ \/ lost
     \/ /\ Ev.ev = "step" /\ ~ENABLED StepOk
     \/ /\ Ev.ev = "phase" /\ ~ENABLED PhaseOk
  /\ (~lost => PrintT(<<"LOST", Ev.cid, l, Ev.ev>>))
  /\ lost' = TRUE
  /\ UNCHANGED vars

TraceNext == ResetEv \/ StepEv \/ PhaseEv \/ LoseEv

TraceSpec == TraceInit /\ [][TraceNext]_tvars

TraceAccepted == TLCGet("stats").diameter - 1 = Len(Trace)

(***************************************************************************)
(* Properties of the logged execution (independent of the model state)     *)
(***************************************************************************)
AfterPhase == l > 1 /\ Trace[l - 1].ev = "phase"
Lg         == Trace[l - 1]

LOuts(e, c)  == NormOut(e.outs[c])
LConnRow(e, c) == CHOOSE r \in ToSet(e.conns) : r[1] = c
LSessOf(e, c) == LET sid == LConnRow(e, c)[2] IN
                 IF \E r \in ToSet(e.sess) : r.sid = sid THEN {CHOOSE r \in ToSet(e.sess) : r.sid = sid} ELSE {}

\* C07 / C10 / C11, structure at rest: sessions found in the registry have members, nobody is in a session that
\* is not the one registered under its id, one frame worker and one frame handler per member, gauge = registry
L_Lifecycle ==
  AfterPhase =>
    /\ \A r \in ToSet(Lg.sess) : Len(r.mem) >= 1
    /\ Lg.gauge = Len(Lg.sess)
    /\ Lg.dead = <<>>
    /\ Lg.orphans = <<>>
    /\ \A c \in Conns : LConnRow(Lg, c)[3] # 0 =>
         \E r \in ToSet(Lg.sess) : r.sid = LConnRow(Lg, c)[2] /\ <<LConnRow(Lg, c)[3], c>> \in ToSet(r.mem)
    /\ \A r \in ToSet(Lg.sess) : \A m \in ToSet(r.mem) : m[2] \in Conns /\ LConnRow(Lg, m[2])[2] = r.sid /\ LConnRow(Lg, m[2])[3] = m[1]
\* (.. and the frame ticker of a registered session runs: a session whose frames have stopped relays no update ever again)
L_FrameHandlers == AfterPhase => \A r \in ToSet(Lg.sess) : r.fh = Len(r.mem) /\ r.ticking = 1
L_SidSource     == AfterPhase => /\ \A r \in ToSet(Lg.sess) : r.sid \notin ToSet(Lg.free) /\ r.sid <= Lg.cur
                                 /\ \A r1, r2 \in ToSet(Lg.sess) : r1.sid = r2.sid => r1 = r2

\* C01: convergence of every member's replica with the logged state of its session
LConvBody(e) ==
  \A c \in Conns : LConnRow(e, c)[3] # 0 =>
    \A S \in LSessOf(e, c) :
      LET r == Fold([me |-> 0, P |-> {}, E |-> {}, A |-> {}, snap |-> FALSE], LOuts(e, c)) IN
      /\ r.P = {m[1] : m \in ToSet(S.mem)}
      /\ r.E = {[id |-> x[1], owner |-> x[2]] : x \in ToSet(S.ents)}
      /\ (HasMod => r.A = {[eid |-> a[1], v |-> a[2]] : a \in ToSet(S.acts)})

LD9(e)  == \E c \in Conns : RelayBeforeSnapshot(LOuts(e, c), FALSE)
LD13(e) == e.setters >= 2
LD15(e) == \E c \in Conns : StaleModuleState(LOuts(e, c), {})
LD16(e) == \E c \in Conns : Inapplicable(LOuts(e, c), {}, FALSE)
LD17(e) == \E c \in Conns : OlderAfterNewer(LOuts(e, c), Empty)
LD18(e) == \E r \in ToSet(e.sess) : \E a \in ToSet(r.acts) : a[1] \notin {x[1] : x \in ToSet(r.ents)}

\* convergence fails only in the listed ways; each failure is reported with its symptoms
L_Conv ==
  AfterPhase =>
    \/ LConvBody(Lg)
    \/ /\ PrintT(<<"DIVERGED", Lg.cid, LD9(Lg), LD13(Lg), LD15(Lg), LD16(Lg), LD17(Lg), LD18(Lg)>>)
       /\ (LD9(Lg) \/ LD13(Lg) \/ LD15(Lg) \/ LD16(Lg) \/ LD17(Lg) \/ LD18(Lg))

\* C02 (schedules): with respect to the members that are in the session throughout the phase, every accepted
\* change of another connection is relayed exactly once
Count(sq, P(_)) == Cardinality({i \in DOMAIN sq : P(sq[i])})
HasMsg(sq, t)   == \E i \in DOMAIN sq : sq[i].t = t
FirstMsg(sq, t) == sq[CHOOSE i \in DOMAIN sq : sq[i].t = t /\ \A j \in DOMAIN sq : sq[j].t = t => i <= j]
PreRow(e, c)    == CHOOSE r \in ToSet(e.pre) : r[1] = c
ReqKind(e, c)   == IF \E q \in ToSet(e.reqs) : q[1] = c THEN (CHOOSE q \in ToSet(e.reqs) : q[1] = c)[2].k ELSE "none"
L_RelayOnce ==
  AfterPhase =>
    \A d \in Conns :
      LET b == PreRow(Lg, d)  a == LConnRow(Lg, d)  od == NormOut(Lg.douts[d]) IN
      (b[3] # 0 /\ b[2] = a[2] /\ b[3] = a[3] /\ ReqKind(Lg, d) \notin {"Join", "Disc"}) =>
        /\ \A q \in ToSet(Lg.reqs) :
             LET c == q[1]  rq == q[2]  oc == NormOut(Lg.douts[c])  bc == PreRow(Lg, c) IN
             c # d =>
               /\ (rq.k = "EntityAdd" /\ bc[2] = b[2] /\ bc[3] # 0 /\ HasMsg(oc, "ENTITY_ADD_RESPONSE")) =>
                     Count(od, LAMBDA m : m.t = "ENTITY_ADD_BROADCAST" /\ m.eid = FirstMsg(oc, "ENTITY_ADD_RESPONSE").eid) = 1
               /\ (rq.k = "EntityDelete" /\ bc[2] = b[2] /\ bc[3] # 0 /\ HasMsg(oc, "ENTITY_DELETE_RESPONSE")) =>
                     Count(od, LAMBDA m : m.t = "ENTITY_DELETE_BROADCAST" /\ m.eid = rq.eid) = 1
               /\ (rq.k = "Join" /\ HasMsg(oc, "JOIN_RESPONSE") /\ FirstMsg(oc, "JOIN_RESPONSE").sid = b[2]) =>
                     Count(od, LAMBDA m : m.t = "JOIN_BROADCAST" /\ m.pid = FirstMsg(oc, "JOIN_RESPONSE").pid) = 1
               \* (two members may send the very same action in one phase: their relays cannot be told apart, so
               \*  the count is compared with the number of such accepted requests of the others)
               /\ (rq.k = "Action" /\ bc[2] = b[2] /\ bc[3] # 0 /\ HasMsg(oc, "ACTION_RESPONSE")) =>
                     Count(od, LAMBDA m : m.t = "ACTION_BROADCAST" /\ m.eid = rq.eid /\ m.v = rq.v) =
                       Cardinality({q2 \in ToSet(Lg.reqs) : /\ q2[1] # d /\ q2[2].k = "Action" /\ q2[2].eid = rq.eid /\ q2[2].v = rq.v
                                                             /\ PreRow(Lg, q2[1])[2] = b[2] /\ PreRow(Lg, q2[1])[3] # 0
                                                             /\ HasMsg(NormOut(Lg.douts[q2[1]]), "ACTION_RESPONSE")})
               /\ (rq.k = "AssetAdd" /\ bc[2] = b[2] /\ bc[3] # 0 /\ HasMsg(oc, "ASSET_ADD_RESPONSE")) =>
                     Count(od, LAMBDA m : m.t = "ASSET_ADD_BROADCAST" /\ m.eid = rq.eid /\ m.v = FirstMsg(oc, "ASSET_ADD_RESPONSE").v) = 1
        \* departures (by disconnect or by joining elsewhere) of connections that were in d's session
        /\ \A c \in Conns \ {d} :
             LET bc == PreRow(Lg, c)  ac == LConnRow(Lg, c) IN
             (bc[3] # 0 /\ bc[2] = b[2] /\ (ac[2] # bc[2] \/ ac[3] # bc[3])) =>
                Count(od, LAMBDA m : m.t = "LEAVE_BROADCAST" /\ m.pid = bc[3]) = 1
        \* nothing is relayed twice, nothing comes back to its cause
        /\ \A i, j \in DOMAIN od : (i < j /\ od[i] = od[j]) => od[i].t \notin (Relays \ {"ACTION_BROADCAST"})

\* the model-state invariants of RelayConc, while the specification explains the run
M_Inv == ~lost => NoOrphan /\ SidUnique /\ SidSource /\ NoLockLeft /\ OwnSane
=============================================================================
