-------------------------------- MODULE IdGen --------------------------------
(***************************************************************************)
(* models.SequentialIDGenerator: New hands out any released id, else the   *)
(* next one; Reuse marks an id as released.  Used for session ids (with    *)
(* Reuse), participant / entity / type / asset ids (never released) and    *)
(* frame-handler ids.                                                      *)
(*                                                                         *)
(* C10: New never returns an id that is currently held, for every sequence *)
(* of New and Reuse-of-a-held-id.  `held` is a ghost.                      *)
(***************************************************************************)
EXTENDS Integers, FiniteSets, Sequences

CONSTANTS MaxOps, MaxHeld

VARIABLES cur, free, held, last, n
ivars == <<cur, free, held, last, n>>

NewOutcomes(c, f) ==     \* the set of (id, cur', free') New may produce
  IF f # {} THEN {[id |-> i, cur |-> c, free |-> f \ {i}] : i \in f}
  ELSE {[id |-> c + 1, cur |-> c + 1, free |-> f]}

ReuseOutcome(c, f, i) == [cur |-> c, free |-> f \cup {i}]

IInit == cur = 0 /\ free = {} /\ held = {} /\ last = [op |-> "init", id |-> 0] /\ n = 0

INew == /\ n < MaxOps /\ Cardinality(held) < MaxHeld
        /\ \E o \in NewOutcomes(cur, free) :
             /\ cur' = o.cur /\ free' = o.free /\ held' = held \cup {o.id}
             /\ last' = [op |-> "New", id |-> o.id, fresh |-> o.id \notin held]
        /\ n' = n + 1

IReuse == /\ n < MaxOps
          /\ \E i \in held :
               /\ cur' = cur /\ free' = free \cup {i} /\ held' = held \ {i}
               /\ last' = [op |-> "Reuse", id |-> i, fresh |-> TRUE]
          /\ n' = n + 1

\* the double release that a racing pair of last departures produces (D8): the id
\* is released again after somebody else re-acquired it
IDoubleReuse == /\ n < MaxOps
                /\ \E i \in held :
                     /\ cur' = cur /\ free' = free \cup {i} /\ held' = held   \* still held by the new owner
                     /\ last' = [op |-> "DoubleReuse", id |-> i, fresh |-> TRUE]
                /\ n' = n + 1

INext == INew \/ IReuse
ISpec == IInit /\ [][INext]_ivars
INextBad == INew \/ IReuse \/ IDoubleReuse
ISpecBad == IInit /\ [][INextBad]_ivars

NeverReissuesHeld == last.op = "New" => last.fresh
Disjoint   == held \cap free = {}
Accounted  == held \cup free = 1..cur
=============================================================================
