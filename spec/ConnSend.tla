------------------------------- MODULE ConnSend -------------------------------
(***************************************************************************)
(* The send path of a connection (websocket/handler.go: sendChan, the      *)
(* sender goroutine and its deferred drain) together with what feeds it:   *)
(* the connection's own main loop (responses, sync clock) and the main     *)
(* loops of OTHER connections, which push relays into this connection's    *)
(* sendChan while they hold the session's participant read lock            *)
(* (Session.Broadcast -> Responder.SendMsg).                               *)
(*                                                                         *)
(* Scenario: the client of connection A stops reading (its TCP buffers are *)
(* full, the sender is stuck in a write), a peer B keeps relaying to the   *)
(* session, then A's connection is reset.  Question (C08, C09): does A's   *)
(* handler return, is A removed from the session, does B get on?           *)
(*                                                                         *)
(* The answer rests on two things the model makes explicit:                *)
(*   - how the sender empties sendChan when it stops (constant Drain);     *)
(*   - sync.RWMutex prefers a waiting writer: once A's RemoveParticipant   *)
(*     waits for the lock, B's next Broadcast cannot start, and a          *)
(*     Broadcast in flight needs ONE free slot in A's queue to finish.     *)
(***************************************************************************)
EXTENDS Integers, TLC

CONSTANTS S,             \* capacity of sendChan (512 in the code)
          N,             \* relays the peer still wants to send
          Resets,        \* BOOLEAN: the stalled client's connection is reset in the end (FALSE: it stays open and stalled for ever)
          Deadline,      \* BOOLEAN: the sender gives the client a bounded time to take a message (SetWriteDeadline before a write)
          Drain          \* how the sender empties sendChan when it stops sending:
                         \*   "cancel"  only when it stops because the context is cancelled, not when a write failed
                         \*   "once"    on every exit, until the queue is seen empty once (deferred loop)
                         \*   "until"   on every exit, and it keeps emptying the queue until the context is cancelled

VARIABLES sq,     \* messages in A's sendChan
          spc,    \* A's sender: "idle" | "write" (stuck in a write to the stalled client) | "drain" | "exit"
          sock,   \* A's socket: "stalled" | "reset" | "closed"
          mpc,    \* A's main loop: "loop" | "push" (blocked in h.send: sync clock / response) | "close" (inside Conn.Close, which
                  \*               writes a close frame under the connection's write lock) | "lock" (RemoveParticipant waits
                  \*               for the participant lock) | "cancel" | "wait" | "done"
          dch,    \* a disconnect request is pending
          ctx,    \* "live" | "cancelled"
          bpc,    \* the peer's main loop: "idle" | "in" (inside Broadcast, read lock held) | "push" (blocked on A's full queue,
                  \*                       read lock held)
          member, \* A is still in Session.participants
          left    \* relays the peer has not sent yet

vars == <<sq, spc, sock, mpc, dch, ctx, bpc, member, left>>

Init == /\ sq = 0 /\ spc = "idle" /\ sock = "stalled" /\ mpc = "loop" /\ dch = FALSE /\ ctx = "live"
        /\ bpc = "idle" /\ member = TRUE /\ left = N

WriterWaiting == mpc = "lock"

(* the peer *)
B_Start   == /\ bpc = "idle" /\ left > 0 /\ ~WriterWaiting          \* RLock: not while a writer waits
             /\ bpc' = "in" /\ UNCHANGED <<sq, spc, sock, mpc, dch, ctx, member, left>>
B_Send    == /\ bpc = "in"
             /\ IF ~member THEN bpc' = "idle" /\ left' = left - 1 /\ sq' = sq
                ELSE IF sq < S THEN sq' = sq + 1 /\ bpc' = "idle" /\ left' = left - 1
                ELSE bpc' = "push" /\ UNCHANGED <<sq, left>>
             /\ UNCHANGED <<spc, sock, mpc, dch, ctx, member>>
B_Unblock == /\ bpc = "push" /\ sq < S
             /\ sq' = sq + 1 /\ bpc' = "idle" /\ left' = left - 1
             /\ UNCHANGED <<spc, sock, mpc, dch, ctx, member>>

(* A's sender goroutine *)
S_Take      == /\ spc = "idle" /\ ctx = "live" /\ sq > 0
               /\ sq' = sq - 1 /\ spc' = "write" /\ UNCHANGED <<sock, mpc, dch, ctx, bpc, member, left>>
S_WriteFail == /\ spc = "write" /\ sock # "stalled"                   \* the stuck write fails once the connection is gone
               /\ dch' = TRUE                                         \* h.disconnect(err): non-blocking
               /\ spc' = IF Drain = "cancel" THEN "exit" ELSE "drain"
               /\ UNCHANGED <<sq, sock, mpc, ctx, bpc, member, left>>
S_Timeout   == /\ spc = "write" /\ sock = "stalled" /\ Deadline         \* the write deadline expires: same exit as a failed write
               /\ dch' = TRUE
               /\ spc' = IF Drain = "cancel" THEN "exit" ELSE "drain"
               /\ UNCHANGED <<sq, sock, mpc, ctx, bpc, member, left>>
S_CtxDone   == /\ spc = "idle" /\ ctx = "cancelled"
               /\ spc' = "drain" /\ UNCHANGED <<sq, sock, mpc, dch, ctx, bpc, member, left>>
S_Drain     == /\ spc = "drain" /\ sq > 0                             \* for len(h.sendChan) != 0 { <-h.sendChan }
               /\ sq' = sq - 1 /\ UNCHANGED <<spc, sock, mpc, dch, ctx, bpc, member, left>>
S_DrainEnd  == /\ spc = "drain" /\ sq = 0
               /\ (Drain = "until" => ctx = "cancelled")               \* keeps reading the queue until the handler is done with it
               /\ spc' = "exit" /\ UNCHANGED <<sq, sock, mpc, dch, ctx, bpc, member, left>>

(* the network *)
Reset == /\ Resets /\ sock = "stalled" /\ sock' = "reset" /\ UNCHANGED <<sq, spc, mpc, dch, ctx, bpc, member, left>>

(* A's main loop *)
M_Push    == /\ mpc = "loop" /\ ctx = "live" /\ ~dch                  \* sync clock tick or a response: h.send
             /\ IF sq < S THEN sq' = sq + 1 /\ mpc' = mpc ELSE mpc' = "push" /\ sq' = sq
             /\ UNCHANGED <<spc, sock, dch, ctx, bpc, member, left>>
M_Unblock == /\ mpc = "push" /\ sq < S
             /\ sq' = sq + 1 /\ mpc' = "loop" /\ UNCHANGED <<spc, sock, dch, ctx, bpc, member, left>>
M_Idle    == /\ mpc = "loop" /\ ~dch /\ ctx = "live"                  \* idle timer, receive error, handler error: h.disconnect
             /\ dch' = TRUE /\ UNCHANGED <<sq, spc, sock, mpc, ctx, bpc, member, left>>
M_Disc    == /\ mpc = "loop" /\ dch                                   \* handleDisconnect: Conn.Close, leaveSession ..
             /\ dch' = FALSE /\ mpc' = "close"
             /\ UNCHANGED <<sq, spc, sock, ctx, bpc, member, left>>
\* Conn.Close writes a close frame first: it needs the connection's write lock, which a sender stuck in a write holds, and
\* the frame itself does not fit into the buffers of a client that stopped reading unless the write deadline has passed
M_Close   == /\ mpc = "close" /\ spc # "write" /\ (sock = "stalled" => Deadline)
             /\ sock' = "closed" /\ mpc' = "lock"
             /\ UNCHANGED <<sq, spc, dch, ctx, bpc, member, left>>
M_Lock    == /\ mpc = "lock" /\ bpc = "idle"                          \* .. RemoveParticipant: needs the lock free of readers
             /\ member' = FALSE /\ mpc' = "cancel" /\ UNCHANGED <<sq, spc, sock, dch, ctx, bpc, left>>
M_Cancel  == /\ mpc = "cancel" /\ ctx' = "cancelled" /\ mpc' = "wait"
             /\ UNCHANGED <<sq, spc, sock, dch, bpc, member, left>>
M_Done    == /\ mpc = "wait" /\ spc = "exit" /\ mpc' = "done"
             /\ UNCHANGED <<sq, spc, sock, dch, ctx, bpc, member, left>>

Finished == mpc = "done" /\ bpc = "idle" /\ left = 0

Next == B_Start \/ B_Send \/ B_Unblock \/ S_Take \/ S_WriteFail \/ S_Timeout \/ S_CtxDone \/ S_Drain \/ S_DrainEnd \/ Reset
        \/ M_Push \/ M_Unblock \/ M_Idle \/ M_Disc \/ M_Close \/ M_Lock \/ M_Cancel \/ M_Done
        \/ (Finished /\ UNCHANGED vars)

Spec == Init /\ [][Next]_vars /\ WF_vars(Next) /\ WF_vars(Reset)

TypeOK == sq \in 0..S /\ left \in 0..N
\* nobody is left stuck: whatever the interleaving, the run can only end with A's handler returned and the peer done
\* (TLC's deadlock check), and it does end
HandlerReturns == <>(mpc = "done")
PeerGetsOn     == <>(left = 0 /\ bpc = "idle")
RemovedOnce    == [][member' => member]_vars
=============================================================================
