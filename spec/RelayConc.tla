------------------------------ MODULE RelayConc ------------------------------
(***************************************************************************)
(* Lock-grain specification of Relay (aukilabs/hagall): what happens when  *)
(* the handlers of several connections run at the same time.               *)
(*                                                                         *)
(* Relay.tla treats one request as one atomic step.  The code does not:    *)
(* a handler is a sequence of short critical sections (SessionStore.mutex, *)
(* Session.participantMutex / entityMutex / frameMutex / moduleMutex, the  *)
(* id generators, the vikja state mutex), and the handlers of different    *)
(* connections interleave between them.  Here every Lock / RLock call of   *)
(* the join / leave / entity add / entity delete / entity action paths is  *)
(* one program location (`pc`) of the connection's handler, and one step   *)
(* of the specification is: acquire the lock the handler is waiting for,   *)
(* run the code up to the next Lock / RLock call (releasing on the way     *)
(* whatever the code releases), stop there.  That is exactly the grain of  *)
(* the cooperative scheduler of the conformance harness (L1c), which parks *)
(* every task in front of every Lock / RLock of the hagall packages: a     *)
(* schedule of the harness is a behaviour of this specification and vice   *)
(* versa (RelayConcTrace.tla, tools/relayconc_check.py).                   *)
(*                                                                         *)
(* Code anchors (websocket/realtime.go, models/session.go, models/id.go,   *)
(* modules/vikja): see the table GateOf below, one row per location.       *)
(***************************************************************************)
EXTENDS Integers, Sequences, FiniteSets, TLC

CONSTANTS Conns,     \* connection ids
          Vikja,     \* BOOLEAN: the vikja module is loaded (entity actions)
          Odal,      \* BOOLEAN: the odal module is loaded (asset instances); at most one of the two
          ProgSet,   \* set of programs: [Conns -> Seq(request)]
          Serial     \* BOOLEAN: TRUE = handlers never overlap (baseline for Conv)

VARIABLES reg,      \* SessionStore.sessions : sid -> session object (index into objs)
          sidgen,   \* SessionStore.ids      : [cur, free]
          gauge,    \* session gauge
          objs,     \* Seq of session objects ever created
          mst,      \* Seq of vikja State objects ever created: eid -> value
          conn,     \* c -> handler fields [sess, pid, own, fid, ms]
          pc,       \* c -> program location
          loc,      \* c -> handler locals
          held,     \* c -> set of <<lock, mode>> the handler holds while parked
          out,      \* c -> Seq(message) everything handed to the connection
          prog      \* c -> requests still to run

vars == <<reg, sidgen, gauge, objs, mst, conn, pc, loc, held, out, prog>>

(***************************************************************************)
(* helpers                                                                 *)
(***************************************************************************)
Put(f, k, v)   == [x \in (DOMAIN f) \cup {k} |-> IF x = k THEN v ELSE f[x]]
Drop(f, S)     == [x \in (DOMAIN f) \ S |-> f[x]]
Rng(f)         == {f[x] : x \in DOMAIN f}
Empty          == [x \in {} |-> 0]

\* models/id.go: New pops any reusable id, else increments; Reuse marks reusable
NewGen            == [cur |-> 0, free |-> {}]
GenChoices(g)     == IF g.free # {} THEN g.free ELSE {g.cur + 1}
GenTake(g, i)     == IF i \in g.free THEN [g EXCEPT !.free = @ \ {i}] ELSE [g EXCEPT !.cur = i]
GenReuse(g, i)    == [g EXCEPT !.free = @ \cup {i}]

NOT_FOUND      == 404
UNAUTHORIZED   == 401
BAD_REQUEST    == 400
ALREADY_JOINED == 461

Err(rid, code)        == [t |-> "ERROR", rid |-> rid, code |-> code]
JoinResp(rid, s, p)   == [t |-> "JOIN_RESPONSE", rid |-> rid, sid |-> s, pid |-> p]
SessState(ps, es)     == [t |-> "SESSION_STATE", parts |-> ps, ents |-> es]
JoinB(p)              == [t |-> "JOIN_BROADCAST", pid |-> p]
LeaveB(p)             == [t |-> "LEAVE_BROADCAST", pid |-> p]
EntAddResp(rid, e)    == [t |-> "ENTITY_ADD_RESPONSE", rid |-> rid, eid |-> e]
EntAddB(e, o)         == [t |-> "ENTITY_ADD_BROADCAST", eid |-> e, owner |-> o]
EntDelResp(rid, e)    == [t |-> "ENTITY_DELETE_RESPONSE", rid |-> rid, eid |-> e]
EntDelB(e)            == [t |-> "ENTITY_DELETE_BROADCAST", eid |-> e]
VikjaState(as)        == [t |-> "VIKJA_STATE", acts |-> as]
OdalState(as)         == [t |-> "ODAL_STATE", acts |-> as]          \* rows [eid, v]: v = asset instance id
AssetResp(rid, e, v)  == [t |-> "ASSET_ADD_RESPONSE", rid |-> rid, eid |-> e, v |-> v]
AssetB(e, v)          == [t |-> "ASSET_ADD_BROADCAST", eid |-> e, v |-> v]
HasMod                == Vikja \/ Odal
ASSUME ~(Vikja /\ Odal)
ModLbl(v, o)          == IF Odal THEN o ELSE v
ActionResp(rid, e, v) == [t |-> "ACTION_RESPONSE", rid |-> rid, eid |-> e, v |-> v]
ActionB(e, v)         == [t |-> "ACTION_BROADCAST", eid |-> e, v |-> v]

NewObj(id) == [id |-> id, parts |-> Empty, pgen |-> NewGen, ents |-> Empty, egen |-> NewGen,
               fh |-> Empty, fgen |-> NewGen, closed |-> FALSE, ms |-> 0]

NoLoc == [rid |-> 0, req |-> [k |-> "none"], s |-> 0, ok |-> FALSE, id |-> 0, pid |-> 0, todo |-> {}, e |-> 0,
          snapP |-> {}, snapE |-> {}, after |-> "done", ph |-> "core"]

Idle(c) == pc[c] = "idle"

(***************************************************************************)
(* Locks.  A lock is a tuple; mode "W" or "R".  GateOf gives, for a        *)
(* program location, the Lock / RLock call the handler is parked in front  *)
(* of: [fn: the label the harness logs, lock, mode].                       *)
(***************************************************************************)
SessOf(c)  == IF loc[c].s # 0 THEN loc[c].s ELSE conn[c].sess

GateOf(c) ==
  LET s == SessOf(c) IN
  CASE pc[c] = "J_lookup"   -> [fn |-> "(*SessionStore).GetByGlobalID:RLock",            lock |-> <<"store">>,     mode |-> "R"]
    [] pc[c] = "J_newid"    -> [fn |-> "(*SequentialIDGenerator).New:Lock",              lock |-> <<"sids">>,      mode |-> "W"]
    [] pc[c] = "J_add"      -> [fn |-> "(*SessionStore).Add:Lock",                       lock |-> <<"store">>,     mode |-> "W"]
    [] pc[c] = "J_pid"      -> [fn |-> "(*SequentialIDGenerator).New:Lock",              lock |-> <<"pgen", s>>,   mode |-> "W"]
    [] pc[c] = "J_addp"     -> [fn |-> "(*Session).AddParticipant:Lock",                 lock |-> <<"pmu", s>>,    mode |-> "W"]
    [] pc[c] = "J_recheck"  -> [fn |-> "(*SessionStore).GetByGlobalID:RLock",            lock |-> <<"store">>,     mode |-> "R"]
    [] pc[c] = "J_undo"     -> [fn |-> "(*Session).RemoveParticipant:Lock",              lock |-> <<"pmu", s>>,    mode |-> "W"]
    [] pc[c] = "J_hf"       -> [fn |-> "(*Session).HandleFrame:Lock",                    lock |-> <<"fmu", s>>,    mode |-> "W"]
    [] pc[c] = "J_hfid"     -> [fn |-> "(*SequentialIDGenerator).New:Lock",              lock |-> <<"fgen", s>>,   mode |-> "W"]
    [] pc[c] = "J_snapP"    -> [fn |-> "(*Session).GetParticipants:RLock",               lock |-> <<"pmu", s>>,    mode |-> "R"]
    [] pc[c] = "J_snapE"    -> [fn |-> "(*Session).Entities:RLock",                      lock |-> <<"emu", s>>,    mode |-> "R"]
    [] pc[c] = "J_snapC"    -> [fn |-> "(*EntityComponentStore).ListAll:RLock",          lock |-> <<"ecs", s>>,    mode |-> "R"]
    [] pc[c] = "J_bcast"    -> [fn |-> "(*Session).Broadcast:RLock",                     lock |-> <<"pmu", s>>,    mode |-> "R"]
    [] pc[c] = "M_init"     -> [fn |-> "(*Session).ModuleStateOrSet:Lock",               lock |-> <<"mmu", s>>,    mode |-> "W"]
    [] pc[c] = "M_state"    -> [fn |-> ModLbl("(*State).EntityActions:RLock", "(*State).AssetInstances:RLock"), lock |-> <<"vmu", conn[c].ms>>, mode |-> "R"]
    [] pc[c] = "V_disc"     -> [fn |-> "(*Session).EntityByID:RLock",                    lock |-> <<"emu", s>>,    mode |-> "R"]
    [] pc[c] = "V_discrm"   -> [fn |-> ModLbl("(*State).RemoveEntityActions:Lock", "(*State).RemoveAssetInstance:Lock"), lock |-> <<"vmu", conn[c].ms>>, mode |-> "W"]
    [] pc[c] = "L_unsub"    -> [fn |-> "(*EntityComponentStore).UnsubscribeByParticipant:Lock", lock |-> <<"ecs", s>>, mode |-> "W"]
    [] pc[c] = "L_ent"      -> [fn |-> "(*Session).EntityByID:RLock",                    lock |-> <<"emu", s>>,    mode |-> "R"]
    [] pc[c] = "L_entcomp"  -> [fn |-> "(*EntityComponentStore).DeleteByEntityID:Lock",  lock |-> <<"ecs", s>>,    mode |-> "W"]
    [] pc[c] = "L_entrm"    -> [fn |-> "(*Session).RemoveEntity:Lock",                   lock |-> <<"emu", s>>,    mode |-> "W"]
    [] pc[c] = "L_entb"     -> [fn |-> "(*Session).Broadcast:RLock",                     lock |-> <<"pmu", s>>,    mode |-> "R"]
    [] pc[c] = "L_cancel"   -> [fn |-> "(*Session).HandleFrame.func1:Lock",              lock |-> <<"fmu", s>>,    mode |-> "W"]
    [] pc[c] = "L_cancelid" -> [fn |-> "(*SequentialIDGenerator).Reuse:Lock",            lock |-> <<"fgen", s>>,   mode |-> "W"]
    [] pc[c] = "L_rmp"      -> [fn |-> "(*Session).RemoveParticipant:Lock",              lock |-> <<"pmu", s>>,    mode |-> "W"]
    [] pc[c] = "L_leaveb"   -> [fn |-> "(*Session).Broadcast:RLock",                     lock |-> <<"pmu", s>>,    mode |-> "R"]
    [] pc[c] = "L_count"    -> [fn |-> "(*Session).ParticipantCount:RLock",              lock |-> <<"pmu", s>>,    mode |-> "R"]
    [] pc[c] = "L_remove"   -> [fn |-> "(*SessionStore).Remove:Lock",                    lock |-> <<"store">>,     mode |-> "W"]
    [] pc[c] = "L_rmcount"  -> [fn |-> "(*Session).ParticipantCount:RLock",              lock |-> <<"pmu", s>>,    mode |-> "R"]
    [] pc[c] = "L_rmreuse"  -> [fn |-> "(*SequentialIDGenerator).Reuse:Lock",            lock |-> <<"sids">>,      mode |-> "W"]
    [] pc[c] = "E_id"       -> [fn |-> "(*SequentialIDGenerator).New:Lock",              lock |-> <<"egen", s>>,   mode |-> "W"]
    [] pc[c] = "E_add"      -> [fn |-> "(*Session).AddEntity:Lock",                      lock |-> <<"emu", s>>,    mode |-> "W"]
    [] pc[c] = "E_bcast"    -> [fn |-> "(*Session).Broadcast:RLock",                     lock |-> <<"pmu", s>>,    mode |-> "R"]
    [] pc[c] = "D_get"      -> [fn |-> "(*Session).EntityByID:RLock",                    lock |-> <<"emu", s>>,    mode |-> "R"]
    [] pc[c] = "D_comp"     -> [fn |-> "(*EntityComponentStore).DeleteByEntityID:Lock",  lock |-> <<"ecs", s>>,    mode |-> "W"]
    [] pc[c] = "D_rm"       -> [fn |-> "(*Session).RemoveEntity:Lock",                   lock |-> <<"emu", s>>,    mode |-> "W"]
    [] pc[c] = "D_bcast"    -> [fn |-> "(*Session).Broadcast:RLock",                     lock |-> <<"pmu", s>>,    mode |-> "R"]
    [] pc[c] = "D_vget"     -> [fn |-> "(*Session).EntityByID:RLock",                    lock |-> <<"emu", s>>,    mode |-> "R"]
    [] pc[c] = "D_vrm"      -> [fn |-> ModLbl("(*State).RemoveEntityActions:Lock", "(*State).RemoveAssetInstance:Lock"), lock |-> <<"vmu", conn[c].ms>>, mode |-> "W"]
    [] pc[c] = "A_get"      -> [fn |-> "(*Session).EntityByID:RLock",                    lock |-> <<"emu", s>>,    mode |-> "R"]
    [] pc[c] = "A_cur"      -> [fn |-> "(*State).EntityAction:RLock",                    lock |-> <<"vmu", conn[c].ms>>, mode |-> "R"]
    [] pc[c] = "A_set"      -> [fn |-> "(*State).SetEntityAction:Lock",                  lock |-> <<"vmu", conn[c].ms>>, mode |-> "W"]
    [] pc[c] = "A_bcast"    -> [fn |-> "(*Session).Broadcast:RLock",                     lock |-> <<"pmu", s>>,    mode |-> "R"]
    [] pc[c] = "S_get"      -> [fn |-> "(*Session).EntityByID:RLock",                    lock |-> <<"emu", s>>,    mode |-> "R"]
    [] pc[c] = "S_id"       -> [fn |-> "(*SequentialIDGenerator).New:Lock",              lock |-> <<"agen", conn[c].ms>>, mode |-> "W"]
    [] pc[c] = "S_set"      -> [fn |-> "(*State).SetAssetInstance:Lock",                 lock |-> <<"vmu", conn[c].ms>>, mode |-> "W"]
    [] pc[c] = "S_bcast"    -> [fn |-> "(*Session).Broadcast:RLock",                     lock |-> <<"pmu", s>>,    mode |-> "R"]
    [] OTHER                -> [fn |-> "start",                                          lock |-> <<"none">>,      mode |-> "N"]

\* Lock / RLock calls the harness sees that have no location here: the code between such a call and the next
\* Lock / RLock touches nothing this specification models (the pose of an entity: set before the entity is
\* shared, read when a snapshot or an add broadcast is assembled).
Unmodelled == {"(*Entity).ToProtobuf:RLock", "(*Entity).SetPose:Lock"}

Holders(l, m) == {c \in Conns : <<l, m>> \in held[c]}
Wants(c, l, m) == ~Idle(c) /\ pc[c] # "start" /\ GateOf(c).lock = l /\ GateOf(c).mode = m

\* sync.RWMutex: a writer needs the lock free; a reader needs no writer and - writer preference - is held back
\* when other readers hold the lock and a writer is already waiting for it
CanAcquire(c) ==
  LET g == GateOf(c) IN
  CASE g.mode = "N" -> TRUE
    [] g.mode = "W" -> Holders(g.lock, "W") = {} /\ Holders(g.lock, "R") = {}
    [] g.mode = "R" -> /\ Holders(g.lock, "W") = {}
                       /\ (Holders(g.lock, "R") \ {c} # {} => ~\E d \in Conns \ {c} : Wants(d, g.lock, "W"))

(***************************************************************************)
(* sending                                                                 *)
(***************************************************************************)
Send(o, c, m)  == [o EXCEPT ![c] = Append(@, m)]
Bcast(o, S, m) == [d \in Conns |-> IF d \in S THEN Append(o[d], m) ELSE o[d]]
Others(s, c)   == {objs[s].parts[p] : p \in DOMAIN objs[s].parts} \ {c}     \* Session.Broadcast(sender, ..)

EntRows(s)     == {[id |-> e, owner |-> objs[s].ents[e].owner] : e \in DOMAIN objs[s].ents}
ActRows(m)     == {[eid |-> e, v |-> mst[m][e]] : e \in (DOMAIN mst[m]) \ {0}}    \* (key 0: odal's instance id counter)

(***************************************************************************)
(* Finishing a request                                                     *)
(***************************************************************************)
Finish(c) == /\ pc' = [pc EXCEPT ![c] = "idle"]
             /\ loc' = [loc EXCEPT ![c] = NoLoc]

\* continue at location p (same locals unless given)
Goto(c, p)       == pc' = [pc EXCEPT ![c] = p]
Keep(c)          == loc' = loc
SetLoc(c, l)     == loc' = [loc EXCEPT ![c] = l]

(***************************************************************************)
(* Start of a request: the code before the first Lock / RLock call         *)
(***************************************************************************)
\* where the leave sequence begins (modules first: vikja HandleDisconnect walks the participant's entity ids)
LeaveEntry(c) == IF HasMod /\ conn[c].own # {} THEN "V_disc" ELSE "L_unsub"

\* a join request that is refused while its connection stays in a session still goes through the module pass
\* (HandleWithModule runs for every message of a joined connection): vikja answers it with its state
JoinModulePass(c) == IF HasMod /\ conn[c].pid # 0 THEN Goto(c, "M_state") /\ Keep(c) ELSE Finish(c)

Begin(c) ==
  /\ Idle(c) /\ prog[c] # <<>> /\ Head(prog[c]).k # "Barrier"
  /\ Serial => \A d \in Conns : Idle(d)
  /\ LET r == Head(prog[c]) IN
     /\ prog' = [prog EXCEPT ![c] = Tail(@)]
     /\ pc' = [pc EXCEPT ![c] = "start"]
     /\ loc' = [loc EXCEPT ![c] = [NoLoc EXCEPT !.req = r, !.rid = r.rid]]
  /\ UNCHANGED <<reg, sidgen, gauge, objs, mst, conn, held, out>>

\* all connections pass a barrier together
Barrier ==
  /\ \A c \in Conns : Idle(c)
  /\ \E c \in Conns : prog[c] # <<>>
  /\ \A c \in Conns : prog[c] # <<>> => Head(prog[c]).k = "Barrier"
  /\ prog' = [c \in Conns |-> IF prog[c] # <<>> THEN Tail(prog[c]) ELSE <<>>]
  /\ UNCHANGED <<reg, sidgen, gauge, objs, mst, conn, pc, loc, held, out>>

Start(c) ==
  /\ pc[c] = "start"
  /\ LET r == loc[c].req IN
     CASE r.k = "Join" ->
            IF conn[c].sess # 0 /\ r.sid # 0 /\ objs[conn[c].sess].id = r.sid
            THEN /\ out' = Send(out, c, Err(r.rid, ALREADY_JOINED)) /\ JoinModulePass(c)
            ELSE /\ Goto(c, "J_lookup") /\ Keep(c) /\ out' = out
       [] r.k = "Disc" ->
            IF conn[c].pid = 0 THEN Finish(c) /\ out' = out
            ELSE /\ Goto(c, LeaveEntry(c)) /\ out' = out
                 /\ SetLoc(c, [loc[c] EXCEPT !.s = conn[c].sess, !.todo = conn[c].own, !.after = "done", !.ph = "mod"])
       [] r.k \in {"EntityAdd", "EntityDelete", "Action", "AssetAdd"} ->
            IF conn[c].pid = 0
            THEN Finish(c) /\ out' = out                  \* "session not joined": an error return, the connection is closed by its owner
            ELSE /\ out' = out /\ Keep(c)
                 /\ Goto(c, CASE r.k = "EntityAdd" -> "E_id" [] r.k = "EntityDelete" -> "D_get" [] r.k = "AssetAdd" -> "S_get" [] OTHER -> "A_get")
  /\ UNCHANGED <<reg, sidgen, gauge, objs, mst, conn, held>>

(***************************************************************************)
(* HandleParticipantJoin                                                   *)
(***************************************************************************)
AfterLeaveOfJoin(c, l) == IF l.ok THEN "J_pid" ELSE "J_newid"

J_lookup(c) ==           \* session, ok := Sessions.GetByGlobalID(req.SessionId)
  LET r == loc[c].req
      found == r.sid # 0 /\ r.sid \in DOMAIN reg
      l == [loc[c] EXCEPT !.ok = found, !.s = IF found THEN reg[r.sid] ELSE 0] IN
  IF ~found /\ r.sid # 0
  THEN /\ out' = Send(out, c, Err(r.rid, NOT_FOUND)) /\ JoinModulePass(c)
       /\ UNCHANGED <<reg, sidgen, gauge, objs, mst, conn, held>>
  ELSE /\ out' = out
       /\ IF conn[c].pid # 0
          THEN \* leaveSession() of the current session first; the join continues afterwards with `l.s` kept aside in `id`
               /\ SetLoc(c, [l EXCEPT !.id = l.s, !.s = conn[c].sess, !.todo = conn[c].own, !.after = "join", !.ph = "mod"])
               /\ Goto(c, LeaveEntry(c))
          ELSE /\ SetLoc(c, l) /\ Goto(c, AfterLeaveOfJoin(c, l))
       /\ UNCHANGED <<reg, sidgen, gauge, objs, mst, conn, held>>

J_newid(c) ==            \* models.NewSession(h.Sessions.NewID(), ..)
  \E i \in GenChoices(sidgen) :
    /\ sidgen' = GenTake(sidgen, i)
    /\ objs' = Append(objs, NewObj(i))
    /\ SetLoc(c, [loc[c] EXCEPT !.s = Len(objs) + 1])
    /\ Goto(c, "J_add")
    /\ UNCHANGED <<reg, gauge, mst, conn, held, out>>

J_add(c) ==              \* h.Sessions.Add(ctx, session)
  /\ reg' = Put(reg, objs[loc[c].s].id, loc[c].s)
  /\ gauge' = gauge + 1
  /\ Goto(c, "J_pid") /\ Keep(c)
  /\ UNCHANGED <<sidgen, objs, mst, conn, held, out>>

J_pid(c) ==              \* session.NewParticipantID()
  LET s == loc[c].s IN
  \E i \in GenChoices(objs[s].pgen) :
    /\ objs' = [objs EXCEPT ![s].pgen = GenTake(@, i)]
    /\ SetLoc(c, [loc[c] EXCEPT !.pid = i])
    /\ Goto(c, "J_addp")
    /\ UNCHANGED <<reg, sidgen, gauge, mst, conn, held, out>>

J_addp(c) ==             \* session.AddParticipant(participant)
  LET s == loc[c].s IN
  /\ objs' = [objs EXCEPT ![s].parts = Put(@, loc[c].pid, c)]
  /\ Goto(c, "J_recheck") /\ Keep(c)
  /\ UNCHANGED <<reg, sidgen, gauge, mst, conn, held, out>>

J_recheck(c) ==          \* is the session still registered under its id?
  LET s == loc[c].s
      still == objs[s].id \in DOMAIN reg /\ reg[objs[s].id] = s IN
  /\ Goto(c, IF still THEN "J_hf" ELSE "J_undo") /\ Keep(c)
  /\ UNCHANGED <<reg, sidgen, gauge, objs, mst, conn, held, out>>

J_undo(c) ==             \* session.RemoveParticipant(participant); NOT_FOUND
  LET s == loc[c].s IN
  /\ objs' = [objs EXCEPT ![s].parts = Drop(@, {loc[c].pid})]
  /\ out' = Send(out, c, Err(loc[c].rid, NOT_FOUND))
  /\ Finish(c)
  /\ UNCHANGED <<reg, sidgen, gauge, mst, conn, held>>

J_hf(c) ==               \* session.HandleFrame(handleFrame): frameMutex taken, the id is drawn under it
  /\ held' = [held EXCEPT ![c] = @ \cup {<<<<"fmu", loc[c].s>>, "W">>}]
  /\ Goto(c, "J_hfid") /\ Keep(c)
  /\ UNCHANGED <<reg, sidgen, gauge, objs, mst, conn, out>>

J_hfid(c) ==             \* id := frameHandlerIDs.New(); frameHandlers[id] = h; unlock; JoinResponse; current* set
  LET s == loc[c].s IN
  \E i \in GenChoices(objs[s].fgen) :
    /\ objs' = [objs EXCEPT ![s].fgen = GenTake(@, i), ![s].fh = Put(@, i, c)]
    /\ held' = [held EXCEPT ![c] = @ \ {<<<<"fmu", s>>, "W">>}]
    /\ out' = Send(out, c, JoinResp(loc[c].rid, objs[s].id, loc[c].pid))
    /\ conn' = [conn EXCEPT ![c] = [sess |-> s, pid |-> loc[c].pid, own |-> {}, fid |-> i, ms |-> 0]]
    /\ Goto(c, "J_snapP") /\ Keep(c)
    /\ UNCHANGED <<reg, sidgen, gauge, mst>>

J_snapP(c) ==            \* session.GetParticipants()
  /\ SetLoc(c, [loc[c] EXCEPT !.snapP = DOMAIN objs[loc[c].s].parts])
  /\ Goto(c, "J_snapE")
  /\ UNCHANGED <<reg, sidgen, gauge, objs, mst, conn, held, out>>

J_snapE(c) ==            \* session.Entities()   (then one Entity.ToProtobuf per entity: Unmodelled)
  /\ SetLoc(c, [loc[c] EXCEPT !.snapE = EntRows(loc[c].s)])
  /\ Goto(c, "J_snapC")
  /\ UNCHANGED <<reg, sidgen, gauge, objs, mst, conn, held, out>>

J_snapC(c) ==            \* session.GetEntityComponents().ListAll(); respond.Send(SessionState)
  /\ out' = Send(out, c, SessState(loc[c].snapP, loc[c].snapE))
  /\ Goto(c, "J_bcast") /\ Keep(c)
  /\ UNCHANGED <<reg, sidgen, gauge, objs, mst, conn, held>>

J_bcast(c) ==            \* session.Broadcast(participant, ParticipantJoinBroadcast); then the modules
  LET s == loc[c].s IN
  /\ out' = Bcast(out, Others(s, c), JoinB(loc[c].pid))
  /\ IF HasMod THEN Goto(c, "M_init") /\ Keep(c) ELSE Finish(c)
  /\ UNCHANGED <<reg, sidgen, gauge, objs, mst, conn, held>>

(***************************************************************************)
(* vikja: Init (the state of the session is looked up, or created and      *)
(* registered, under one lock) and the state handed to the newcomer        *)
(***************************************************************************)
M_init(c) ==             \* state := s.ModuleStateOrSet("vikja", ..)
  LET s == loc[c].s IN
  /\ IF objs[s].ms # 0
     THEN /\ conn' = [conn EXCEPT ![c].ms = objs[s].ms] /\ UNCHANGED <<mst, objs>>
     ELSE /\ mst' = Append(mst, Empty)
          /\ objs' = [objs EXCEPT ![s].ms = Len(mst) + 1]
          /\ conn' = [conn EXCEPT ![c].ms = Len(mst) + 1]
  /\ Goto(c, "M_state") /\ Keep(c)
  /\ UNCHANGED <<reg, sidgen, gauge, held, out>>

M_state(c) ==            \* module pass of the join request: respond.Send(vikja State)
  /\ out' = Send(out, c, IF Odal THEN OdalState(ActRows(conn[c].ms)) ELSE VikjaState(ActRows(conn[c].ms)))
  /\ Finish(c)
  /\ UNCHANGED <<reg, sidgen, gauge, objs, mst, conn, held>>

(***************************************************************************)
(* leaveSession (HandleDisconnect, or a join by a connection that is in a  *)
(* session).  loc.s = the session left, loc.todo = entity ids still to     *)
(* visit in the current loop, loc.ph = which loop ("mod" = vikja's,        *)
(* "core" = leaveSession's), loc.after = what follows.                     *)
(***************************************************************************)
V_disc(c) ==             \* vikja HandleDisconnect: for entityID := range participant.EntityIDs() { EntityByID ..
  LET s == loc[c].s IN
  \E e \in loc[c].todo :
    LET gone == e \notin DOMAIN objs[s].ents \/ ~objs[s].ents[e].persist
        rest == loc[c].todo \ {e} IN
    /\ IF gone
       THEN SetLoc(c, [loc[c] EXCEPT !.todo = rest, !.e = e]) /\ Goto(c, "V_discrm")
       ELSE IF rest # {}
            THEN SetLoc(c, [loc[c] EXCEPT !.todo = rest]) /\ Goto(c, "V_disc")
            ELSE SetLoc(c, [loc[c] EXCEPT !.todo = conn[c].own, !.ph = "core"]) /\ Goto(c, "L_unsub")
    /\ UNCHANGED <<reg, sidgen, gauge, objs, mst, conn, held, out>>

V_discrm(c) ==           \* m.state.RemoveEntityActions(entityID)
  /\ mst' = [mst EXCEPT ![conn[c].ms] = Drop(@, {loc[c].e})]
  /\ IF loc[c].todo # {}
     THEN Keep(c) /\ Goto(c, "V_disc")
     ELSE SetLoc(c, [loc[c] EXCEPT !.todo = conn[c].own, !.ph = "core"]) /\ Goto(c, "L_unsub")
  /\ UNCHANGED <<reg, sidgen, gauge, objs, conn, held, out>>

AfterEntLoop(c) == "L_cancel"

L_unsub(c) ==            \* UnsubscribeByParticipant; then the loop over participant.EntityIDs()
  /\ Goto(c, IF loc[c].todo # {} THEN "L_ent" ELSE AfterEntLoop(c)) /\ Keep(c)
  /\ UNCHANGED <<reg, sidgen, gauge, objs, mst, conn, held, out>>

L_ent(c) ==              \* entity, ok := session.EntityByID(id); if !ok || entity.Persist { continue }
  LET s == loc[c].s IN
  \E e \in loc[c].todo :
    LET skip == e \notin DOMAIN objs[s].ents \/ objs[s].ents[e].persist
        rest == loc[c].todo \ {e} IN
    /\ IF skip
       THEN SetLoc(c, [loc[c] EXCEPT !.todo = rest]) /\ Goto(c, IF rest # {} THEN "L_ent" ELSE AfterEntLoop(c))
       ELSE SetLoc(c, [loc[c] EXCEPT !.todo = rest, !.e = e]) /\ Goto(c, "L_entcomp")
    /\ UNCHANGED <<reg, sidgen, gauge, objs, mst, conn, held, out>>

L_entcomp(c) ==          \* session.GetEntityComponents().DeleteByEntityID(entity.ID)
  /\ Goto(c, "L_entrm") /\ Keep(c)
  /\ UNCHANGED <<reg, sidgen, gauge, objs, mst, conn, held, out>>

L_entrm(c) ==            \* session.RemoveEntity(entity)
  /\ objs' = [objs EXCEPT ![loc[c].s].ents = Drop(@, {loc[c].e})]
  /\ Goto(c, "L_entb") /\ Keep(c)
  /\ UNCHANGED <<reg, sidgen, gauge, mst, conn, held, out>>

L_entb(c) ==             \* session.Broadcast(participant, EntityDeleteBroadcast)
  /\ out' = Bcast(out, Others(loc[c].s, c), EntDelB(loc[c].e))
  /\ Goto(c, IF loc[c].todo # {} THEN "L_ent" ELSE AfterEntLoop(c)) /\ Keep(c)
  /\ UNCHANGED <<reg, sidgen, gauge, objs, mst, conn, held>>

L_cancel(c) ==           \* h.stopFrameHandling(): frameMutex taken ..
  /\ held' = [held EXCEPT ![c] = @ \cup {<<<<"fmu", loc[c].s>>, "W">>}]
  /\ objs' = [objs EXCEPT ![loc[c].s].fh = Drop(@, {conn[c].fid})]
  /\ Goto(c, "L_cancelid") /\ Keep(c)
  /\ UNCHANGED <<reg, sidgen, gauge, mst, conn, out>>

L_cancelid(c) ==         \* .. delete(frameHandlers, id); frameHandlerIDs.Reuse(id); unlock
  LET s == loc[c].s IN
  /\ objs' = [objs EXCEPT ![s].fgen = GenReuse(@, conn[c].fid)]
  /\ held' = [held EXCEPT ![c] = @ \ {<<<<"fmu", s>>, "W">>}]
  /\ Goto(c, "L_rmp") /\ Keep(c)
  /\ UNCHANGED <<reg, sidgen, gauge, mst, conn, out>>

L_rmp(c) ==              \* session.RemoveParticipant(participant)
  /\ objs' = [objs EXCEPT ![loc[c].s].parts = Drop(@, {conn[c].pid})]
  /\ Goto(c, "L_leaveb") /\ Keep(c)
  /\ UNCHANGED <<reg, sidgen, gauge, mst, conn, held, out>>

L_leaveb(c) ==           \* session.Broadcast(participant, ParticipantLeaveBroadcast)
  /\ out' = Bcast(out, Others(loc[c].s, c), LeaveB(conn[c].pid))
  /\ Goto(c, "L_count") /\ Keep(c)
  /\ UNCHANGED <<reg, sidgen, gauge, objs, mst, conn, held>>

\* the end of leaveSession: current* reset; then either the request is over or the join goes on
LeaveDone(c) ==
  /\ conn' = [conn EXCEPT ![c] = [sess |-> 0, pid |-> 0, own |-> {}, fid |-> 0, ms |-> 0]]
  /\ IF loc[c].after = "join"
     THEN LET l == [loc[c] EXCEPT !.s = loc[c].id, !.id = 0, !.todo = {}, !.after = "done", !.ph = "core"] IN
          SetLoc(c, l) /\ Goto(c, AfterLeaveOfJoin(c, l))
     ELSE Finish(c)

L_count(c) ==            \* if session.ParticipantCount() == 0 { h.Sessions.Remove(..) }
  IF objs[loc[c].s].parts = Empty
  THEN /\ Goto(c, "L_remove") /\ Keep(c)
       /\ UNCHANGED <<reg, sidgen, gauge, objs, mst, conn, held, out>>
  ELSE /\ LeaveDone(c)
       /\ UNCHANGED <<reg, sidgen, gauge, objs, mst, held, out>>

L_remove(c) ==           \* SessionStore.Remove: mutex taken; only the registered session can be removed
  LET s == loc[c].s
      mine == objs[s].id \in DOMAIN reg /\ reg[objs[s].id] = s IN
  IF mine
  THEN /\ held' = [held EXCEPT ![c] = @ \cup {<<<<"store">>, "W">>}]
       /\ Goto(c, "L_rmcount") /\ Keep(c)
       /\ UNCHANGED <<reg, sidgen, gauge, objs, mst, conn, out>>
  ELSE /\ LeaveDone(c)
       /\ UNCHANGED <<reg, sidgen, gauge, objs, mst, held, out>>

L_rmcount(c) ==          \* .. session.ParticipantCount() != 0 -> return; else delete, Close, ..
  LET s == loc[c].s IN
  IF objs[s].parts # Empty
  THEN /\ held' = [held EXCEPT ![c] = @ \ {<<<<"store">>, "W">>}]
       /\ LeaveDone(c)
       /\ UNCHANGED <<reg, sidgen, gauge, objs, mst, out>>
  ELSE /\ reg' = Drop(reg, {objs[s].id})
       /\ objs' = [objs EXCEPT ![s].closed = TRUE]
       /\ Goto(c, "L_rmreuse") /\ Keep(c)
       /\ UNCHANGED <<sidgen, gauge, mst, conn, held, out>>

L_rmreuse(c) ==          \* .. s.ids.Reuse(session.ID); gauge; unlock
  /\ sidgen' = GenReuse(sidgen, objs[loc[c].s].id)
  /\ gauge' = gauge - 1
  /\ held' = [held EXCEPT ![c] = @ \ {<<<<"store">>, "W">>}]
  /\ LeaveDone(c)
  /\ UNCHANGED <<reg, objs, mst, out>>

(***************************************************************************)
(* HandleEntityAdd                                                         *)
(***************************************************************************)
E_id(c) ==               \* session.NewEntityID()
  LET s == conn[c].sess IN
  \E i \in GenChoices(objs[s].egen) :
    /\ objs' = [objs EXCEPT ![s].egen = GenTake(@, i)]
    /\ SetLoc(c, [loc[c] EXCEPT !.e = i])
    /\ Goto(c, "E_add")
    /\ UNCHANGED <<reg, sidgen, gauge, mst, conn, held, out>>

E_add(c) ==              \* session.AddEntity; participant.AddEntity; respond.Send(EntityAddResponse)
  LET s == conn[c].sess IN
  /\ objs' = [objs EXCEPT ![s].ents = Put(@, loc[c].e, [owner |-> conn[c].pid, persist |-> loc[c].req.persist])]
  /\ conn' = [conn EXCEPT ![c].own = @ \cup {loc[c].e}]
  /\ out' = Send(out, c, EntAddResp(loc[c].rid, loc[c].e))
  /\ Goto(c, "E_bcast") /\ Keep(c)
  /\ UNCHANGED <<reg, sidgen, gauge, mst, held>>

E_bcast(c) ==            \* session.Broadcast(participant, EntityAddBroadcast)
  /\ out' = Bcast(out, Others(conn[c].sess, c), EntAddB(loc[c].e, conn[c].pid))
  /\ Finish(c)
  /\ UNCHANGED <<reg, sidgen, gauge, objs, mst, conn, held>>

(***************************************************************************)
(* HandleEntityDelete (+ vikja's pass over the same request)               *)
(***************************************************************************)
D_get(c) ==              \* entity, ok := session.EntityByID(req.EntityId); ownership
  LET s == conn[c].sess
      e == loc[c].req.eid IN
  /\ IF e \notin DOMAIN objs[s].ents
     THEN /\ out' = Send(out, c, Err(loc[c].rid, NOT_FOUND))
          /\ IF HasMod THEN Goto(c, "D_vget") /\ Keep(c) ELSE Finish(c)
     ELSE IF objs[s].ents[e].owner # conn[c].pid
          THEN /\ out' = Send(out, c, Err(loc[c].rid, UNAUTHORIZED))
               /\ IF HasMod THEN Goto(c, "D_vget") /\ Keep(c) ELSE Finish(c)
          ELSE /\ out' = out /\ Goto(c, "D_comp") /\ Keep(c)
  /\ UNCHANGED <<reg, sidgen, gauge, objs, mst, conn, held>>

D_comp(c) ==             \* DeleteByEntityID
  /\ Goto(c, "D_rm") /\ Keep(c)
  /\ UNCHANGED <<reg, sidgen, gauge, objs, mst, conn, held, out>>

D_rm(c) ==               \* session.RemoveEntity; participant.RemoveEntity; respond.Send(EntityDeleteResponse)
  LET s == conn[c].sess
      e == loc[c].req.eid IN
  /\ objs' = [objs EXCEPT ![s].ents = Drop(@, {e})]
  /\ conn' = [conn EXCEPT ![c].own = @ \ {e}]
  /\ out' = Send(out, c, EntDelResp(loc[c].rid, e))
  /\ Goto(c, "D_bcast") /\ Keep(c)
  /\ UNCHANGED <<reg, sidgen, gauge, mst, held>>

D_bcast(c) ==            \* session.Broadcast(participant, EntityDeleteBroadcast)
  /\ out' = Bcast(out, Others(conn[c].sess, c), EntDelB(loc[c].req.eid))
  /\ IF HasMod THEN Goto(c, "D_vget") /\ Keep(c) ELSE Finish(c)
  /\ UNCHANGED <<reg, sidgen, gauge, objs, mst, conn, held>>

D_vget(c) ==             \* vikja handleEntityDelete: if _, ok := EntityByID(req.EntityId); !ok { RemoveEntityActions }
  /\ IF loc[c].req.eid \notin DOMAIN objs[conn[c].sess].ents
     THEN Goto(c, "D_vrm") /\ Keep(c)
     ELSE Finish(c)
  /\ UNCHANGED <<reg, sidgen, gauge, objs, mst, conn, held, out>>

D_vrm(c) ==
  /\ mst' = [mst EXCEPT ![conn[c].ms] = Drop(@, {loc[c].req.eid})]
  /\ Finish(c)
  /\ UNCHANGED <<reg, sidgen, gauge, objs, conn, held, out>>

(***************************************************************************)
(* vikja handleSetEntityAction (one action name; the value stands for the  *)
(* pair timestamp/data, requests carry ever newer values)                  *)
(***************************************************************************)
A_get(c) ==              \* if _, ok := session.EntityByID(entityAction.EntityId); !ok -> BAD_REQUEST
  /\ IF loc[c].req.eid \notin DOMAIN objs[conn[c].sess].ents
     THEN out' = Send(out, c, Err(loc[c].rid, BAD_REQUEST)) /\ Finish(c)
     ELSE out' = out /\ Goto(c, "A_cur") /\ Keep(c)
  /\ UNCHANGED <<reg, sidgen, gauge, objs, mst, conn, held>>

A_cur(c) ==              \* latest, ok := m.state.EntityAction(..): an older timestamp is refused
  LET m == conn[c].ms
      e == loc[c].req.eid IN
  /\ IF e \in DOMAIN mst[m] /\ loc[c].req.v < mst[m][e]
     THEN out' = Send(out, c, Err(loc[c].rid, BAD_REQUEST)) /\ Finish(c)
     ELSE out' = out /\ Goto(c, "A_set") /\ Keep(c)
  /\ UNCHANGED <<reg, sidgen, gauge, objs, mst, conn, held>>

A_set(c) ==              \* m.state.SetEntityAction(entityAction); respond.Send(EntityActionResponse)
  /\ mst' = [mst EXCEPT ![conn[c].ms] = Put(@, loc[c].req.eid, loc[c].req.v)]
  /\ out' = Send(out, c, ActionResp(loc[c].rid, loc[c].req.eid, loc[c].req.v))
  /\ Goto(c, "A_bcast") /\ Keep(c)
  /\ UNCHANGED <<reg, sidgen, gauge, objs, conn, held>>

A_bcast(c) ==            \* session.Broadcast(participant, EntityActionBroadcast)
  /\ out' = Bcast(out, Others(conn[c].sess, c), ActionB(loc[c].req.eid, loc[c].req.v))
  /\ Finish(c)
  /\ UNCHANGED <<reg, sidgen, gauge, objs, mst, conn, held>>

(***************************************************************************)
(* odal handleAssetInstanceAdd: existence and ownership of the entity, a    *)
(* fresh instance id from the state's own id source, store, answer, relay   *)
(***************************************************************************)
S_get(c) ==              \* entity, ok := session.EntityByID(req.EntityId); NOT_FOUND / UNAUTHORIZED
  LET s == conn[c].sess  e == loc[c].req.eid IN
  /\ IF e \notin DOMAIN objs[s].ents
     THEN out' = Send(out, c, Err(loc[c].rid, NOT_FOUND)) /\ Finish(c)
     ELSE IF objs[s].ents[e].owner # conn[c].pid
          THEN out' = Send(out, c, Err(loc[c].rid, UNAUTHORIZED)) /\ Finish(c)
          ELSE out' = out /\ Goto(c, "S_id") /\ Keep(c)
  /\ UNCHANGED <<reg, sidgen, gauge, objs, mst, conn, held>>

S_id(c) ==               \* m.state.NewAssetInstanceID()   (ids of one state are never reissued)
  LET m == conn[c].ms
      n == IF 0 \in DOMAIN mst[m] THEN mst[m][0] + 1 ELSE 1 IN
  /\ mst' = [mst EXCEPT ![m] = Put(@, 0, n)]
  /\ SetLoc(c, [loc[c] EXCEPT !.id = n])
  /\ Goto(c, "S_set")
  /\ UNCHANGED <<reg, sidgen, gauge, objs, conn, held, out>>

S_set(c) ==              \* m.state.SetAssetInstance(..); respond.Send(AssetInstanceAddResponse)
  /\ mst' = [mst EXCEPT ![conn[c].ms] = Put(@, loc[c].req.eid, loc[c].id)]
  /\ out' = Send(out, c, AssetResp(loc[c].rid, loc[c].req.eid, loc[c].id))
  /\ Goto(c, "S_bcast") /\ Keep(c)
  /\ UNCHANGED <<reg, sidgen, gauge, objs, conn, held>>

S_bcast(c) ==            \* session.Broadcast(participant, AssetInstanceAddBroadcast)
  /\ out' = Bcast(out, Others(conn[c].sess, c), AssetB(loc[c].req.eid, loc[c].id))
  /\ Finish(c)
  /\ UNCHANGED <<reg, sidgen, gauge, objs, mst, conn, held>>

(***************************************************************************)
(* One step of one handler: the lock it waits for can be taken             *)
(***************************************************************************)
Body(c) ==
  CASE pc[c] = "start"      -> Start(c)
    [] pc[c] = "J_lookup"   -> J_lookup(c)   [] pc[c] = "J_newid"    -> J_newid(c)    [] pc[c] = "J_add"     -> J_add(c)
    [] pc[c] = "J_pid"      -> J_pid(c)      [] pc[c] = "J_addp"     -> J_addp(c)     [] pc[c] = "J_recheck" -> J_recheck(c)
    [] pc[c] = "J_undo"     -> J_undo(c)     [] pc[c] = "J_hf"       -> J_hf(c)       [] pc[c] = "J_hfid"    -> J_hfid(c)
    [] pc[c] = "J_snapP"    -> J_snapP(c)    [] pc[c] = "J_snapE"    -> J_snapE(c)    [] pc[c] = "J_snapC"   -> J_snapC(c)
    [] pc[c] = "J_bcast"    -> J_bcast(c)    [] pc[c] = "M_init"     -> M_init(c)
    [] pc[c] = "M_state"    -> M_state(c)    [] pc[c] = "V_disc"     -> V_disc(c)     [] pc[c] = "V_discrm"  -> V_discrm(c)
    [] pc[c] = "L_unsub"    -> L_unsub(c)    [] pc[c] = "L_ent"      -> L_ent(c)      [] pc[c] = "L_entcomp" -> L_entcomp(c)
    [] pc[c] = "L_entrm"    -> L_entrm(c)    [] pc[c] = "L_entb"     -> L_entb(c)     [] pc[c] = "L_cancel"  -> L_cancel(c)
    [] pc[c] = "L_cancelid" -> L_cancelid(c) [] pc[c] = "L_rmp"      -> L_rmp(c)      [] pc[c] = "L_leaveb"  -> L_leaveb(c)
    [] pc[c] = "L_count"    -> L_count(c)    [] pc[c] = "L_remove"   -> L_remove(c)   [] pc[c] = "L_rmcount" -> L_rmcount(c)
    [] pc[c] = "L_rmreuse"  -> L_rmreuse(c)  [] pc[c] = "E_id"       -> E_id(c)
    [] pc[c] = "E_add"      -> E_add(c)      [] pc[c] = "E_bcast"    -> E_bcast(c)
    [] pc[c] = "D_get"      -> D_get(c)      [] pc[c] = "D_comp"     -> D_comp(c)     [] pc[c] = "D_rm"      -> D_rm(c)
    [] pc[c] = "D_bcast"    -> D_bcast(c)    [] pc[c] = "D_vget"     -> D_vget(c)     [] pc[c] = "D_vrm"     -> D_vrm(c)
    [] pc[c] = "A_get"      -> A_get(c)      [] pc[c] = "A_cur"      -> A_cur(c)      [] pc[c] = "A_set"     -> A_set(c)
    [] pc[c] = "A_bcast"    -> A_bcast(c)    [] pc[c] = "S_get"      -> S_get(c)      [] pc[c] = "S_id"      -> S_id(c)
    [] pc[c] = "S_set"      -> S_set(c)      [] pc[c] = "S_bcast"    -> S_bcast(c)

Step(c) == /\ ~Idle(c) /\ CanAcquire(c) /\ Body(c) /\ prog' = prog

Quiescent == \A c \in Conns : Idle(c) /\ prog[c] = <<>>
\* every request issued so far has returned (the end, or a barrier)
AtRest    == \A c \in Conns : Idle(c) /\ (prog[c] = <<>> \/ Head(prog[c]).k = "Barrier")

Next == \/ \E c \in Conns : Begin(c) \/ Step(c)
        \/ Barrier
        \/ (Quiescent /\ UNCHANGED vars)

Init == /\ reg = Empty /\ sidgen = NewGen /\ gauge = 0 /\ objs = <<>> /\ mst = <<>>
        /\ conn = [c \in Conns |-> [sess |-> 0, pid |-> 0, own |-> {}, fid |-> 0, ms |-> 0]]
        /\ pc = [c \in Conns |-> "idle"]
        /\ loc = [c \in Conns |-> NoLoc]
        /\ held = [c \in Conns |-> {}]
        /\ out = [c \in Conns |-> <<>>]
        /\ prog \in ProgSet

Spec == Init /\ [][Next]_vars

(***************************************************************************)
(* Properties                                                              *)
(***************************************************************************)
Registered(s) == objs[s].id \in DOMAIN reg /\ reg[objs[s].id] = s
Joined(c)     == conn[c].pid # 0
Settled(c)    == Idle(c) /\ Joined(c)

\* C07/C10: a connection that is in a session (and not in the middle of a request) is in a registered session,
\* as the participant it believes to be; two such connections with the same session id are in the same session
NoOrphan == \A c \in Conns : Settled(c) =>
              /\ Registered(conn[c].sess)
              /\ conn[c].pid \in DOMAIN objs[conn[c].sess].parts
              /\ objs[conn[c].sess].parts[conn[c].pid] = c
SidUnique == \A c, d \in Conns : Settled(c) /\ Settled(d) /\ objs[conn[c].sess].id = objs[conn[d].sess].id
                                   => conn[c].sess = conn[d].sess

\* C10: ids handed out are not handed out again while in use
SidSource == /\ \A i \in sidgen.free : i \notin DOMAIN reg /\ i <= sidgen.cur
             /\ \A i \in DOMAIN reg : i <= sidgen.cur
             /\ \A c, d \in Conns : c # d /\ pc[c] = "J_add" /\ pc[d] = "J_add" => objs[loc[c].s].id # objs[loc[d].s].id
             /\ \A c \in Conns : pc[c] = "J_add" => objs[loc[c].s].id \notin DOMAIN reg /\ objs[loc[c].s].id \notin sidgen.free

\* C07 at quiescence: registered sessions have members, ended sessions have none, the gauge counts the registry
LifecycleBody ==
              /\ \A i \in DOMAIN reg : objs[reg[i]].parts # Empty /\ ~objs[reg[i]].closed
              /\ \A s \in 1..Len(objs) : ~Registered(s) => objs[s].parts = Empty
              /\ gauge = Cardinality(DOMAIN reg)
              /\ \A s \in 1..Len(objs) : \A p \in DOMAIN objs[s].parts :
                     LET c == objs[s].parts[p] IN conn[c].sess = s /\ conn[c].pid = p
Lifecycle == AtRest => LifecycleBody

\* C11 (structure): at quiescence every member has exactly its own frame handler registered in its session
FrameHandlersBody == \A s \in 1..Len(objs) :
                   /\ Rng(objs[s].fh) = Rng(objs[s].parts)
                   /\ \A i \in DOMAIN objs[s].fh : conn[objs[s].fh[i]].fid = i
                   /\ Cardinality(DOMAIN objs[s].fh) = Cardinality(DOMAIN objs[s].parts)
FrameHandlers == AtRest => FrameHandlersBody

\* C09: nobody is parked holding a lock at quiescence; (deadlock freedom itself is TLC's deadlock check)
NoLockLeft == AtRest => \A c \in Conns : held[c] = {}

\* entity ownership bookkeeping (C05 structure): what a handler believes it owns exists or was deleted by itself
OwnSane == \A c \in Conns : Settled(c) => \A e \in conn[c].own :
              e \in DOMAIN objs[conn[c].sess].ents => objs[conn[c].sess].ents[e].owner = conn[c].pid

(***************************************************************************)
(* C01, schedules clause: the replica a client builds from what it is sent *)
(***************************************************************************)
RECURSIVE Fold(_, _)
Fold(r, ms) ==
  IF ms = <<>> THEN r ELSE
  LET m == Head(ms)
      r2 == CASE m.t = "JOIN_RESPONSE"            -> [me |-> m.pid, P |-> {}, E |-> {}, A |-> {}, snap |-> FALSE]
              [] m.t = "SESSION_STATE"            -> [r EXCEPT !.P = m.parts, !.E = m.ents, !.snap = TRUE]
              [] m.t = "JOIN_BROADCAST"           -> [r EXCEPT !.P = @ \cup {m.pid}]
              [] m.t = "LEAVE_BROADCAST"          -> [r EXCEPT !.P = @ \ {m.pid}]
              [] m.t = "ENTITY_ADD_RESPONSE"      -> [r EXCEPT !.E = @ \cup {[id |-> m.eid, owner |-> r.me]}]
              [] m.t = "ENTITY_ADD_BROADCAST"     -> [r EXCEPT !.E = @ \cup {[id |-> m.eid, owner |-> m.owner]}]
              [] m.t \in {"ENTITY_DELETE_RESPONSE", "ENTITY_DELETE_BROADCAST"}
                                                  -> [r EXCEPT !.E = {x \in @ : x.id # m.eid}, !.A = {x \in @ : x.eid # m.eid}]
              [] m.t \in {"VIKJA_STATE", "ODAL_STATE"} -> [r EXCEPT !.A = m.acts]
              [] m.t \in {"ACTION_RESPONSE", "ACTION_BROADCAST", "ASSET_ADD_RESPONSE", "ASSET_ADD_BROADCAST"}
                                                  -> [r EXCEPT !.A = {x \in @ : x.eid # m.eid} \cup {[eid |-> m.eid, v |-> m.v]}]
              [] OTHER                            -> r
  IN Fold(r2, Tail(ms))

Replica(c) == Fold([me |-> 0, P |-> {}, E |-> {}, A |-> {}, snap |-> FALSE], out[c])

\* non-persistent entities of a departed owner are deleted with a broadcast each, so the client needs no extra rule
Truth(c) == LET s == conn[c].sess IN
            [P |-> DOMAIN objs[s].parts, E |-> EntRows(s),
             A |-> IF HasMod /\ objs[s].ms # 0 THEN ActRows(objs[s].ms) ELSE {}]

ConvBody == \A c \in Conns : Joined(c) =>
          LET r == Replica(c) IN r.P = Truth(c).P /\ r.E = Truth(c).E /\ (HasMod => r.A = Truth(c).A)
Conv == AtRest => ConvBody

\* The ways convergence fails on this tree, as predicates over what the connections were sent (so that they can
\* be evaluated on a recorded execution of the real handlers as well); known findings D9, D13, D15.
Relays == {"JOIN_BROADCAST", "LEAVE_BROADCAST", "ENTITY_ADD_BROADCAST", "ENTITY_DELETE_BROADCAST", "ACTION_BROADCAST", "ASSET_ADD_BROADCAST"}

\* D9: after its join response a connection is handed a relay before its snapshot
RECURSIVE RelayBeforeSnapshot(_, _)
RelayBeforeSnapshot(ms, waiting) ==
  IF ms = <<>> THEN FALSE ELSE
  LET m == Head(ms) IN
  IF m.t = "JOIN_RESPONSE" THEN RelayBeforeSnapshot(Tail(ms), TRUE)
  ELSE IF m.t = "SESSION_STATE" THEN RelayBeforeSnapshot(Tail(ms), FALSE)
  ELSE IF waiting /\ m.t \in Relays THEN TRUE
  ELSE RelayBeforeSnapshot(Tail(ms), waiting)
D9Symptom  == \E c \in Conns : RelayBeforeSnapshot(out[c], FALSE)

\* D13 (repaired: ModuleStateOrSet): a connection works on a module state that is not the session's
D13Symptom == HasMod /\ \E c \in Conns : Joined(c) /\ conn[c].ms # 0 /\ objs[conn[c].sess].ms # conn[c].ms

\* D15: the module state handed to a newcomer is read after (or before) a change whose core part the snapshot
\* already (or not yet) reflects: VIKJA_STATE names an entity the SESSION_STATE of the same join does not hold
RECURSIVE StaleModuleState(_, _)
StaleModuleState(ms, E) ==
  IF ms = <<>> THEN FALSE ELSE
  LET m == Head(ms) IN
  IF m.t = "SESSION_STATE" THEN StaleModuleState(Tail(ms), {x.id : x \in m.ents})
  ELSE IF m.t = "ENTITY_ADD_BROADCAST" THEN StaleModuleState(Tail(ms), E \cup {m.eid})
  ELSE IF m.t = "ENTITY_DELETE_BROADCAST" THEN StaleModuleState(Tail(ms), E \ {m.eid})
  ELSE IF m.t \in {"VIKJA_STATE", "ODAL_STATE"} THEN (\E a \in m.acts : a.eid \notin E) \/ StaleModuleState(Tail(ms), E)
  ELSE StaleModuleState(Tail(ms), E)
D15Symptom == \E c \in Conns : StaleModuleState(out[c], {})

\* D16: a relay the recipient cannot apply - an action or a delete for an entity it does not hold (the sender's
\* check of the entity and its change are two critical sections; a delete can fall between them)
RECURSIVE Inapplicable(_, _, _)
Inapplicable(ms, E, snap) ==
  IF ms = <<>> THEN FALSE ELSE
  LET m == Head(ms) IN
  IF m.t = "JOIN_RESPONSE" THEN Inapplicable(Tail(ms), {}, FALSE)
  ELSE IF m.t = "SESSION_STATE" THEN Inapplicable(Tail(ms), {x.id : x \in m.ents}, TRUE)
  ELSE IF m.t \in {"ENTITY_ADD_BROADCAST", "ENTITY_ADD_RESPONSE"} THEN Inapplicable(Tail(ms), E \cup {m.eid}, snap)
  ELSE IF m.t = "ENTITY_DELETE_RESPONSE" THEN Inapplicable(Tail(ms), E \ {m.eid}, snap)
  ELSE IF m.t = "ENTITY_DELETE_BROADCAST" THEN (snap /\ m.eid \notin E) \/ Inapplicable(Tail(ms), E \ {m.eid}, snap)
  ELSE IF m.t \in {"ACTION_BROADCAST", "ASSET_ADD_BROADCAST"} THEN (snap /\ m.eid \notin E) \/ Inapplicable(Tail(ms), E, snap)
  ELSE Inapplicable(Tail(ms), E, snap)
D16Symptom == \E c \in Conns : Inapplicable(out[c], {}, FALSE)

\* D17: two writers of the same key - storing an action and relaying it are two critical sections, so the relays of
\* two concurrent actions can reach a member in the opposite order of the stores: it is handed an older action after
\* a newer one and, applying relays as they come, ends with the older
RECURSIVE OlderAfterNewer(_, _)
OlderAfterNewer(ms, latest) ==
  IF ms = <<>> THEN FALSE ELSE
  LET m == Head(ms) IN
  IF m.t = "JOIN_RESPONSE" THEN OlderAfterNewer(Tail(ms), Empty)
  ELSE IF m.t \in {"VIKJA_STATE", "ODAL_STATE"} THEN OlderAfterNewer(Tail(ms), [e \in {a.eid : a \in m.acts} |-> (CHOOSE a \in m.acts : a.eid = e).v])
  ELSE IF m.t \in {"ACTION_RESPONSE", "ACTION_BROADCAST", "ASSET_ADD_RESPONSE", "ASSET_ADD_BROADCAST"}
       THEN (m.eid \in DOMAIN latest /\ m.v < latest[m.eid]) \/ OlderAfterNewer(Tail(ms), Put(latest, m.eid, m.v))
  ELSE OlderAfterNewer(Tail(ms), latest)
D17Symptom == \E c \in Conns : OlderAfterNewer(out[c], Empty)

\* D18: an action outlives its entity - a departure clears the actions of the leaver's entities (module pass) before
\* it removes the entities; an action set in between stays in the module state of the session for good
D18Symptom == HasMod /\ \E s \in Rng(reg) : objs[s].ms # 0 /\ \E e \in (DOMAIN mst[objs[s].ms]) \ {0} : e \notin DOMAIN objs[s].ents

\* witnesses: a state at rest in which convergence has failed in the given way (TLC's counterexample to W_x is a
\* shortest schedule that produces it; tools/relayconc_check.py forces it on the real handlers)
W_D9  == ~(AtRest /\ ~ConvBody /\ D9Symptom)
W_D13 == ~(AtRest /\ ~ConvBody /\ D13Symptom)
W_D15 == ~(AtRest /\ ~ConvBody /\ D15Symptom /\ ~D9Symptom)
W_D16 == ~(AtRest /\ ~ConvBody /\ D16Symptom /\ ~D9Symptom)
W_D17 == ~(AtRest /\ ~ConvBody /\ D17Symptom /\ ~D9Symptom /\ ~D15Symptom /\ ~D16Symptom)
W_D18 == ~(AtRest /\ ~ConvBody /\ D18Symptom /\ ~D9Symptom /\ ~D15Symptom /\ ~D16Symptom /\ ~D17Symptom)

\* convergence can only fail in one of these ways
ConvUnlessKnown == Conv \/ D9Symptom \/ D13Symptom \/ D15Symptom \/ D16Symptom \/ D17Symptom \/ D18Symptom
=============================================================================
