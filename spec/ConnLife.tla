------------------------------- MODULE ConnLife -------------------------------
(***************************************************************************)
(* Connection-grain specification of websocket/handler.go: handler.Handle  *)
(* with its three goroutines (main loop, receiver, sender), the buffered    *)
(* disconnect channel, the scheduler queue, the context and the wait group. *)
(*                                                                         *)
(* C08: whatever the client does, HandleDisconnect runs exactly once and   *)
(* Handle returns (no wedge, no ghost).                                    *)
(*                                                                         *)
(* `Blocking` selects how handler.disconnect puts an error on the           *)
(* disconnect channel: TRUE = blocking send (the code before the D6 fix),  *)
(* FALSE = non-blocking send that drops the error when the channel is full *)
(* (the repaired code).                                                    *)
(***************************************************************************)
EXTENDS Integers, Sequences, FiniteSets, TLC

CONSTANTS K,          \* capacity of disconnectChan (8 in the code)
          Q,          \* capacity of the scheduler queue (256 in the code)
          MaxFrames,  \* bound on the frames the client sends
          Blocking,   \* see above
          Drain       \* TRUE: after the loop has ended the queue is drained until the receiver is gone
                      \* (repaired code); FALSE: nobody reads the queue any more (D14)

VARIABLES
  ctx,     \* "live" | "cancelled"
  dch,     \* number of errors waiting in disconnectChan
  q,       \* scheduler queue: the frames waiting for the main loop ("f": has a core handler, "m": module / unknown type)
  mpc,     \* main loop:  "loop" | "handling" (inside handleMessage) | "blocked" (stuck in disconnect)
           \*             | "wait" (wg.Wait) | "done" (Handle returned)
  rpc,     \* receiver:   "read" | "qfull" (blocked in Dispatch) | "blocked" (stuck in disconnect) | "exit"
  spc,     \* sender:     "run" | "blocked" | "drain" (a write failed: emptying the queue until the context is cancelled) | "exit"
  sock,    \* "open" | "sclosed" (server closed it: handleDisconnect) | "cclosed" (client went away)
  hd,      \* number of times HandleDisconnect ran
  sent,    \* frames sent by the client so far
  pend     \* the receiver holds a frame it could not enqueue yet ("" = none)

cvars == <<ctx, dch, q, mpc, rpc, spc, sock, hd, sent, pend>>

CInit == /\ ctx = "live" /\ dch = 0 /\ q = <<>> /\ mpc = "loop" /\ rpc = "read" /\ spc = "run"
         /\ sock = "open" /\ hd = 0 /\ sent = 0 /\ pend = ""

\* handler.disconnect(err) by process p: next pc when it succeeds, "blocked" when it cannot
Push == dch < K
CanPush == Push \/ ~Blocking

(***************************************************************************)
(* Client                                                                  *)
(***************************************************************************)
\* the client sends a frame; the receiver goroutine reads it
\*   "f" / "m": decodable (with / without a core handler); whether its handler succeeds is decided when it is handled
\*   "junk"   : undecodable / not binary / no timestamp: hwebsocket.Receive fails
\* the receiver's side of it (in a recorded execution the observer may log a frame that was read
\* just before the socket was closed after the closing itself; the trace specification uses this directly)
RecvFrame(cls) ==
  /\ rpc = "read" /\ sent < MaxFrames
  /\ sent' = sent + 1
  /\ IF cls = "junk"
     THEN \* receive error -> disconnect -> the receiver returns
          /\ IF CanPush THEN rpc' = "exit" /\ dch' = (IF Push THEN dch + 1 ELSE dch)
                        ELSE rpc' = "blocked" /\ dch' = dch
          /\ UNCHANGED <<q, pend>>
     ELSE IF Len(q) < Q
     THEN /\ q' = Append(q, cls) /\ UNCHANGED <<rpc, dch, pend>>
     ELSE /\ rpc' = "qfull" /\ pend' = cls /\ UNCHANGED <<q, dch>>    \* Dispatch blocks on the full queue
  /\ UNCHANGED <<ctx, mpc, spc, sock, hd>>

ClientSends(cls) == sock = "open" /\ RecvFrame(cls)

ClientCloses ==
  /\ sock = "open" /\ sock' = "cclosed"
  /\ UNCHANGED <<ctx, dch, q, mpc, rpc, spc, hd, sent, pend>>

(***************************************************************************)
(* Receiver goroutine (startReceiving)                                     *)
(***************************************************************************)
RecvUnblocksQueue ==          \* space in the queue again: the pending frame goes in
  /\ rpc = "qfull" /\ Len(q) < Q
  /\ q' = Append(q, pend) /\ pend' = "" /\ rpc' = "read"
  /\ UNCHANGED <<ctx, dch, mpc, spc, sock, hd, sent>>

RecvSeesClosed ==             \* the socket is gone: the blocking read fails -> disconnect -> return
  /\ rpc = "read" /\ sock # "open"
  /\ IF CanPush THEN rpc' = "exit" /\ dch' = (IF Push THEN dch + 1 ELSE dch)
                ELSE rpc' = "blocked" /\ dch' = dch
  /\ UNCHANGED <<ctx, q, mpc, spc, sock, hd, sent, pend>>

RecvSeesCtx ==                \* between two reads the receiver notices the cancelled context
  /\ rpc = "read" /\ ctx = "cancelled" /\ rpc' = "exit"
  /\ UNCHANGED <<ctx, dch, q, mpc, spc, sock, hd, sent, pend>>

RecvUnblocks ==               \* (blocking variant) room on the disconnect channel again
  /\ rpc = "blocked" /\ Push /\ dch' = dch + 1 /\ rpc' = "exit"
  /\ UNCHANGED <<ctx, q, mpc, spc, sock, hd, sent, pend>>

(***************************************************************************)
(* Sender goroutine (startSending)                                         *)
(***************************************************************************)
SendSeesCtx ==
  /\ spc = "run" /\ ctx = "cancelled" /\ spc' = "exit"
  /\ UNCHANGED <<ctx, dch, q, mpc, rpc, sock, hd, sent, pend>>

SendFails ==                  \* a write on a socket that is gone (or whose deadline passed) -> disconnect; the sender
  /\ spc = "run" /\ sock # "open"   \* then keeps emptying its queue until the handler is done with the session (ConnSend.tla)
  /\ IF CanPush THEN spc' = "drain" /\ dch' = (IF Push THEN dch + 1 ELSE dch)
                ELSE spc' = "blocked" /\ dch' = dch
  /\ UNCHANGED <<ctx, q, mpc, rpc, sock, hd, sent, pend>>

SendUnblocks ==
  /\ spc = "blocked" /\ Push /\ dch' = dch + 1 /\ spc' = "drain"
  /\ UNCHANGED <<ctx, q, mpc, rpc, sock, hd, sent, pend>>

SendDrainEnds ==
  /\ spc = "drain" /\ ctx = "cancelled" /\ spc' = "exit"
  /\ UNCHANGED <<ctx, dch, q, mpc, rpc, sock, hd, sent, pend>>

(***************************************************************************)
(* Main loop (the select of handler.Handle)                                *)
(***************************************************************************)
MainPops ==                   \* case msg := <-queue: the main loop takes the head and starts handleMessage
  /\ mpc = "loop" /\ ctx = "live" /\ q # <<>>
  /\ q' = Tail(q) /\ mpc' = "handling"
  /\ UNCHANGED <<ctx, dch, rpc, spc, sock, hd, sent, pend>>

\* handler.disconnect(err) called by the main loop itself
MainPush(next) ==
  IF CanPush THEN mpc' = next /\ dch' = (IF Push THEN dch + 1 ELSE dch)
  ELSE mpc' = "blocked" /\ dch' = dch            \* the loop is the only reader of the channel: stuck for good

MainFinishes(res) ==          \* handleMessage returns; on an error ("bad") disconnect(err)
  /\ mpc = "handling"
  /\ IF res = "ok" THEN mpc' = "loop" /\ dch' = dch ELSE MainPush("loop")
  /\ UNCHANGED <<ctx, q, rpc, spc, sock, hd, sent, pend>>

MainIdle ==                   \* case <-idleTimer.C: disconnect(idle)
  /\ mpc = "loop" /\ ctx = "live"
  /\ MainPush("loop")
  /\ UNCHANGED <<ctx, q, rpc, spc, sock, hd, sent, pend>>

MainDisconnects ==            \* case err := <-disconnectChan: handleDisconnect(err); cancel()
  /\ mpc = "loop" /\ ctx = "live" /\ dch > 0
  /\ dch' = dch - 1 /\ hd' = hd + 1 /\ ctx' = "cancelled"
  /\ sock' = IF sock = "open" THEN "sclosed" ELSE sock
  /\ UNCHANGED <<q, mpc, rpc, spc, sent, pend>>

MainLeavesLoop ==             \* for ctx.Err() == nil  is false: go to wg.Wait()
  /\ mpc = "loop" /\ ctx = "cancelled" /\ mpc' = "wait"
  /\ UNCHANGED <<ctx, dch, q, rpc, spc, sock, hd, sent, pend>>

MainDrains ==                 \* (repaired code) while waiting for the goroutines the queue is emptied
  /\ Drain /\ mpc = "wait" /\ q # <<>> /\ q' = <<>>
  /\ UNCHANGED <<ctx, dch, mpc, rpc, spc, sock, hd, sent, pend>>

MainReturns ==                \* wg.Wait() returns: Handle returns (deferred drains run)
  /\ mpc = "wait" /\ rpc = "exit" /\ spc = "exit" /\ mpc' = "done"
  /\ UNCHANGED <<ctx, dch, q, rpc, spc, sock, hd, sent, pend>>

Done == mpc = "done" /\ UNCHANGED cvars

Server == RecvUnblocksQueue \/ RecvSeesClosed \/ RecvSeesCtx \/ RecvUnblocks
          \/ SendSeesCtx \/ SendFails \/ SendUnblocks \/ SendDrainEnds
          \/ MainPops \/ (\E res \in {"ok", "bad"} : MainFinishes(res)) \/ MainDisconnects \/ MainLeavesLoop \/ MainDrains \/ MainReturns
CNext == Server \/ (\E cls \in {"f", "junk"} : ClientSends(cls)) \/ ClientCloses \/ Done
CNextIdle == CNext \/ MainIdle

CSpec     == CInit /\ [][CNext]_cvars /\ WF_cvars(Server)
CSpecIdle == CInit /\ [][CNextIdle]_cvars /\ WF_cvars(Server)

(***************************************************************************)
(* Properties                                                              *)
(***************************************************************************)
DisconnectAtMostOnce == hd <= 1
ReturnedMeansDisconnected == mpc = "done" => hd = 1
NeverStuck == mpc # "blocked" /\ rpc # "blocked" /\ spc # "blocked"
\* once the client has gone away or has sent something fatal, the handler returns
Fatal == sock = "cclosed" \/ dch > 0 \/ hd > 0
HandleReturns == Fatal ~> (mpc = "done")
=============================================================================
