--------------------------------- MODULE Auth ---------------------------------
(***************************************************************************)
(* C15: only holders of a valid discovery-service token reach the relay or *)
(* the smoke test (http/auth.go + hdsclient.VerifyUserAuth).               *)
(*                                                                         *)
(* The server holds no secret (not registered), or the secret issued last. *)
(* A request can carry a token in three places; the first non-empty one in *)
(* the order header ("Bearer " prefix required), query, cookie is the one  *)
(* that counts.  Token classes are abstract: what matters is whether the   *)
(* class verifies against the secret the server holds NOW.                 *)
(***************************************************************************)
EXTENDS Integers, Sequences, FiniteSets, TLC

Secrets  == {"none", "s1", "s2"}
CONSTANT Classes   \* subset of {"absent", "valid_s1", "valid_s2", "wrongsig", "alg_none", "alg_rs256", "expired",
                   \*            "future_near", "future_far", "garbage", "payload_tampered", "header_tampered", "empty_key",
                   \*            "just_expired" (3 s ago: no leeway on exp), "expires_soon" (in 45 s)}
Carriers == {"header", "query", "cookie"}
Endpoints == {"relay", "smoketest"}

\* which classes verify against secret s (future_near: issued at most 10 s in the future, signed with s1)
Verifies(cls, s) ==
  \/ (cls = "valid_s1" /\ s = "s1")
  \/ (cls = "valid_s2" /\ s = "s2")
  \/ (cls = "future_near" /\ s = "s1")
  \/ (cls = "expires_soon" /\ s = "s1")
  \/ (cls = "empty_key" /\ s = "none")     \* signed with the empty key: what "no secret" would verify if it were used as one

\* a header without the "Bearer " prefix counts as no header token
Effective(req) ==
  IF req.header # "absent" /\ req.bearer THEN req.header
  ELSE IF req.query # "absent" THEN req.query
  ELSE req.cookie

Admit(secret, req) == secret # "none" /\ Verifies(Effective(req), secret)

VARIABLES secret, entered, last
avars == <<secret, entered, last>>

Reqs == [header : Classes, query : Classes, cookie : Classes, bearer : BOOLEAN, endpoint : Endpoints]

AInit == secret = "none" /\ entered = 0 /\ last = [admit |-> FALSE, rotated |-> FALSE]
Request == \E r \in Reqs :
              LET a == Admit(secret, r) IN
              /\ entered' = IF a THEN (entered + 1) % 2 ELSE entered   \* the inner handler runs only when admitted
              /\ last' = [admit |-> a, rotated |-> FALSE, req |-> r]
              /\ UNCHANGED secret
Rotate  == \E s \in Secrets : secret' = s /\ last' = [admit |-> FALSE, rotated |-> TRUE] /\ UNCHANGED entered
ANext == Request \/ Rotate
ASpec == AInit /\ [][ANext]_avars

\* properties of the decision table
NoSecretNoEntry  == (secret = "none" /\ ~last.rotated) => ~last.admit
RejectedIsInert  == [][(~last'.admit /\ ~last'.rotated) => entered' = entered]_avars
OldSecretRejected == (~last.rotated /\ last.admit) =>
                        LET c == Effective(last.req) IN (secret = "s1" => c \in {"valid_s1", "future_near", "expires_soon"}) /\ (secret = "s2" => c = "valid_s2")
OnlyFirstCounts  == (~last.rotated /\ last.admit /\ last.req.header # "absent" /\ last.req.bearer) => Verifies(last.req.header, secret)
=============================================================================
