----------------------------- MODULE RelayProps -----------------------------
(***************************************************************************)
(* The listed properties as predicates over one step                       *)
(*      (pre, ev, exp, cur)  +  history variables (views, gh).             *)
(*                                                                         *)
(* The same operators are used                                             *)
(*   - by RelayMC  : pre/cur are model states, checked for every reachable *)
(*                   transition of the specification (TLC, exhaustive);    *)
(*   - by RelayTrace: pre/cur are the states LOGGED by the real code, ev    *)
(*                   carries the messages the real code sent.              *)
(* A predicate that compares with `exp` (= Step(pre, ev)) is trivially     *)
(* true on the model and is what binds the code to the specification in a  *)
(* trace; a predicate written over observations only (C02, C03, C05, C07,  *)
(* C10, the views of C01) is meaningful on both.                           *)
(***************************************************************************)
EXTENDS Relay

VARIABLES pre,    \* state before the last event
          cur,    \* state after it
          ev,     \* [step, conn, req, given, sid, ret, out, proc]
          exp,    \* Step(pre, ev)
          views,  \* c -> the client's replica (Appendix D)
          gh      \* ghosts

InitEv == [step |-> "Init", conn |-> 0, req |-> [k |-> "none"], given |-> [k |-> "none"], proc |-> FALSE,
           sid |-> 0, ret |-> "ok", out |-> NoOut, dead |-> {}, obsOK |-> TRUE, orphans |-> {},
           paired |-> FALSE, fl |-> {}, out0 |-> NoOut, same0 |-> TRUE, reqs |-> <<>>, rets |-> <<>>]

IsStep  == ev.step # "Init"
Actor   == ev.conn
Rq      == ev.req
HasActor == IsStep /\ ev.conn \in Conns
Proc    == HasActor /\ ev.proc          \* a request was handled in this step

RespTypes == {"ERROR", "JOIN_RESPONSE", "ENTITY_ADD_RESPONSE", "ENTITY_DELETE_RESPONSE",
              "TYPE_ADD_RESPONSE", "GET_NAME_RESPONSE", "GET_ID_RESPONSE", "COMP_ADD_RESPONSE",
              "COMP_DELETE_RESPONSE", "COMP_LIST_RESPONSE", "SUB_RESPONSE", "UNSUB_RESPONSE",
              "PING_RESPONSE", "ACTION_RESPONSE", "ASSET_ADD_RESPONSE", "RECEIPT_RESPONSE",
              "SIGNED_LATENCY_RESPONSE", "GROUND_RESPONSE", "REGION_RESPONSE", "DEBUG_RESPONSE"}
CompRelayTypes == {"COMP_ADD_BROADCAST", "COMP_UPDATE_BROADCAST", "COMP_DELETE_BROADCAST"}
C02RelayTypes  == {"JOIN_BROADCAST", "LEAVE_BROADCAST", "ENTITY_ADD_BROADCAST", "ENTITY_DELETE_BROADCAST",
                   "POSE_BROADCAST", "CUSTOM_BROADCAST", "ACTION_BROADCAST", "ASSET_ADD_BROADCAST"}
StateMsgTypes  == {"SESSION_STATE", "VIKJA_STATE", "ODAL_STATE"}

Sel(s, T)  == SelectSeq(s, LAMBDA m : m.t \in T)
Has(s, T)  == \E i \in DOMAIN s : s[i].t \in T
First(s, T) == s[CHOOSE i \in DOMAIN s : s[i].t \in T /\ \A j \in DOMAIN s : s[j].t \in T => i <= j]

SidOf(st, c) == st.conns[c].sid
PidOf(st, c) == st.conns[c].pid
MembersOf(st, s) == {c \in Conns : st.conns[c].sid = s}
SessOr(st, s) == IF s \in DOMAIN st.sess THEN st.sess[s] ELSE NewSession(0)

\* the actor left the session it was in / became a member of a session
Departed == HasActor /\ SidOf(pre, Actor) # 0
            /\ (SidOf(cur, Actor) # SidOf(pre, Actor) \/ PidOf(cur, Actor) # PidOf(pre, Actor))
Arrived  == HasActor /\ SidOf(cur, Actor) # 0
            /\ (SidOf(cur, Actor) # SidOf(pre, Actor) \/ PidOf(cur, Actor) # PidOf(pre, Actor))

(***************************************************************************)
(* Client views (Appendix D)                                               *)
(***************************************************************************)
NoView == [joined |-> FALSE, sid |-> 0, pid |-> 0, parts |-> {}, ents |-> <<>>,
           comps |-> <<>>, unsynced |-> {}, mysubs |-> {}, acts |-> <<>>, assets |-> <<>>, bad |-> <<>>]

EntOfRow(r) == [owner |-> r[2], flag |-> r[3], px |-> r[4]]
Bad(v, m)   == [v EXCEPT !.bad = Append(@, m)]
DropEnt(v, e) == [v EXCEPT !.ents = Drop(@, {e}),
                           !.comps = Drop(@, {k \in DOMAIN @ : k[2] = e}),
                           !.acts = Drop(@, {k \in DOMAIN @ : k[1] = e}),
                           !.assets = Drop(@, {e})]

ApplyMsg(v, m, req) ==
  CASE m.t = "JOIN_RESPONSE" ->
         [NoView EXCEPT !.joined = TRUE, !.sid = m.sid, !.pid = m.pid, !.parts = {m.pid}, !.bad = v.bad]
    [] m.t = "SESSION_STATE" /\ "dup" \notin DOMAIN m ->
         [v EXCEPT !.parts = m.parts,
                   !.ents  = [e \in {r[1] : r \in m.ents} |-> EntOfRow(CHOOSE r \in m.ents : r[1] = e)],
                   !.comps = [k \in {<<r[1], r[2]>> : r \in m.comps} |-> (CHOOSE r \in m.comps : <<r[1], r[2]>> = k)[3]],
                   !.unsynced = {}]
    [] m.t = "VIKJA_STATE" /\ "dup" \notin DOMAIN m ->
         [v EXCEPT !.acts = [k \in {<<r[1], r[2]>> : r \in m.acts} |->
                               LET r == CHOOSE x \in m.acts : <<x[1], x[2]>> = k IN [ts |-> r[3], data |-> r[4]]]]
    [] m.t = "ODAL_STATE" /\ "dup" \notin DOMAIN m ->
         [v EXCEPT !.assets = [e \in {r[1] : r \in m.assets} |->
                               LET r == CHOOSE x \in m.assets : x[1] = e IN [id |-> r[2], asset |-> r[3], owner |-> r[4]]]]
    [] m.t = "JOIN_BROADCAST" ->
         IF m.pid \in v.parts THEN Bad(v, m) ELSE [v EXCEPT !.parts = @ \cup {m.pid}]
    [] m.t = "LEAVE_BROADCAST" ->
         IF m.pid \notin v.parts THEN Bad(v, m) ELSE [v EXCEPT !.parts = @ \ {m.pid}]
    [] m.t = "ENTITY_ADD_BROADCAST" ->
         IF m.ent[1] \in DOMAIN v.ents THEN Bad(v, m)
         ELSE [v EXCEPT !.ents = Put(@, m.ent[1], EntOfRow(m.ent))]
    [] m.t = "ENTITY_ADD_RESPONSE" ->
         IF m.eid \in DOMAIN v.ents THEN Bad(v, m)
         ELSE [v EXCEPT !.ents = Put(@, m.eid, [owner |-> v.pid, flag |-> req.flag,
                                               px |-> IF req.px < 0 THEN 0 ELSE req.px])]
    [] m.t = "ENTITY_DELETE_BROADCAST" ->
         IF m.eid \notin DOMAIN v.ents THEN Bad(v, m) ELSE DropEnt(v, m.eid)
    [] m.t = "ENTITY_DELETE_RESPONSE" ->
         IF req.eid \notin DOMAIN v.ents THEN Bad(v, m) ELSE DropEnt(v, req.eid)
    [] m.t = "POSE_BROADCAST" ->
         IF m.eid \notin DOMAIN v.ents THEN Bad(v, m) ELSE [v EXCEPT !.ents[m.eid].px = m.px]
    [] m.t = "COMP_ADD_BROADCAST" ->
         LET k == <<m.comp[1], m.comp[2]>> IN
         IF k[1] \notin v.unsynced /\ k \in DOMAIN v.comps THEN Bad(v, m)
         ELSE [v EXCEPT !.comps = Put(@, k, m.comp[3])]
    [] m.t = "COMP_ADD_RESPONSE" ->
         [v EXCEPT !.comps = Put(@, <<req.tid, req.eid>>, req.data)]
    [] m.t = "COMP_UPDATE_BROADCAST" ->
         LET k == <<m.comp[1], m.comp[2]>> IN
         IF k[1] \notin v.unsynced /\ k \notin DOMAIN v.comps THEN Bad(v, m)
         ELSE [v EXCEPT !.comps = Put(@, k, m.comp[3])]
    [] m.t = "COMP_DELETE_BROADCAST" ->
         LET k == <<m.comp[1], m.comp[2]>> IN
         IF k[1] \notin v.unsynced /\ k \notin DOMAIN v.comps THEN Bad(v, m)
         ELSE [v EXCEPT !.comps = Drop(@, {k})]
    [] m.t = "COMP_DELETE_RESPONSE" ->
         [v EXCEPT !.comps = Drop(@, {<<req.tid, req.eid>>})]
    [] m.t = "COMP_LIST_RESPONSE" /\ "dup" \notin DOMAIN m ->
         [v EXCEPT !.comps = [k \in ({x \in DOMAIN @ : x[1] # req.tid} \cup {<<r[1], r[2]>> : r \in m.comps}) |->
                                IF k[1] = req.tid THEN (CHOOSE r \in m.comps : <<r[1], r[2]>> = k)[3] ELSE @[k]],
                   !.unsynced = @ \ {req.tid}]
    \* what the client believes it is subscribed to: its own accepted subscribe / unsubscribe requests
    [] m.t = "SUB_RESPONSE"   -> [v EXCEPT !.mysubs = @ \cup {req.tid}]
    [] m.t = "UNSUB_RESPONSE" -> [v EXCEPT !.mysubs = @ \ {req.tid}]
    [] m.t = "ACTION_BROADCAST" ->
         IF m.act[1] \notin DOMAIN v.ents THEN Bad(v, m)
         ELSE [v EXCEPT !.acts = Put(@, <<m.act[1], m.act[2]>>, [ts |-> m.act[3], data |-> m.act[4]])]
    [] m.t = "ACTION_RESPONSE" ->
         [v EXCEPT !.acts = Put(@, <<req.eid, req.name>>, [ts |-> req.ats, data |-> req.data])]
    [] m.t = "ASSET_ADD_BROADCAST" ->
         IF m.asset[1] \notin DOMAIN v.ents THEN Bad(v, m)
         ELSE [v EXCEPT !.assets = Put(@, m.asset[1], [id |-> m.asset[2], asset |-> m.asset[3], owner |-> m.asset[4]])]
    [] m.t = "ASSET_ADD_RESPONSE" ->
         [v EXCEPT !.assets = Put(@, req.eid, [id |-> m.aid, asset |-> req.asset, owner |-> v.pid])]
    [] OTHER -> v

RECURSIVE ApplySeq(_, _, _)
ApplySeq(v, ms, req) == IF ms = <<>> THEN v ELSE ApplySeq(ApplyMsg(v, Head(ms), req), Tail(ms), req)

\* An accepted pose / component update of the client's own is applied locally
\* (nothing is sent back to the sender): the client knows what it sent.
OwnSilent(v, req, preS, postS, pid) ==
  CASE req.k = "Pose" /\ req.eid \in DOMAIN v.ents /\ req.eid \in DOMAIN postS.ents /\ req.eid \in DOMAIN preS.ents
         /\ preS.ents[req.eid].owner = pid /\ req.px >= 0 ->
         [v EXCEPT !.ents[req.eid].px = req.px]
    [] req.k = "CompUpdate" /\ req.eid \in DOMAIN preS.ents /\ <<req.tid, req.eid>> \in DOMAIN preS.comps ->
         [v EXCEPT !.comps = Put(@, <<req.tid, req.eid>>, req.data)]
    [] OTHER -> v

\* Component types whose content changed in this step without the client being told.
Missed(preS, postS, msgs) ==
  LET told == {msgs[i].comp[1] : i \in {j \in DOMAIN msgs : msgs[j].t \in CompRelayTypes}}
      keys == (DOMAIN preS.comps) \cup (DOMAIN postS.comps)
      \* what disappears with its entity is told through the entity-delete relay
      changed(k) == /\ k[2] \in DOMAIN postS.ents
                    /\ \/ (k \in DOMAIN preS.comps) # (k \in DOMAIN postS.comps)
                       \/ (k \in DOMAIN preS.comps /\ k \in DOMAIN postS.comps /\ preS.comps[k] # postS.comps[k])
  IN {k[1] : k \in {x \in keys : changed(x)}} \ told

NextViews(v0s, e, st0, st1) ==
  [c \in Conns |->
     LET v1   == ApplySeq(v0s[c], e.out[c], e.req)
         sid0 == st0.conns[c].sid
         stay == sid0 # 0 /\ st1.conns[c].sid = sid0 /\ st1.conns[c].pid = st0.conns[c].pid
                 /\ sid0 \in DOMAIN st0.sess /\ sid0 \in DOMAIN st1.sess
         v2   == IF c = e.conn /\ e.proc /\ e.ret = "ok" /\ stay
                 THEN OwnSilent(v1, e.req, st0.sess[sid0], st1.sess[sid0], st0.conns[c].pid) ELSE v1
         v3   == IF stay /\ ~(c = e.conn /\ e.proc)
                 THEN [v2 EXCEPT !.unsynced = @ \cup Missed(st0.sess[sid0], st1.sess[sid0], e.out[c])]
                 ELSE v2
     IN IF st1.conns[c].sid = 0 THEN [NoView EXCEPT !.bad = v3.bad] ELSE v3]

(***************************************************************************)
(* Ghosts: ids ever issued per session incarnation (keyed by uuid), and    *)
(* whether what was issued in the last step was fresh                      *)
(***************************************************************************)
NoGhost == [pids |-> <<>>, eids |-> <<>>, aids |-> <<>>, uuids |-> {}, fresh |-> TRUE,
            lastPose |-> <<>>, poseOrdered |-> TRUE, synced |-> TRUE, gone |-> <<>>, noPoseAfterDelete |-> TRUE]
GetOr(f, k, d) == IF k \in DOMAIN f THEN f[k] ELSE d
ByUuid(st, u)  == {s \in DOMAIN st.sess : st.sess[s].uuid = u}

NextGhost(g, e, st0, st1, v0s, v1s) ==
  LET us   == {st1.sess[s].uuid : s \in DOMAIN st1.sess}
      us0  == {st0.sess[s].uuid : s \in DOMAIN st0.sess}
      pidsNow(st, u) == UNION {DOMAIN st.sess[s].mem : s \in ByUuid(st, u)}
      eidsNow(st, u) == UNION {DOMAIN st.sess[s].ents : s \in ByUuid(st, u)}
      aidsNow(st, u) == UNION {{st.sess[s].assets[x].id : x \in DOMAIN st.sess[s].assets} : s \in ByUuid(st, u)}
      newU == us \ us0
      \* ids ANNOUNCED in this step (the answer to an asset / entity add names the id it issued): they count as issued
      \* in the session the requester is in afterwards, whether or not the state of that session shows them
      actorU == IF e.conn \in Conns /\ st1.conns[e.conn].sid \in DOMAIN st1.sess THEN {st1.sess[st1.conns[e.conn].sid].uuid} ELSE {}
      saidA  == IF e.conn \in Conns THEN {e.out[e.conn][i].aid : i \in {j \in DOMAIN e.out[e.conn] : e.out[e.conn][j].t = "ASSET_ADD_RESPONSE"}} ELSE {}
      saidE  == IF e.conn \in Conns THEN {e.out[e.conn][i].eid : i \in {j \in DOMAIN e.out[e.conn] : e.out[e.conn][j].t = "ENTITY_ADD_RESPONSE"}} ELSE {}
      fresh == /\ newU \cap g.uuids = {}
               /\ \A u \in actorU : saidA \cap GetOr(g.aids, u, {}) = {} /\ saidE \cap GetOr(g.eids, u, {}) = {}
               /\ \A u \in us : /\ (pidsNow(st1, u) \ pidsNow(st0, u)) \cap GetOr(g.pids, u, {}) = {}
                                /\ (eidsNow(st1, u) \ eidsNow(st0, u)) \cap GetOr(g.eids, u, {}) = {}
                                /\ (aidsNow(st1, u) \ aidsNow(st0, u)) \cap GetOr(g.aids, u, {}) = {}
      \* per observer and entity: origin timestamp of the last pose relay received (C11 order)
      poseMsgs(c) == Sel(e.out[c], {"POSE_BROADCAST"})
      lp0 == g.lastPose
      lp1 == [c \in Conns |->
                IF st1.conns[c].sid = 0 THEN <<>>
                ELSE LET old == GetOr(lp0, c, <<>>)
                         ms  == poseMsgs(c)
                         es  == {ms[i].eid : i \in DOMAIN ms}
                     IN [x \in (DOMAIN old) \cup es |->
                           IF x \in es THEN (ms[CHOOSE i \in DOMAIN ms : ms[i].eid = x /\ \A j \in DOMAIN ms : ms[j].eid = x => j <= i]).ots
                           ELSE old[x]]]
  IN [ uuids |-> g.uuids \cup us,
       pids  |-> [u \in (DOMAIN g.pids) \cup us |-> GetOr(g.pids, u, {}) \cup pidsNow(st1, u)],
       eids  |-> [u \in (DOMAIN g.eids) \cup us |-> GetOr(g.eids, u, {}) \cup eidsNow(st1, u) \cup (IF u \in actorU THEN saidE ELSE {})],
       aids  |-> [u \in (DOMAIN g.aids) \cup us |-> GetOr(g.aids, u, {}) \cup aidsNow(st1, u) \cup (IF u \in actorU THEN saidA ELSE {})],
       fresh |-> fresh,
       lastPose |-> lp1,
       \* per observer: the entities whose deletion it has been told about (relay, or the answer to its own request)
       \* since it is in this session; ids are not reissued, so no pose relay may name one of them again
       gone |-> [c \in Conns |->
                   IF st1.conns[c].sid = 0 \/ st1.conns[c].sid # st0.conns[c].sid \/ st1.conns[c].pid # st0.conns[c].pid
                      \/ Has(e.out[c], {"JOIN_RESPONSE"}) THEN {}       \* (a new session can come under the same id and pid)
                   ELSE GetOr(g.gone, c, {})
                        \cup {e.out[c][i].eid : i \in {j \in DOMAIN e.out[c] : e.out[c][j].t = "ENTITY_DELETE_BROADCAST"}}
                        \cup (IF c = e.conn /\ Has(e.out[c], {"ENTITY_DELETE_RESPONSE"}) /\ "eid" \in DOMAIN e.req THEN {e.req.eid} ELSE {})],
       noPoseAfterDelete |-> \A c \in Conns : \A i \in DOMAIN e.out[c] :
                                e.out[c][i].t = "POSE_BROADCAST" => e.out[c][i].eid \notin GetOr(g.gone, c, {}),
       \* every pose relay is newer than the previous one for that observer and entity
       \* (origin timestamp 0 = the run carries no timestamps, e.g. the exhaustive model)
       poseOrdered |-> \A c \in Conns :
                          LET ms == poseMsgs(c)  old == GetOr(lp0, c, <<>>) IN
                          \A i \in DOMAIN ms :
                             \/ ms[i].ots = 0
                             \/ /\ (ms[i].eid \in DOMAIN old /\ st0.conns[c].sid = st1.conns[c].sid) => ms[i].ots > old[ms[i].eid]
                                /\ \A j \in DOMAIN ms : (j < i /\ ms[j].eid = ms[i].eid) => ms[j].ots < ms[i].ots,
       \* a type the client is subscribed to before and after - by the server's books or by its own (the requests
       \* it was answered) - never becomes unsynced
       synced |-> \A c \in Conns :
                     LET s == st1.conns[c].sid  p == st1.conns[c].pid IN
                     (s # 0 /\ s = st0.conns[c].sid /\ p = st0.conns[c].pid /\ s \in DOMAIN st0.sess /\ s \in DOMAIN st1.sess) =>
                        \A t \in v1s[c].unsynced \ v0s[c].unsynced :
                           /\ ~(p \in SubsOf(st0.sess[s], t) /\ p \in SubsOf(st1.sess[s], t))
                           /\ ~(t \in v0s[c].mysubs /\ t \in v1s[c].mysubs) ]

(***************************************************************************)
(* C01  every participant's replicated view converges to the server state  *)
(***************************************************************************)
ViewMatches(c) ==
  LET v == views[c]  s == SidOf(cur, c)  S == cur.sess[s] IN
  /\ v.joined /\ v.sid = s /\ v.pid = PidOf(cur, c)
  /\ v.parts = DOMAIN S.mem
  /\ v.ents = [e \in DOMAIN S.ents |-> [owner |-> S.ents[e].owner, flag |-> S.ents[e].flag, px |-> S.ents[e].px]]
  /\ \A k \in (DOMAIN v.comps) \cup (DOMAIN S.comps) :
        k[1] \notin v.unsynced => (k \in DOMAIN v.comps /\ k \in DOMAIN S.comps /\ v.comps[k] = S.comps[k])
  /\ ("vikja" \in Mods => v.acts = S.acts)
  /\ ("odal" \in Mods => v.assets = S.assets)

Ok_C01 ==
  IsStep /\ Flags = {} =>
    \A c \in Conns :
      /\ views[c].bad = <<>>                                  \* nothing it could not apply
      /\ gh.synced                                           \* while subscribed, sync is never lost
      /\ (SidOf(cur, c) # 0 /\ SidOf(cur, c) \in DOMAIN cur.sess => ViewMatches(c))

(***************************************************************************)
(* C02  each accepted change is relayed exactly once to every other member *)
(*      (observational: acceptance is read off the logged response)        *)
(***************************************************************************)
ExpectedRelays ==
  IF ~HasActor THEN [d \in Conns |-> <<>>] ELSE
  LET c  == Actor
      s0 == SidOf(pre, c)  p0 == PidOf(pre, c)
      s1 == SidOf(cur, c)  p1 == PidOf(cur, c)
      outc == ev.out[c]
      \* departure: the others that were in s0 (they all stay: only c acts)
      R0 == IF Departed THEN MembersOf(pre, s0) \ {c} ELSE {}
      removed == IF Departed /\ s0 \in DOMAIN pre.sess
                 THEN (DOMAIN pre.sess[s0].ents) \ (DOMAIN SessOr(cur, s0).ents) ELSE {}
      depSeq == [i \in 1..Cardinality(removed) |-> EntDelB(SortedSeq(removed)[i], -1)] \o <<LeaveB(p0)>>
      \* arrival: the others that are in s1 before and after
      R1 == IF Arrived THEN (MembersOf(pre, s1) \cap MembersOf(cur, s1)) \ {c} ELSE {}
      arrSeq == IF Proc /\ Rq.k = "Join" THEN <<JoinB(p1, Rq.ts)>> ELSE <<JoinB(p1, -1)>>
      \* everything else: same membership before and after
      R  == IF ~Departed /\ ~Arrived /\ s0 # 0 THEN MembersOf(pre, s0) \ {c} ELSE {}
      S1 == SessOr(cur, s0)
      one ==
        IF ~Proc \/ ev.ret # "ok" THEN <<>>
        ELSE CASE Rq.k = "EntityAdd" /\ Has(outc, {"ENTITY_ADD_RESPONSE"}) ->
                    LET e == First(outc, {"ENTITY_ADD_RESPONSE"}).eid IN
                    IF e \in DOMAIN S1.ents THEN <<EntAddB(EntRow(S1, e), Rq.ts)>> ELSE <<EntAddB(<<e, -1, -1, -1>>, Rq.ts)>>
               [] Rq.k = "EntityDelete" /\ Has(outc, {"ENTITY_DELETE_RESPONSE"}) -> <<EntDelB(Rq.eid, Rq.ts)>>
               [] Rq.k = "Pose" /\ s0 \in DOMAIN pre.sess /\ Rq.eid \in DOMAIN pre.sess[s0].ents
                    /\ pre.sess[s0].ents[Rq.eid].owner = p0 /\ Rq.px >= 0 -> <<PoseB(Rq.eid, Rq.px, Rq.ts)>>
               [] Rq.k = "Custom" /\ Rq.to = <<>> /\ Rq.len <= MaxBody -> <<CustomB(p0, Rq.len, Rq.dig, Rq.ts)>>
               [] Rq.k = "Action" /\ Has(outc, {"ACTION_RESPONSE"}) ->
                    <<ActionB(<<Rq.eid, Rq.name, Rq.ats, Rq.data>>, Rq.ts)>>
               [] Rq.k = "AssetAdd" /\ Has(outc, {"ASSET_ADD_RESPONSE"}) ->
                    <<AssetAddB(<<Rq.eid, First(outc, {"ASSET_ADD_RESPONSE"}).aid, Rq.asset, p0>>, Rq.ts)>>
               [] OTHER -> <<>>
  IN [d \in Conns |->
        (IF d \in R0 THEN depSeq ELSE <<>>) \o (IF d \in R1 THEN arrSeq ELSE <<>>) \o (IF d \in R THEN one ELSE <<>>)]

C02Kinds == IF Proc /\ Rq.k = "Custom" /\ Rq.to # <<>> THEN C02RelayTypes \ {"CUSTOM_BROADCAST"} ELSE C02RelayTypes

Ok_C02 ==
  IsStep /\ Flags = {} =>
    LET E == ExpectedRelays IN
    /\ \A d \in Conns : Sel(ev.out[d], C02Kinds) = Sel(E[d], C02Kinds)
    \* a request that is answered with an error (and leaves the connection open) is relayed to no one - whatever
    \* the state did: the relays above are derived from the logged state change, this clause from the answer
    /\ (Proc /\ ev.ret = "ok" /\ Has(ev.out[Actor], {"ERROR"})) =>
          \A d \in Conns \ {Actor} : Sel(ev.out[d], C02RelayTypes) = <<>>

(***************************************************************************)
(* C03  sessions are isolated (local respect; the differential of the      *)
(*      property is a second, harness-driven check)                        *)
(***************************************************************************)
Touched == IF ~HasActor THEN {ev.sid} ELSE {SidOf(pre, Actor), SidOf(cur, Actor)} \ {0}

Ok_C03 ==
  IsStep =>
    /\ \A s \in (DOMAIN pre.sess) \cup (DOMAIN cur.sess) :
         s \notin Touched =>
           /\ s \in DOMAIN pre.sess /\ s \in DOMAIN cur.sess /\ pre.sess[s] = cur.sess[s]
           /\ \A d \in MembersOf(pre, s) : ev.out[d] = <<>> /\ pre.conns[d] = cur.conns[d]
    \* connections that are in no session receive nothing unless they are the actor
    /\ \A d \in Conns : (d # Actor /\ SidOf(pre, d) = 0) => ev.out[d] = <<>> /\ (ev.step = "Tick" \/ pre.conns[d] = cur.conns[d])

(***************************************************************************)
(* C04  every request is answered exactly once with the defined outcome;   *)
(*      a refused request changes nothing                                  *)
(***************************************************************************)
SameMembership(c) == SidOf(pre, c) = SidOf(cur, c) /\ PidOf(pre, c) = PidOf(cur, c) /\ pre.conns[c].own = cur.conns[c].own

Refused == Proc /\ (ev.ret # "ok" \/ Has(ev.out[Actor], {"ERROR"}))

Ok_C04 ==
  Proc =>
    /\ \E o \in exp : /\ Sel(ev.out[Actor], RespTypes) = Sel(o.out[Actor], RespTypes)
                      /\ ev.ret = o.ret
    /\ \A d \in Conns \ {Actor} : Sel(ev.out[d], RespTypes) = <<>>
    /\ Refused => pre.sess = cur.sess /\ SameMembership(Actor)
    \* a request that needs a session, from a connection that is in none, touches no session
    /\ SidOf(pre, Actor) = 0 /\ Rq.k # "Join" => pre.sess = cur.sess

(***************************************************************************)
(* C05  only the creator of an entity can delete it, move it or attach an  *)
(*      asset to it                                                        *)
(***************************************************************************)
Ok_C05 ==
  IsStep =>
    /\ gh.fresh
    /\ \A s \in (DOMAIN pre.sess) \cap (DOMAIN cur.sess) :
         pre.sess[s].uuid = cur.sess[s].uuid =>
         \A e \in DOMAIN pre.sess[s].ents :
           LET E0 == pre.sess[s].ents[e]
               byOwner == HasActor /\ SidOf(pre, Actor) = s /\ PidOf(pre, Actor) = E0.owner /\ ev.step \in {"Req", "Proc", "Disc", "Wire"}
           IN /\ e \notin DOMAIN cur.sess[s].ents => byOwner
              /\ e \in DOMAIN cur.sess[s].ents =>
                   /\ cur.sess[s].ents[e].owner = E0.owner
                   /\ cur.sess[s].ents[e].px # E0.px => byOwner
                   /\ (e \in DOMAIN cur.sess[s].assets
                       /\ (e \notin DOMAIN pre.sess[s].assets \/ pre.sess[s].assets[e] # cur.sess[s].assets[e])) => byOwner
                   \* .. and what is attached to an entity that stays does not go away through anybody else either
                   /\ (e \in DOMAIN pre.sess[s].assets /\ e \notin DOMAIN cur.sess[s].assets) => byOwner

(***************************************************************************)
(* C06  a departure removes exactly the leaver's non-persistent entities   *)
(*      and attachments                                                    *)
(***************************************************************************)
\* "its entities" are the entities it created (the owner recorded with the entity), whatever the connection's own
\* bookkeeping of them says at that moment
OwnedBy(st, c) ==
  LET cn == st.conns[c] IN
  IF cn.sid \in DOMAIN st.sess
  THEN {e \in DOMAIN st.sess[cn.sid].ents : st.sess[cn.sid].ents[e].owner = cn.pid} ELSE {}

Ok_C06 ==
  Departed /\ SidOf(pre, Actor) \in DOMAIN pre.sess =>
    LET c == Actor  s0 == SidOf(pre, c)
        L == LeaveOf([pre EXCEPT !.conns[c].own = OwnedBy(pre, c)], c, NoOut)
        \* the session the actor left, if it still exists (an id may be reused at once)
        alive(st) == s0 \in DOMAIN st.sess /\ st.sess[s0].uuid = pre.sess[s0].uuid
        want == L.st.sess[s0]
        got  == cur.sess[s0]
        rest == MembersOf(pre, s0) \ {c}
    IN /\ alive(cur) = alive(L.st)
       /\ alive(cur) =>
            /\ got.ents = want.ents /\ got.comps = want.comps /\ got.acts = want.acts
            /\ got.assets = want.assets /\ got.subs = want.subs /\ got.mem = want.mem
       /\ \A d \in rest : Sel(ev.out[d], {"ENTITY_DELETE_BROADCAST", "LEAVE_BROADCAST"})
                          = Sel(L.out[d], {"ENTITY_DELETE_BROADCAST", "LEAVE_BROADCAST"})

NoDangling(st) ==
  \A s \in DOMAIN st.sess :
    LET S == st.sess[s] IN
    /\ \A k \in DOMAIN S.comps : k[2] \in DOMAIN S.ents
    /\ \A k \in DOMAIN S.acts : k[1] \in DOMAIN S.ents
    /\ \A e \in DOMAIN S.assets : e \in DOMAIN S.ents
    /\ \A t \in DOMAIN S.subs : S.subs[t] \subseteq DOMAIN S.mem

Ok_C06b == IsStep => NoDangling(cur)

(***************************************************************************)
(* C07  a session is joinable exactly while it has members                 *)
(***************************************************************************)
Ok_C07 ==
  IsStep =>
    /\ \A s \in DOMAIN cur.sess : DOMAIN cur.sess[s].mem # {} /\ cur.sess[s].ticking
    /\ cur.gauge = Cardinality(DOMAIN cur.sess)
    /\ \A c \in Conns : SidOf(cur, c) # 0 =>
          /\ SidOf(cur, c) \in DOMAIN cur.sess
          /\ PidOf(cur, c) \in DOMAIN cur.sess[SidOf(cur, c)].mem
          /\ cur.sess[SidOf(cur, c)].mem[PidOf(cur, c)] = c
    /\ \A s \in DOMAIN cur.sess : \A p \in DOMAIN cur.sess[s].mem :
          cur.sess[s].mem[p] \in Conns /\ SidOf(cur, cur.sess[s].mem[p]) = s /\ PidOf(cur, cur.sess[s].mem[p]) = p
    \* a join answered with success leaves the requester in the session found under the returned id
    \* (every connection answered in this step: one in a sequential step, several in a concurrent block)
    /\ \A c \in Conns : Has(ev.out[c], {"JOIN_RESPONSE"}) =>
          LET m == First(ev.out[c], {"JOIN_RESPONSE"}) IN
          /\ m.sid \in DOMAIN cur.sess /\ SidOf(cur, c) = m.sid /\ PidOf(cur, c) = m.pid
          /\ cur.sess[m.sid].uuid = m.uuid
    \* a session that is new under an id (first use or reuse) starts empty under a new uuid
    /\ \A s \in DOMAIN cur.sess :
          (s \notin DOMAIN pre.sess \/ pre.sess[s].uuid # cur.sess[s].uuid) =>
             /\ cur.sess[s].uuid \notin {pre.sess[x].uuid : x \in DOMAIN pre.sess}
             /\ cur.sess[s].ents = <<>> /\ cur.sess[s].comps = <<>> /\ cur.sess[s].types = <<>>
             /\ cur.sess[s].acts = <<>> /\ cur.sess[s].assets = <<>> /\ cur.sess[s].subs = <<>>
             /\ (ev.step # "Block" => Cardinality(DOMAIN cur.sess[s].mem) = 1)
    /\ gh.fresh
    /\ ev.dead = {}         \* no ended session keeps a running frame worker
    /\ ev.orphans = {}      \* nobody is in a session other than the one registered under its id

(***************************************************************************)
(* Concurrent blocks (schedules clauses of C01, C02, C07, C09): a block is *)
(* a set of requests issued concurrently by different connections; the     *)
(* record carries what every connection was sent, in order, and the state  *)
(* at quiescence.  Only convergence at quiescence is demanded.             *)
(***************************************************************************)
IsBlock == IsStep /\ ev.step = "Block"

\* a client must treat adds as upserts and deletes of unknown ids as no-ops under concurrency
ApplyLenient(v, m, req) ==
  CASE m.t = "JOIN_BROADCAST" -> [v EXCEPT !.parts = @ \cup {m.pid}]
    [] m.t = "LEAVE_BROADCAST" -> [v EXCEPT !.parts = @ \ {m.pid}]
    [] m.t = "ENTITY_ADD_BROADCAST" -> [v EXCEPT !.ents = Put(@, m.ent[1], EntOfRow(m.ent))]
    [] m.t = "ENTITY_DELETE_BROADCAST" -> DropEnt(v, m.eid)
    [] m.t = "POSE_BROADCAST" -> IF m.eid \in DOMAIN v.ents THEN [v EXCEPT !.ents[m.eid].px = m.px] ELSE v
    [] m.t = "COMP_ADD_BROADCAST" -> [v EXCEPT !.comps = Put(@, <<m.comp[1], m.comp[2]>>, m.comp[3])]
    [] m.t = "COMP_UPDATE_BROADCAST" -> [v EXCEPT !.comps = Put(@, <<m.comp[1], m.comp[2]>>, m.comp[3])]
    [] m.t = "COMP_DELETE_BROADCAST" -> [v EXCEPT !.comps = Drop(@, {<<m.comp[1], m.comp[2]>>})]
    [] m.t = "ACTION_BROADCAST" -> [v EXCEPT !.acts = Put(@, <<m.act[1], m.act[2]>>, [ts |-> m.act[3], data |-> m.act[4]])]
    [] m.t = "ASSET_ADD_BROADCAST" -> [v EXCEPT !.assets = Put(@, m.asset[1], [id |-> m.asset[2], asset |-> m.asset[3], owner |-> m.asset[4]])]
    [] OTHER -> ApplyMsg(v, m, req)

RECURSIVE ApplySeqLenient(_, _, _)
ApplySeqLenient(v, ms, req) == IF ms = <<>> THEN v ELSE ApplySeqLenient(ApplyLenient(v, Head(ms), req), Tail(ms), req)

ReqOfConn(e, c) ==   \* the request connection c issued in the block (if any)
  IF \E i \in DOMAIN e.reqs : e.reqs[i][1] = c THEN e.reqs[CHOOSE i \in DOMAIN e.reqs : e.reqs[i][1] = c][2] ELSE [k |-> "none"]

NextViewsBlock(v0s, e, st1) ==
  [c \in Conns |->
     LET v1 == ApplySeqLenient(v0s[c], e.out[c], ReqOfConn(e, c))
     IN IF st1.conns[c].sid = 0 THEN [NoView EXCEPT !.bad = v1.bad] ELSE v1]

\* C01 (schedules): at quiescence every member's replica equals the server's state
Ok_C01c ==
  IsBlock /\ ev.ret = "ok" /\ Flags = {} =>
    \A c \in Conns : (SidOf(cur, c) # 0 /\ SidOf(cur, c) \in DOMAIN cur.sess) => ViewMatches(c)

\* (after a concurrent block the sequential steps that follow are judged by convergence only)
Ok_C01q == IsStep /\ ev.ret # "deadlock" /\ Flags = {} =>
             \A c \in Conns : (SidOf(cur, c) # 0 /\ SidOf(cur, c) \in DOMAIN cur.sess) => ViewMatches(c)

\* C09: every request of the block completed
Ok_C09c == IsBlock => ev.ret = "ok" /\ \A i \in DOMAIN ev.rets : ev.rets[i] \in {"ok", "err", "closed"}

\* C02 (schedules): with respect to the participants that are members throughout the block, every accepted
\* change of another connection is relayed exactly once
Ok_C02c ==
  IsBlock /\ ev.ret = "ok" /\ Flags = {} =>
    \A d \in Conns :
      LET s == SidOf(pre, d) IN
      (s # 0 /\ SidOf(cur, d) = s /\ PidOf(cur, d) = PidOf(pre, d) /\ ReqOfConn(ev, d).k \notin {"Join", "Disc"}) =>
        \A i \in DOMAIN ev.reqs :
          LET c == ev.reqs[i][1]  rq == ev.reqs[i][2]  outc == ev.out[c]
              n(T, P(_)) == Cardinality({j \in DOMAIN ev.out[d] : ev.out[d][j].t \in T /\ P(ev.out[d][j])})
          IN c # d =>
             /\ (rq.k = "EntityAdd" /\ SidOf(pre, c) = s /\ Has(outc, {"ENTITY_ADD_RESPONSE"})) =>
                   n({"ENTITY_ADD_BROADCAST"}, LAMBDA m : m.ent[1] = First(outc, {"ENTITY_ADD_RESPONSE"}).eid) = 1
             /\ (rq.k = "EntityDelete" /\ SidOf(pre, c) = s /\ Has(outc, {"ENTITY_DELETE_RESPONSE"})) =>
                   n({"ENTITY_DELETE_BROADCAST"}, LAMBDA m : m.eid = rq.eid) = 1
             /\ (rq.k = "Join" /\ Has(outc, {"JOIN_RESPONSE"}) /\ First(outc, {"JOIN_RESPONSE"}).sid = s) =>
                   n({"JOIN_BROADCAST"}, LAMBDA m : m.pid = First(outc, {"JOIN_RESPONSE"}).pid) = 1
             /\ (SidOf(pre, c) = s /\ (SidOf(cur, c) # s \/ PidOf(cur, c) # PidOf(pre, c))) =>
                   n({"LEAVE_BROADCAST"}, LAMBDA m : m.pid = PidOf(pre, c)) = 1
             /\ (rq.k = "Custom" /\ SidOf(pre, c) = s /\ rq.to = <<>> /\ rq.len <= MaxBody) =>
                   n({"CUSTOM_BROADCAST"}, LAMBDA m : m.pid = PidOf(pre, c) /\ m.dig = rq.dig) = 1

\* C03 / C12 after a concurrent block (and in every later step of such a history): the state invariants
\* the two properties rest on
Ok_C03c == IsStep /\ ev.ret # "deadlock" => ev.orphans = {}
Ok_C12c == IsStep /\ ev.ret # "deadlock" =>
             /\ ev.obsOK
             /\ \A s \in DOMAIN cur.sess :
                  /\ \A n1, n2 \in DOMAIN cur.sess[s].types : cur.sess[s].types[n1] = cur.sess[s].types[n2] => n1 = n2
                  /\ \A k \in DOMAIN cur.sess[s].comps : k[1] \in Rng(cur.sess[s].types) /\ k[2] \in DOMAIN cur.sess[s].ents

(***************************************************************************)
(* C10  server-issued ids never collide and are never reissued             *)
(***************************************************************************)
Ok_C10 ==
  IsStep =>
    /\ gh.fresh
    /\ \A s \in DOMAIN cur.sess :
         LET S == cur.sess[s] IN
         /\ \A n1, n2 \in DOMAIN S.types : S.types[n1] = S.types[n2] => n1 = n2
         /\ \A e1, e2 \in DOMAIN S.assets : S.assets[e1].id = S.assets[e2].id => e1 = e2
    /\ \A s1, s2 \in DOMAIN cur.sess : cur.sess[s1].uuid = cur.sess[s2].uuid => s1 = s2
    /\ DOMAIN cur.sess \cap cur.free = {}
    /\ ev.obsOK      \* names <-> ids are inverse, every object is filed under its own id
    /\ ev.orphans = {} \* two live sessions never share an id: every connection's session is the registered one

(***************************************************************************)
(* C11  pose updates: parked, coalesced per frame, relayed in order        *)
(***************************************************************************)
SchedPart(st) == [c \in Conns |-> [q |-> st.conns[c].q, pp |-> st.conns[c].pp, pc |-> st.conns[c].pc]]
PoseVals(st)  == [s \in DOMAIN st.sess |-> [e \in DOMAIN st.sess[s].ents |-> st.sess[s].ents[e].px]]

Ok_C11 ==
  IsStep =>
    \* the scheduler did what the specification says (park / flush / pop)
    /\ \E o \in exp : SchedPart(o.st) = SchedPart(cur)
    \* a processed pose update: stored and relayed as specified, or dropped without any effect
    /\ (Proc /\ Rq.k = "Pose") =>
          \E o \in exp : /\ PoseVals(o.st) = PoseVals(cur)
                         /\ \A d \in Conns : Sel(ev.out[d], {"POSE_BROADCAST"}) = Sel(o.out[d], {"POSE_BROADCAST"})
                         /\ o.ret = ev.ret
    \* no pose relay outside a processed pose update
    /\ ~(Proc /\ Rq.k = "Pose") => \A d \in Conns : ~Has(ev.out[d], {"POSE_BROADCAST"})
    \* per observer and entity the relayed updates arrive in the order they were sent
    /\ gh.poseOrdered
    \* no pose is relayed for an entity once its deletion has been relayed to that observer
    /\ gh.noPoseAfterDelete

(***************************************************************************)
(* C12  entity components behave as a map keyed by (type, entity)          *)
(***************************************************************************)
CompKinds == {"TypeAdd", "GetName", "GetId", "CompAdd", "CompDelete", "CompUpdate", "CompList"}
CompPart(st) == [s \in DOMAIN st.sess |-> [comps |-> st.sess[s].comps, types |-> st.sess[s].types, tcur |-> st.sess[s].tcur]]
CompRespTypes == {"ERROR", "TYPE_ADD_RESPONSE", "GET_NAME_RESPONSE", "GET_ID_RESPONSE", "COMP_ADD_RESPONSE",
                  "COMP_DELETE_RESPONSE", "COMP_LIST_RESPONSE"}

Ok_C12 ==
  IsStep =>
    /\ \E o \in exp : CompPart(o.st) = CompPart(cur)
    /\ (Proc /\ Rq.k \in CompKinds) =>
          \E o \in exp : /\ Sel(ev.out[Actor], CompRespTypes) = Sel(o.out[Actor], CompRespTypes)
                         /\ CompPart(o.st) = CompPart(cur)
    \* an update of a component that was never added is relayed to no one
    /\ (Proc /\ Rq.k = "CompUpdate" /\ SidOf(pre, Actor) \in DOMAIN pre.sess
          /\ <<Rq.tid, Rq.eid>> \notin DOMAIN pre.sess[SidOf(pre, Actor)].comps) =>
          \A d \in Conns : ~Has(ev.out[d], {"COMP_UPDATE_BROADCAST"})
    /\ \A s \in DOMAIN cur.sess : \A k \in DOMAIN cur.sess[s].comps :
          k[1] \in Rng(cur.sess[s].types) /\ k[2] \in DOMAIN cur.sess[s].ents

(***************************************************************************)
(* C13  component notifications follow component-type subscriptions        *)
(***************************************************************************)
SubsPart(st) == [s \in DOMAIN st.sess |-> st.sess[s].subs]

Ok_C13 ==
  IsStep /\ Flags = {} =>
    /\ \E o \in exp : /\ SubsPart(o.st) = SubsPart(cur)
                      /\ \A d \in Conns : Sel(ev.out[d], CompRelayTypes) = Sel(o.out[d], CompRelayTypes)
    /\ (Proc /\ Rq.k \in {"Sub", "Unsub"}) =>
          \E o \in exp : Sel(ev.out[Actor], RespTypes) = Sel(o.out[Actor], RespTypes)
    \* never notified about its own change
    /\ Proc => ~Has(ev.out[Actor], CompRelayTypes)

(***************************************************************************)
(* C14  custom messages reach exactly the addressed members, within limit  *)
(***************************************************************************)
Ok_C14 ==
  (Proc /\ Rq.k = "Custom" /\ Flags = {}) =>
    \E o \in exp : \A d \in Conns :
       Sel(ev.out[d], {"CUSTOM_BROADCAST", "ERROR"}) = Sel(o.out[d], {"CUSTOM_BROADCAST", "ERROR"})

Ok_C14b == IsStep /\ ~(Proc /\ Rq.k = "Custom") => \A d \in Conns : ~Has(ev.out[d], {"CUSTOM_BROADCAST"})

(***************************************************************************)
(* C16  entity actions keep the latest timestamp; at most one asset        *)
(***************************************************************************)
ModPart(st) == [s \in DOMAIN st.sess |-> [acts |-> st.sess[s].acts, assets |-> st.sess[s].assets, acur |-> st.sess[s].acur]]
ModMsgTypes == {"VIKJA_STATE", "ODAL_STATE", "ACTION_RESPONSE", "ACTION_BROADCAST", "ASSET_ADD_RESPONSE", "ASSET_ADD_BROADCAST"}

Ok_C16 ==
  IsStep =>
    /\ \E o \in exp : /\ ModPart(o.st) = ModPart(cur)
                      /\ \A d \in Conns : Sel(ev.out[d], ModMsgTypes) = Sel(o.out[d], ModMsgTypes)
    /\ (Proc /\ Rq.k \in {"Action", "AssetAdd"}) =>
          \E o \in exp : Sel(ev.out[Actor], RespTypes) = Sel(o.out[Actor], RespTypes)
    /\ \A s \in DOMAIN cur.sess :
          /\ \A k \in DOMAIN cur.sess[s].acts : k[1] \in DOMAIN cur.sess[s].ents
          /\ \A e \in DOMAIN cur.sess[s].assets : e \in DOMAIN cur.sess[s].ents
    \* the stored action never goes back in time
    /\ \A s \in (DOMAIN pre.sess) \cap (DOMAIN cur.sess) :
          pre.sess[s].uuid = cur.sess[s].uuid =>
          \A k \in (DOMAIN pre.sess[s].acts) \cap (DOMAIN cur.sess[s].acts) :
             cur.sess[s].acts[k].ts >= pre.sess[s].acts[k].ts

(***************************************************************************)
(* C17  each DISABLE_* flag suppresses exactly its own message class       *)
(*      (paired runs: the same history on the real code under flag set     *)
(*       ev.fl and under no flag; ev.out / cur are the flagged run)        *)
(***************************************************************************)
Ok_C17 ==
  IsStep /\ ev.paired =>
    /\ ev.same0                                           \* same state, same handler result
    /\ \A c \in Conns : ev.out[c] = FilterSeq(ev.fl, ev.out0[c])

(***************************************************************************)
(* C20 (retention clause): the ground-plane index lives as long as the     *)
(* session - a join does not replace it                                    *)
(***************************************************************************)
Ok_C20r ==
  IsStep /\ "dagaz" \in Mods =>
    \A s \in (DOMAIN pre.sess) \cap (DOMAIN cur.sess) :
       (pre.sess[s].uuid = cur.sess[s].uuid /\ pre.sess[s].grid # 0) => cur.sess[s].grid = pre.sess[s].grid

(***************************************************************************)
(* Exact conformance (spec fidelity)                                       *)
(***************************************************************************)
Conforms == IsStep => \E o \in exp : o.st = cur /\ o.out = ev.out /\ o.ret = ev.ret
=============================================================================
