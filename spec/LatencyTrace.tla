----------------------------- MODULE LatencyTrace -----------------------------
(***************************************************************************)
(* Validates recorded executions of the real latency protocol (L1 harness, *)
(* virtual clock) against Latency.tla.  One record per request; the state  *)
(* of each connection's measurement is carried by the specification and    *)
(* compared with the logged projection of Participant.SignedLatency.       *)
(***************************************************************************)
EXTENDS Latency, Json, IOUtils

CONSTANTS Ns, Lats, MaxSteps     \* (unused here; Latency.tla declares them)
VARIABLES st, out, steps, issued

TraceFile == IF "VERIF_TRACE" \in DOMAIN IOEnv THEN IOEnv.VERIF_TRACE ELSE "trace.ndjson"
Trace == ndJsonDeserialize(TraceFile)
Conns == 1..4

VARIABLES l, ls, np, want, got, meta
tv == <<st, out, steps, issued, l, ls, np, want, got, meta>>

ToSet(s) == {s[i] : i \in DOMAIN s}
LatTypes == {"ERROR", "PING_REQUEST", "SIGNED_LATENCY_RESPONSE"}
Sel(s) == SelectSeq(s, LAMBDA m : m.t \in LatTypes)
OutOf(r, c) == IF \E i \in DOMAIN r.out : r.out[i][1] = c
               THEN (r.out[CHOOSE i \in DOMAIN r.out : r.out[i][1] = c])[2] ELSE <<>>
ConnOf(r, c) == r.post.conns[CHOOSE i \in DOMAIN r.post.conns : r.post.conns[i].c = c]
UuidOf(r, c) == LET sid == ConnOf(r, c).sid IN
                IF \E i \in DOMAIN r.post.sess : r.post.sess[i].sid = sid
                THEN (r.post.sess[CHOOSE i \in DOMAIN r.post.sess : r.post.sess[i].sid = sid]).uuid ELSE 0

\* the observed message in the shape the specification emits
Norm(m) ==
  CASE m.t = "SIGNED_LATENCY_RESPONSE" ->
         [t |-> m.t, rid |-> m.rid, wallet |-> m.wallet,
          stats |-> [min |-> m.min, max |-> m.max, mean |-> m.mean, p95 |-> m.p95, last |-> m.last,
                     n |-> m.n, ids |-> ToSet(m.ids)]]
    [] m.t = "ERROR" -> [t |-> m.t, rid |-> m.rid, code |-> m.code]
    [] OTHER -> [t |-> m.t, rid |-> m.rid]

TInit == /\ st = Idle /\ out = <<>> /\ steps = 0 /\ issued = 0
         /\ l = 1 /\ ls = [c \in Conns |-> Idle] /\ np = 1000 /\ want = <<>> /\ got = <<>>
         /\ meta = [ok |-> TRUE, joined |-> [c \in Conns |-> FALSE], final |-> FALSE,
                    clk |-> 0, t0 |-> [c \in Conns |-> 0]]

TNext ==
  /\ l <= Len(Trace) /\ l' = l + 1
  /\ UNCHANGED <<st, out, steps, issued>>
  /\ LET r == Trace[l] IN
     IF r.k = "reset"
     THEN /\ ls' = [c \in Conns |-> Idle] /\ np' = 1000 /\ want' = <<>> /\ got' = <<>>
          /\ meta' = [ok |-> TRUE, joined |-> [c \in Conns |-> FALSE], final |-> FALSE,
                      clk |-> 0, t0 |-> [c \in Conns |-> 0]]
     ELSE
       LET c == r.conn
           proc == "popped" \in DOMAIN r
           rq == IF proc THEN r.popped ELSE [k |-> "none"]
           o == Sel(OutOf(r, c))
           wasJoined == meta.joined[c]
           \* the virtual clock (microseconds) is global; a round's latency is the time since its ping was issued
           clk1 == meta.clk + (IF proc /\ "adv" \in DOMAIN rq THEN rq.adv ELSE 0)
           lat  == IF c \in Conns THEN clk1 - meta.t0[c] ELSE 0
           nowJoined == [x \in Conns |-> IF \E i \in DOMAIN r.post.conns : r.post.conns[i].c = x THEN ConnOf(r, x).sid # 0 ELSE FALSE]
           \* a new participant object (join, switch) or none (left): the measurement state is gone
           fresh == c \in Conns /\ (\E i \in DOMAIN OutOf(r, c) : OutOf(r, c)[i].t = "JOIN_RESPONSE" \/ ~nowJoined[c])
           e == CASE proc /\ rq.k = "SignedLatency" /\ wasJoined -> StartOf(ls[c], rq.rid, rq.n, rq.wallet, np + 1)
                  [] proc /\ rq.k = "SignedLatency" /\ ~wasJoined -> [st |-> ls[c], out |-> <<[t |-> "ERROR", rid |-> rq.rid, code |-> 401]>>]
                  [] proc /\ rq.k = "PingResp" /\ wasJoined -> OnPingOf(ls[c], rq.pidx, lat, np + 1)
                  [] proc /\ rq.k = "PingResp" /\ ~wasJoined -> [st |-> ls[c], out |-> <<[t |-> "ERROR", rid |-> rq.pidx, code |-> 401]>>]
                  [] OTHER -> [st |-> IF c \in Conns THEN ls[c] ELSE Idle, out |-> <<>>]
           obs == [i \in DOMAIN o |-> Norm(o[i])]
           latOK == IF c \in Conns /\ nowJoined[c] /\ ~fresh
                    THEN LET j == ConnOf(r, c).lat IN
                         /\ j.left = e.st.left /\ ToSet(j.open) = e.st.open
                         /\ {<<j.done[i][1], j.done[i][2]>> : i \in DOMAIN j.done} = {<<k, e.st.ans[k]>> : k \in DOMAIN e.st.ans}
                    ELSE TRUE
           fin == \E i \in DOMAIN o : o[i].t = "SIGNED_LATENCY_RESPONSE"
           finOK == fin => LET m == o[CHOOSE i \in DOMAIN o : o[i].t = "SIGNED_LATENCY_RESPONSE"] IN
                           /\ m.decoded /\ m.signer_ok /\ m.uuid = UuidOf(r, c) /\ m.client = ""
                           /\ Consistent(Norm(m).stats) /\ Len(m.ids) = Cardinality(ToSet(m.ids))
                           /\ m.exact_ok      \* min <= last, p95, mean <= max on the signed values themselves
       IN /\ want' = e.out /\ got' = obs
          /\ ls' = IF c \in Conns THEN [ls EXCEPT ![c] = IF fresh THEN Idle ELSE e.st] ELSE ls
          /\ np' = np + Cardinality({i \in DOMAIN o : o[i].t = "PING_REQUEST"})
          /\ meta' = [ok |-> latOK /\ finOK /\ r.ret = "ok", joined |-> nowJoined, final |-> fin, clk |-> clk1,
                      t0 |-> IF c \in Conns /\ (\E i \in DOMAIN o : o[i].t = "PING_REQUEST")
                             THEN [meta.t0 EXCEPT ![c] = clk1] ELSE meta.t0]

TSpec == TInit /\ [][TNext]_tv
Ok_C18 == want = got /\ meta.ok
TraceAccepted == TLCGet("stats").diameter - 1 = Len(Trace)
=============================================================================
