-------------------------------- MODULE Http --------------------------------
(***************************************************************************)
(* The HTTP surface that lives in this repository (http/*.go as mounted by *)
(* cmd/main.go): CORS wrapper with its pre-flight short cut, readiness,    *)
(* version, admin health, the authenticated smoke-test mount, and the      *)
(* metrics path formatter.  A decision table: request x server condition   *)
(* -> status class, CORS headers, whether the wrapped handler runs.        *)
(* Beyond the listed properties, except PreflightNeverEnters and           *)
(* NoTokenNoEntry, which are the C15 view of this surface.                 *)
(***************************************************************************)
EXTENDS Integers, Sequences, FiniteSets, TLC, Json, IOUtils

Endpoints == {"relay", "version", "ready", "adminready", "adminhealth", "smoketest"}
Methods   == {"GET", "POST", "OPTIONS", "HEAD"}
Tokens    == {"none", "valid"}
Rows      == [endpoint : Endpoints, method : Methods, ready : BOOLEAN, token : Tokens]

Cors(e) == e \in {"relay", "version", "ready"}        \* HandleWithCORS in cmd/main.go

\* the wrapped handler is reached
Enters(r) ==
  CASE Cors(r.endpoint) /\ r.method = "OPTIONS" -> FALSE            \* pre-flight: answered by the wrapper
    [] r.endpoint = "relay"     -> FALSE                            \* a plain HTTP request is no websocket handshake
    [] r.endpoint = "smoketest" -> r.token = "valid"                \* VerifyAuthTokenHandler, whatever the method
    [] OTHER -> TRUE

\* 2 = success, 4 = refused by the client's fault, 5 = not ready
StatusClass(r) ==
  CASE Cors(r.endpoint) /\ r.method = "OPTIONS" -> 2
    [] r.endpoint = "relay" -> 4
    [] r.endpoint \in {"ready", "adminready"} -> IF r.ready THEN 2 ELSE 5
    [] r.endpoint = "smoketest" -> IF r.token = "valid" THEN 2 ELSE 4
    [] OTHER -> 2

\* the CORS headers are set on the ResponseWriter before the wrapped handler runs; the websocket server answers a
\* request that is no websocket handshake on the hijacked connection, so those refusals carry no CORS headers
\* (observed on the code; recorded here as what the surface does, not as something a listed property demands)
CorsOnAnswer(r) == Cors(r.endpoint) /\ ~(r.endpoint = "relay" /\ r.method # "OPTIONS")

Expected(r) == [class |-> StatusClass(r), cors |-> CorsOnAnswer(r), enters |-> Enters(r)]

\* models http.MetricsPathFormatter
Hidden == {301, 400, 404, 405}
PathLabel(status, path) == IF status \in Hidden THEN "" ELSE path

(***************************************************************************)
(* table properties (TLC: one state per row)                               *)
(***************************************************************************)
VARIABLES row, l, chk
HInit == row \in Rows /\ l = 0 /\ chk = [ok |-> TRUE]
HNext == UNCHANGED <<row, l, chk>>
HSpec == HInit /\ [][HNext]_<<row, l, chk>>

PreflightNeverEnters == row.method = "OPTIONS" /\ Cors(row.endpoint) => ~Enters(row) /\ StatusClass(row) = 2
NoTokenNoEntry       == row.endpoint \in {"relay", "smoketest"} /\ row.token = "none" => ~Enters(row)
CorsOnEveryAnswer    == Cors(row.endpoint) /\ row.endpoint # "relay" => Expected(row).cors      \* also on 503
ReadyIff             == row.endpoint \in {"ready", "adminready"} /\ ~(Cors(row.endpoint) /\ row.method = "OPTIONS")
                           => (StatusClass(row) = 2 <=> row.ready)

(***************************************************************************)
(* trace validation: rows recorded on the real handlers                    *)
(***************************************************************************)
Trace == ndJsonDeserialize(IF "VERIF_TRACE" \in DOMAIN IOEnv THEN IOEnv.VERIF_TRACE ELSE "trace.ndjson")
AnyRow == [endpoint |-> "version", method |-> "GET", ready |-> TRUE, token |-> "none"]
TInit == l = 1 /\ chk = [ok |-> TRUE] /\ row = AnyRow
TNext == /\ l <= Len(Trace) /\ l' = l + 1 /\ row' = row
         /\ LET t == Trace[l] IN
            IF t.k = "row"
            THEN LET r == [endpoint |-> t.endpoint, method |-> t.method, ready |-> t.ready, token |-> t.token]
                     e == Expected(r) IN
                 chk' = [ok |-> t.status \div 100 = e.class /\ t.cors = e.cors /\ t.entered = e.enters
                                 /\ (t.endpoint = "version" /\ e.enters /\ t.method # "HEAD" => t.body = t.version),
                         want |-> e, got |-> t]
            ELSE chk' = [ok |-> t.label = PathLabel(t.status, t.path), got |-> t]
TSpec == TInit /\ [][TNext]_<<row, l, chk>>
Ok_Http == chk.ok
TraceAccepted == TLCGet("stats").diameter - 1 = Len(Trace)
=============================================================================
